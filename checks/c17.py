"""C17 - the certificate store is bounded and never serves a certificate for other names.

Engine X: breadth-first search over all histories of `get_cert` / `add_cert` calls on the real
`CertStore` (instance attribute STORE_CAP = 2 so that eviction is reached within the depth bound),
every call judged against a reference model (plain dict of custom registrations + what the returned
X.509 certificate itself says).  Plus one linear history of 130 distinct requests with the shipped
capacity (class attribute, 100).
"""
from __future__ import annotations

import atexit
import copy
import ipaddress
import os
import shutil

from cryptography import x509
from cryptography.x509.oid import NameOID

from mitmproxy import certs

from vmc import explore
from vmc.tally import Tally

META = {
    "level": "model_checking",
    "technique": "explicit-state BFS over get_cert/add_cert histories on the real CertStore (capacity lowered on the instance) against a dict reference model; "
                 "one linear 130-request history with the shipped capacity",
    "claim": "for every history up to the depth bound over the name universe: the number of generated certificates held never exceeds the capacity, every returned "
             "certificate is a registered custom one matching a requested name or a generated one whose CN/SAN are exactly the request, and an identical request returns "
             "the identical entry as long as that entry is still held; model checking because the store is a small state machine whose transition function is called directly",
    "rule": "a case is a history of get_cert(cn, sans[, organization]) over 9 request shapes and add_cert of 5 custom certificates; states are merged on (keys of certs with entry identity classes, "
            "expire_queue order, custom registrations, last answer per request shape); non-trivial = the history contains at least one call",
    "assumptions": [
        "name universe {a.example, b.a.example, example, 10.0.0.1}; custom certificates {a.example, *.a.example, *.example, '*' (spec), 10.0.0.1}",
        "'the store's wildcard rules' = a registered name equals a requested DNS name, or equals '*.' + any proper suffix of it, or is the spec '*'",
        "which of several matching custom certificates is preferred, and whether a custom certificate registered later takes precedence over a cached generated one, is not constrained "
        "(same_request_same_cert is only judged when no add_cert happened between the two requests)",
        "'while it is cached' is read from the store itself: the earlier answer is still a value of store.certs",
        "name universe additionally contains one host name longer than 63 characters (no CN in the generated certificate) and one request shape with organization=; "
        "crl_url is not varied; whether the organization of a cached certificate matches the request is not judged (the statement speaks about names)",
        "generated_le_cap counts the distinct non-custom entries reachable from the store's own certs dict and expire_queue",
        "the CA key is generated once per process under /dev/shm/vmc-<pid>/ and shared by all stores",
    ],
}

# ---------------------------------------------------------------------------
# one CA per process

_CA = {}


def setup():
    if _CA:
        return _CA
    d = "/dev/shm/vmc-%d" % os.getpid()
    os.makedirs(d, exist_ok=True)
    pid = os.getpid()

    def _rm():
        if os.getpid() == pid:
            shutil.rmtree(d, ignore_errors=True)

    atexit.register(_rm)
    st = certs.CertStore.from_store(os.path.join(d, "c17-ca"), "mitmproxy", 2048)
    _CA.update(key=st.default_privatekey, ca=st.default_ca, crl=st.default_crl, dh=st.dhparams, dir=d)
    # custom certificates (signed by the same CA for speed; what makes them "custom" is that they are registered with add_cert)
    cust = []
    for cn, sans, names in CUSTOM_SPECS:
        c = certs.dummy_cert(st.default_privatekey, st.default_ca._cert, cn, sans)
        cust.append(certs.CertStoreEntry(c, st.default_privatekey, None, [st.default_ca]))
    _CA["custom"] = cust
    return _CA


def dns(n):
    return x509.DNSName(n)


def ip(n):
    return x509.IPAddress(ipaddress.ip_address(n))


# (cn of the certificate, SANs of the certificate, extra names passed to add_cert)
CUSTOM_SPECS = [
    ("a.example", [dns("a.example")], ()),
    ("*.a.example", [dns("*.a.example")], ()),
    ("*.example", [dns("*.example")], ()),
    ("custom.invalid", [], ("*",)),
    (None, [ip("10.0.0.1")], ()),
]

# a legal host name of more than 63 characters: dummy_cert leaves the CN out of such certificates
LONG = "l" * 60 + ".a.example"

# request shapes: (cn, sans, organization) - every argument class get_cert distinguishes: CN with its own SAN, other
# name, single label, IP, two SANs, no CN, no SAN, a CN too long for the subject, and the organization the TlsConfig
# addon passes along when the upstream certificate carries one
REQUESTS = [
    ("a.example", [dns("a.example")], None),
    ("b.a.example", [dns("b.a.example")], None),
    ("example", [dns("example")], None),
    ("10.0.0.1", [ip("10.0.0.1")], None),
    ("a.example", [dns("a.example"), dns("b.a.example")], None),
    (None, [dns("b.a.example")], None),
    ("a.example", [], None),
    (LONG, [dns(LONG)], None),
    ("b.a.example", [dns("b.a.example")], "Example Org"),
]
REQ_CLASS = ["cn+san", "cn+san", "cn+san", "ip", "cn+2san", "san-only", "cn-only", "long-cn", "cn+san+org"]
# how `sans` (declared Iterable[GeneralName]) is handed over, per request shape: a list, a tuple, a one-shot iterator
# (generator), or an x509.GeneralNames object (what the store itself uses in its keys)
SANS_AS = ["list", "tuple", "list", "list", "iter", "names", "list", "iter", "list"]


def pass_sans(sans, how):
    if how == "tuple":
        return tuple(sans)
    if how == "iter":
        return (x for x in list(sans))
    if how == "names":
        return x509.GeneralNames(list(sans))
    return list(sans)

CAP = 2
# reduced alphabet for the deeper search: a.example, the two-SAN request, the SAN-only request, the long CN, the request
# with an organization; customs a.example, *.a.example, '*'
DEEP_REQS = [0, 4, 5, 7, 8]
DEEP_CUSTOMS = [0, 1, 3]


def new_store(cap):
    ca = setup()
    st = certs.CertStore(ca["key"], ca["ca"], None, ca["crl"], ca["dh"])
    if cap is not None:
        st.STORE_CAP = cap  # instance attribute; the class keeps the shipped value
    return st


# ---------------------------------------------------------------------------
# reference model helpers (independent of CertStore.asterisk_forms)

def wildcard_forms(name: str):
    out = [name]
    try:
        ipaddress.ip_address(name)
        return out
    except ValueError:
        pass
    labels = name.split(".")
    for k in range(1, len(labels)):
        out.append("*." + ".".join(labels[k:]))
    return out


def requested_names(cn, sans):
    out = []
    if cn:
        out.append(cn)
    for s in sans:
        out.append(str(s.value))
    return out


def cert_names(entry):
    """(cn, sans, issuer) as the X.509 certificate itself states them (read with cryptography, not with certs.Cert)"""
    c = entry.cert.to_cryptography()
    cns = [a.value for a in c.subject.get_attributes_for_oid(NameOID.COMMON_NAME)]
    try:
        sans = list(c.extensions.get_extension_for_class(x509.SubjectAlternativeName).value)
    except x509.ExtensionNotFound:
        sans = []
    return cns, sans, c.issuer


def registered_names_of_custom(i):
    cn, sans, names = CUSTOM_SPECS[i]
    out = []
    if cn:
        out.append(cn)
    out += [str(s.value) for s in sans]
    out += list(names)
    return out


class Sys:
    def __init__(self, cap):
        self.store = new_store(cap)
        self.cap = cap if cap is not None else certs.CertStore.STORE_CAP
        self.custom = {}  # model: registered name -> custom index (latest registration wins)
        self.last = {}  # request index -> (entry, adds_at_that_time)
        self.adds = 0
        self.res = []  # judgements of the last transition


def is_custom(entry):
    for i, c in enumerate(setup()["custom"]):
        if c is entry:
            return i
    return None


def held_generated(store):
    seen = {}
    for v in list(store.certs.values()) + list(store.expire_queue):
        if is_custom(v) is None:
            seen[id(v)] = v
    return list(seen.values())


def do_get(s: Sys, ri, phase="bfs", req=None):
    if req is not None:
        cn, sans, org, rclass, how = req
    else:
        cn, sans, org = REQUESTS[ri]
        rclass, how = REQ_CLASS[ri], SANS_AS[ri]
    f = {"op": "get", "req": rclass, "sans_as": how, "phase": phase}
    prev = s.last.get(ri if req is None else (cn,))
    prev_cached = prev is not None and any(v is prev[0] for v in s.store.certs.values())
    try:
        if org is None:
            e = s.store.get_cert(cn, pass_sans(sans, how))
        else:
            e = s.store.get_cert(cn, pass_sans(sans, how), organization=org)
    except KeyboardInterrupt:
        raise
    except BaseException as ex:
        s.res.append(("get_cert_returns_entry", False, {**f, "hit": "error"}, "a CertStoreEntry", repr(ex)))
        return None
    ci = is_custom(e)
    if ci is not None:
        f = {**f, "hit": "custom"}
        want = requested_names(cn, sans)
        ok = any(s.custom.get(form) == ci for n in want for form in wildcard_forms(n) + ["*"])
        s.res.append(("custom_matches_requested_name", ok, f, {"requested": want, "registrations": dict(s.custom)}, "custom #%d %r" % (ci, registered_names_of_custom(ci))))
    else:
        f = {**f, "hit": "generated"}
        cns, csans, issuer = cert_names(e)
        want_cn = [cn] if cn is not None and len(cn) < 64 else []
        # "exactly the requested names": the same set of names (the order of SAN entries carries no meaning)
        same_sans = sorted(repr(x) for x in csans) == sorted(repr(x) for x in sans)
        ok = cns == want_cn and same_sans and issuer == setup()["ca"].to_cryptography().subject
        s.res.append(("generated_has_exactly_requested_names", ok, f, {"cn": want_cn, "sans": [str(x.value) for x in sans]},
                      {"cn": cns, "sans": [str(x.value) for x in csans]}))
    if prev is not None and prev_cached and prev[1] == s.adds:
        s.res.append(("same_request_same_cert_while_cached", e is prev[0], f, "the entry returned before", "another entry"))
    s.last[ri if req is None else (cn,)] = (e, s.adds)
    bound(s, f)
    return e


def do_add(s: Sys, ci, phase="bfs"):
    f = {"op": "add", "req": "custom%d" % ci, "phase": phase}
    cn, sans, names = CUSTOM_SPECS[ci]
    try:
        s.store.add_cert(setup()["custom"][ci], *names)
    except KeyboardInterrupt:
        raise
    except BaseException as ex:
        s.res.append(("add_cert_succeeds", False, f, None, repr(ex)))
        return
    for n in registered_names_of_custom(ci):
        s.custom[n] = ci
    s.adds += 1
    bound(s, f)


def bound(s: Sys, f):
    n = len(held_generated(s.store))
    s.res.append(("generated_le_cap", n <= s.cap, f, "<= %d" % s.cap, n))


class Spec:
    def __init__(self, cap=CAP, reqs=None, customs=None):
        self.cap = cap
        self.reqs = list(range(len(REQUESTS))) if reqs is None else list(reqs)
        self.customs = list(range(len(CUSTOM_SPECS))) if customs is None else list(customs)

    def build(self):
        return Sys(self.cap)

    def clone(self, s: Sys):
        c = Sys.__new__(Sys)
        c.store = copy.copy(s.store)
        c.store.certs = dict(s.store.certs)
        c.store.expire_queue = list(s.store.expire_queue)
        c.cap = s.cap
        c.custom = dict(s.custom)
        c.last = dict(s.last)
        c.adds = s.adds
        c.res = []
        return c

    def actions(self, s):
        return [["get", i] for i in self.reqs] + [["add", i] for i in self.customs]

    def apply(self, s, a):
        if a[0] == "get":
            do_get(s, a[1])
        else:
            do_add(s, a[1])

    def _tokens(self, s):
        tok = {}
        for e in s.store.expire_queue:
            if id(e) not in tok:
                ci = is_custom(e)
                tok[id(e)] = "c%d" % ci if ci is not None else "g%d" % len(tok)
        for e in s.store.certs.values():
            if id(e) not in tok:
                ci = is_custom(e)
                tok[id(e)] = "c%d" % ci if ci is not None else "g%d" % len(tok)
        return tok

    def fingerprint(self, s):
        tok = self._tokens(s)

        def kname(k):
            if isinstance(k, str):
                return k
            try:
                return [k[0], [str(x.value) for x in k[1]]] + [repr(x) for x in k[2:]]
            except Exception:  # a key of another shape: still a deterministic description
                return repr(k)

        return {
            "certs": [[kname(k), tok[id(v)]] for k, v in s.store.certs.items()],
            "queue": [tok[id(e)] for e in s.store.expire_queue],
            "custom": sorted(s.custom.items()),
            # an earlier answer matters only while it is still held and no add_cert happened since
            "last": sorted((ri, tok.get(id(e), "gone")) for ri, (e, adds) in s.last.items() if adds == s.adds and id(e) in tok),
        }

    def check(self, s, hist, t: Tally):
        for clause, ok, f, exp, obs in s.res:
            if ok:
                t.ok(clause)
            else:
                t.bad(clause, f, list(hist), exp, obs)
        for clause, ok, f, exp, obs in s.res[:1]:
            t.outcome([f.get("op"), f.get("req"), f.get("hit"), ok])
        s.res = []
        t.case(None, nontrivial=bool(hist), key=self.fingerprint(s) if hist else "init")
        if hist and len(hist) == 4 and len(t.samples) < 2:
            t.samples.append({"history": list(hist), "state": self.fingerprint(s)})


# ---------------------------------------------------------------------------
# linear history with the shipped capacity

def linear(t: Tally, n=130, verbose=False):
    s = Sys(None)
    cap = s.cap
    case = ["linear", n]
    entries = []

    def flush(step):
        for clause, ok, f, exp, obs in s.res:
            if ok:
                t.ok(clause)
            else:
                t.bad(clause, {**f, "phase": "linear"}, case, exp, {"step": step, "observed": obs})
        s.res = []

    # a custom wildcard certificate must not consume capacity
    do_add(s, 1, "linear")
    flush("add")
    def lin_req(k):
        # every 7th name is longer than 63 characters, every 5th request carries an organization
        name = ("h%03d." % k) + ("l" * 56 + "." if k % 7 == 3 else "") + "t.example"
        org = "Example Org" if k % 5 == 2 else None
        rclass = "long-cn" if k % 7 == 3 else ("cn+san+org" if org else "cn+san")
        return (name, [dns(name)], org, rclass, ("list", "tuple", "iter", "names")[k % 4])

    for i in range(n):
        e = do_get(s, None, "linear", lin_req(i))
        entries.append(e)
        flush(i)
        # an identical request right away, and the oldest request that must still be cached
        do_get(s, None, "linear", lin_req(i))
        j = max(0, i - cap + 1)
        e2 = do_get(s, None, "linear", lin_req(j))
        t.judge("same_request_same_cert_while_cached", e2 is entries[j], {"op": "get", "req": "cn+san", "hit": "generated", "phase": "linear"}, case,
                "entry of step %d" % j, "another entry at step %d" % i)
        flush(i)
        if i % 10 == 0:
            # a name covered by the custom wildcard in between
            e3 = do_get(s, None, "linear", ("w%d.a.example" % i, [dns("w%d.a.example" % i)], None, "cn+san", "list"))
            t.judge("custom_matches_requested_name", e3 is setup()["custom"][1], {"op": "get", "req": "cn+san", "hit": "custom", "phase": "linear"}, case, "custom *.a.example", "something else")
            flush(i)
        t.case(None, True, "linear|%d" % i)
        t.transitions += 3
    held = len(held_generated(s.store))
    t.judge("generated_le_cap", held <= cap, {"op": "get", "req": "cn+san", "phase": "linear"}, case, "<= %d" % cap, held)
    t.add("linear_requests", n)
    t.add("linear_generated_held_at_end", held)
    # the first name has been evicted: a new request gets a new certificate for exactly that name
    e = do_get(s, None, "linear", lin_req(0))
    flush("re-request evicted")
    t.add("linear_evicted_name_regenerated", int(e is not entries[0]))
    t.executions += 1
    if verbose:
        print("  linear run: %d requests, cap %d, generated held at end %d" % (n, cap, held))


def run(ctx):
    setup()
    # measured: one get_cert miss costs 1.2 ms and vmc.explore.bfs replays every frontier history from scratch,
    # so the full 14-action alphabet is explored to depth 4 (quick) / 5 (thorough); thorough adds a
    # depth-7 search over a reduced alphabet (5 request shapes, 3 custom certificates)
    depth = ctx.pick(4, 5)
    ctx.bounds = {"bfs_depth": depth, "STORE_CAP_for_bfs": CAP,
                  "request_shapes": ["%s / %s (sans passed as %s) / organization=%s" % (cn, [str(x.value) for x in sans], how, org) for (cn, sans, org), how in zip(REQUESTS, SANS_AS)],
                  "custom_certificates": [registered_names_of_custom(i) for i in range(len(CUSTOM_SPECS))],
                  "linear_run": "130 distinct names (every 7th longer than 63 characters, every 5th with an organization) with the shipped STORE_CAP=%d" % certs.CertStore.STORE_CAP}
    # quick tier: 13 s of CPU in total (measured), less than what starting a process pool per BFS level costs on a
    # busy machine - run it in-process; thorough is ~6x larger and uses the pool
    states, capped = explore.bfs(Spec(), depth, ctx.tally, log=ctx.log, nproc=None if ctx.thorough else 1)
    if capped:
        ctx.cap("max_states")
    ctx.log("bfs (full alphabet, depth %d): %d states" % (depth, states))
    if ctx.thorough:
        ctx.bounds["bfs2"] = {"depth": 7, "request_shapes": DEEP_REQS, "custom_certificates": DEEP_CUSTOMS}
        states2, capped = explore.bfs(Spec(CAP, DEEP_REQS, DEEP_CUSTOMS), 7, ctx.tally, log=ctx.log)
        if capped:
            ctx.cap("max_states")
        ctx.log("bfs (reduced alphabet, depth 7): %d states" % states2)
    linear(ctx.tally, 130)
    ctx.log("linear run done")


def replay(case, t: Tally, verbose=False):
    setup()
    if case and case[0] == "linear":
        linear(t, case[1], verbose=True)
        return
    spec = Spec()
    s = spec.build()
    hist = []
    for a in case:
        spec.apply(s, a)
        hist.append(a)
        if verbose:
            print("  after", a, "->", spec.fingerprint(s))
        spec.check(s, hist, t)
