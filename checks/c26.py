"""C26 - forwarded DNS messages keep their meaning.

Engine E.  A query and a response, written by an independent compressing writer the way real
servers write them (owner names compressed to the question, names inside CNAME/NS/PTR/MX/SOA/SRV
data compressed as pointer / label+pointer / pointer into earlier RDATA, binary TXT/HINFO/OPT/unknown
data, integers whose octets look like pointers, IDN and mixed-case names), are sent through the real
`DNSLayer` (UDP and TCP, no addon modification).  The bytes the layer sends on are decoded by the
independent decoder vmc.refs.dnsref and compared with the decoding of what was sent.
"""
from __future__ import annotations

import itertools
import struct

from vmc import par
from vmc.drivers.dnsdrv import DnsDriver
from vmc.refs import dnsref as R
from vmc.tally import Tally

META = {
    "level": "exploration",
    "technique": "bounded-exhaustive enumeration of query/response messages (record type x RDATA variant x compression style x "
    "name alphabet, 1-3 records) forwarded through the real DNSLayer over UDP and TCP; sent and delivered bytes are both read "
    "by an independent RFC 1035 decoder and compared field by field",
    "claim": "every enumerated unmodified message is delivered with identical header, questions and records (names expanded), "
    "and byte-identical RDATA for types without names, except for the listed known findings; the quantifier is over inputs, "
    "so exhaustive enumeration of a record grammar is the deciding method",
    "rule": "a case is (transport, question name, list of record variants with sections); distinct = distinct response bytes + transport; "
    "non-trivial = the response reached the client side of the layer (it was parsed and re-packed by mitmproxy)",
    "assumptions": [
        "names are compared octet-exact (case preserved); labels are LDH/underscore ASCII or lower-case A-labels (IDNA-canonical)",
        "compression is used only where real servers use it: owner names and RDATA names of RFC 1035 types plus SRV; HTTPS/DNAME/RRSIG names are written uncompressed",
        "the reference decoder's per-type RDATA schema (vmc/refs/dnsref.py) defines which types carry names",
        "hooks complete immediately and change nothing; the upstream connects successfully",
    ],
}

# ---------------------------------------------------------------------------
# the record grammar

QNAMES = {
    "plain": (b"example", b"com"),
    "idn": (b"xn--bcher-kva", b"example"),
    "mixed": (b"ExAmple", b"COM"),
    "short": (b"a", b"b"),
}
PTRLIKE16 = (0xC00C, 0xC000, 0xFFFF)


def u16(v):
    return struct.pack("!H", v)


class Rec:
    """one record variant.  build(ctx, rd_at) -> rdata bytes; ctx gives offsets for pointers"""

    def __init__(self, rtype, label, build, ptrlike="none", rdname="none", owner="ptr", rclass=1, ttl=300):
        self.rtype, self.label, self.build = rtype, label, build
        self.ptrlike, self.rdname, self.owner, self.rclass, self.ttl = ptrlike, rdname, owner, rclass, ttl

    def features(self, qkind):
        return {"scope": "record", "rtype": R.type_name(self.rtype), "ptrlike": self.ptrlike, "rdname": self.rdname,
                "idn": qkind == "idn"}


def name_in_rdata(style, lead):
    """-> f(ctx) -> wire name.  styles: uncompressed | ptr | label+ptr | ptr-prev"""

    def f(ctx):
        if style == "uncompressed":
            return R.wire_name((lead,) + ctx["qname"])
        if style == "ptr":
            return R.wire_name((), ctx["q_at"])
        if style == "label+ptr":
            return R.wire_name((lead,), ctx["q_at"])
        if style == "ptr-prev":  # pointer to the most recent name written inside earlier RDATA, else to the zone cut of the question
            return R.wire_name((), ctx["prev_rdname"] if ctx["prev_rdname"] is not None else ctx["q_at"] + 1 + len(ctx["qname"][0]))
        raise AssertionError(style)

    return f


NAME_STYLES = ("uncompressed", "ptr", "label+ptr", "ptr-prev")


def record_pool(thorough):
    pool = []

    def add(*a, **k):
        pool.append(Rec(*a, **k))

    for lab, addr in (("plain", b"\x01\x02\x03\x04"), ("c00c", b"\xc0\x0c\xc0\x0c"), ("ffff", b"\xff" * 4), ("c000", b"\xc0\x00\x02\x01")):
        add(R.A, "A/" + lab, lambda c, at, a=addr: a, ptrlike="none" if lab == "plain" else "addr")
    for lab, addr in (("plain", bytes.fromhex("20010db8000000000000000000000001")), ("c00c", b"\xc0\x0c" * 8), ("ffff", b"\xff" * 16)):
        add(R.AAAA, "AAAA/" + lab, lambda c, at, a=addr: a, ptrlike="none" if lab == "plain" else "addr")
    for ty, lead in ((R.NS, b"ns1"), (R.CNAME, b"www"), (R.PTR, b"host")):
        for st in NAME_STYLES:
            add(ty, "%s/%s" % (R.type_name(ty), st), lambda c, at, f=name_in_rdata(st, lead): f(c), rdname=st)
    for pref in (10,) + PTRLIKE16:
        for st in NAME_STYLES:
            add(R.MX, "MX/%x/%s" % (pref, st), lambda c, at, p=pref, f=name_in_rdata(st, b"mx"): u16(p) + f(c),
                ptrlike="none" if pref == 10 else "int", rdname=st)
    soa_ints = {"plain": (2024010101, 7200, 3600, 1209600, 60), "serial-c00c": (0xC00CC00C, 7200, 3600, 1209600, 60),
                "minimum-c00c": (1, 7200, 3600, 1209600, 0xC00C), "all-ff": (0xFFFFFFFF,) * 5, "refresh-c000": (1, 0xC0000000, 3600, 1209600, 60)}
    soa_styles = (("uncompressed", "uncompressed"), ("label+ptr", "label+ptr"), ("ptr", "label+ptr"), ("label+ptr", "uncompressed"), ("uncompressed", "ptr"),
                  ("ptr", "ptr"), ("ptr-prev", "ptr"), ("ptr", "ptr-prev"))  # the last three: two adjacent bare pointers
    for ik, ints in soa_ints.items():
        for s1, s2 in (soa_styles if ik in ("plain", "serial-c00c") else soa_styles[:2]):
            add(R.SOA, "SOA/%s/%s,%s" % (ik, s1, s2),
                lambda c, at, i=ints, f1=name_in_rdata(s1, b"ns1"), f2=name_in_rdata(s2, b"hostmaster"): f1(c) + f2(c) + struct.pack("!IIIII", *i),
                ptrlike="none" if ik == "plain" else "int", rdname="%s,%s" % (s1, s2))
    # other types whose RDATA is two names back to back
    for ty in (R.RP, R.MINFO):
        for s1, s2 in (("uncompressed", "uncompressed"), ("ptr", "ptr"), ("label+ptr", "ptr"), ("ptr-prev", "ptr"), ("ptr", "label+ptr")):
            add(ty, "%s/%s,%s" % (R.type_name(ty), s1, s2),
                lambda c, at, f1=name_in_rdata(s1, b"admin"), f2=name_in_rdata(s2, b"info"): f1(c) + f2(c), rdname="%s,%s" % (s1, s2))
    for lab, pwp in (("plain", (1, 2, 443)), ("prio-c00c", (0xC00C, 0, 443)), ("weight-c000", (0, 0xC000, 0xFFFF)), ("port-c00c", (0, 0, 0xC00C))):
        for st in ("uncompressed", "ptr"):
            add(R.SRV, "SRV/%s/%s" % (lab, st), lambda c, at, v=pwp, f=name_in_rdata(st, b"sip"): struct.pack("!HHH", *v) + f(c),
                ptrlike="none" if lab == "plain" else "int", rdname=st)
    txts = {"ascii": [b"v=spf1 -all"], "c00c": [b"\xc0\x0c"], "c000": [b"\xc0\x00"], "ffff": [b"\xff\xff"], "a+c00c": [b"a", b"\xc0\x0c"],
            "len192": [b"\x0c" + b"k" * 191], "empty": [b""], "len255-bin": [bytes(range(1, 256))], "utf8": ["bücher".encode()]}
    for lab, strs in txts.items():
        add(R.TXT, "TXT/" + lab, lambda c, at, s=strs: b"".join(bytes([len(x)]) + x for x in s),
            ptrlike="none" if lab in ("ascii", "empty") else "charstring")
    for lab, (cpu, os_) in {"ascii": (b"cpu", b"os"), "c00c": (b"\xc0\x0c", b"a"), "c000": (b"a", b"\xc0\x00")}.items():
        add(R.HINFO, "HINFO/" + lab, lambda c, at, a=cpu, b=os_: bytes([len(a)]) + a + bytes([len(b)]) + b,
            ptrlike="none" if lab == "ascii" else "charstring")
    https = {"alpn": (1, b"\x00", b"\x00\x01\x00\x03\x02h2"), "prio-c00c": (0xC00C, b"\x00", b""),
             "hint-c00c": (1, b"\x00", b"\x00\x04\x00\x04\xc0\x0c\xc0\x0c"), "target+ech-c00c": (1, b"\x03svc\x07example\x03net\x00", b"\x00\x05\x00\x04\xc0\x0c\xff\xff")}
    for lab, (prio, tgt, params) in https.items():
        add(R.HTTPS, "HTTPS/" + lab, lambda c, at, p=prio, t=tgt, q=params: u16(p) + t + q, ptrlike="none" if lab == "alpn" else "opaque",
            rdname="uncompressed" if len(tgt) > 1 else "none")
    for lab, d in {"empty": b"", "c00c": b"\xc0\x0c", "ascii": b"hello", "ffff": b"\xff\xff\xff"}.items():
        add(65280, "TYPE65280/" + lab, lambda c, at, x=d: x, ptrlike="none" if lab in ("empty", "ascii") else "opaque")
    add(R.DNAME, "DNAME/uncompressed", lambda c, at: R.wire_name((b"other",) + c["qname"]), rdname="uncompressed")
    add(R.RRSIG, "RRSIG/c00c", lambda c, at: b"\x00\x01\x0d\x02\x00\x00\x01\x2c\xc0\x0c\xc0\x0c\xc0\x0c\xc0\x0c\xc0\x0c" + R.wire_name(c["qname"]) + b"\xc0\x0c\xff\x00sig",
        ptrlike="opaque", rdname="uncompressed")
    # EDNS: owner root, class = payload size, ttl = ext-rcode/version/flags
    for lab, (size, ttl, opts) in {"plain": (1232, 0, b""), "do+cookie-c00c": (4096, 0x8000, b"\x00\x0a\x00\x08\xc0\x0c\xc0\x0c\xc0\x0c\xc0\x0c"),
                                   "size-c00c": (0xC00C, 0, b"\x00\x0c\x00\x02\x00\x00")}.items():
        add(R.OPT, "OPT/" + lab, lambda c, at, o=opts: o, ptrlike="none" if lab == "plain" else "opaque", owner="root", rclass=size, ttl=ttl)
    return pool


OWNERS = ("ptr", "label+ptr", "uncompressed")  # plus "ptr-prev" (owner = pointer to a name inside earlier RDATA, as in CNAME chains)
PAD_STRINGS = 11  # a padding TXT record of 11 x 100 ASCII octets pushes everything after it beyond offset 1023 (10 bit offsets end there)
PAD = Rec(R.TXT, "TXT/pad", lambda c, at: (b"\x64" + b"p" * 100) * PAD_STRINGS)


def build_response(ident, flags, qkind, qtype, recs):
    """recs: list of (section 1..3, Rec, owner style) -> (bytes, per-record offsets)"""
    qname = QNAMES[qkind]
    w = R.Writer(ident, flags)
    q_at = w.question(R.wire_name(qname), qtype, 1)
    ctx = {"qname": qname, "q_at": q_at, "prev_rdname": None}
    for sec, rec, owner in sorted(recs, key=lambda x: x[0]):
        if rec.owner == "root":
            own = b"\x00"
        elif owner == "ptr":
            own = R.wire_name((), q_at)
        elif owner == "label+ptr":
            own = R.wire_name((b"www",), q_at)
        elif owner == "ptr-prev":
            own = R.wire_name((), ctx["prev_rdname"] if ctx["prev_rdname"] is not None else q_at)
        else:
            own = R.wire_name(qname)
        at, rd_at = w.record(sec, own, rec.rtype, rec.rclass, rec.ttl, lambda rd, r=rec: r.build(ctx, rd))
        if rec.rdname != "none" and rec.rtype in (R.NS, R.CNAME, R.PTR, R.MX, R.SOA, R.SRV, R.RP, R.MINFO):
            # where the (first) name of this RDATA starts, for later 'ptr-prev' pointers
            ctx["prev_rdname"] = rd_at + {R.MX: 2, R.SRV: 6}.get(rec.rtype, 0)
    return w.done()


def build_query(ident, qkind, qtype, flags, edns):
    w = R.Writer(ident, flags)
    w.question(R.wire_name(QNAMES[qkind]), qtype, 1)
    if edns == "opt":
        w.record(3, b"\x00", R.OPT, 1232, 0, b"")
    elif edns == "opt-do-cookie":
        w.record(3, b"\x00", R.OPT, 0xC00C, 0x8000, b"\x00\x0a\x00\x08\xc0\x0c\xc0\x0c\xff\xff\x00\x01")
    return w.done()


# ---------------------------------------------------------------------------
# cases: JSON-able descriptors; pool entries are addressed by label


def enumerate_cases(thorough):
    pool = record_pool(thorough)
    labels = [r.label for r in pool]
    assert len(set(labels)) == len(labels)
    # queries on their own: every flag bit of a query, EDNS variants
    for tr in ("udp", "tcp"):
        for qkind in QNAMES:
            for edns in ("none", "opt", "opt-do-cookie"):
                for fl in (0x0000, 0x0100, 0x0120, 0x0110, 0x0170, 0x7900, 0x0200):
                    for qtype in (1, 255, 65):
                        yield {"tr": tr, "q": qkind, "qtype": qtype, "qflags": fl, "edns": edns, "rflags": 0x8180, "recs": []}
    # responses: header variants around one record
    for tr in ("udp", "tcp"):
        for rflags in (0x8180, 0x8580, 0x8380, 0x8183, 0x81B0, 0x8000, 0xFFFF, 0x8182):
            yield {"tr": tr, "q": "plain", "qtype": 1, "qflags": 0x0100, "edns": "none", "rflags": rflags, "recs": [[1, "A/plain", "ptr"]]}
    # single records: every variant x owner style x section x question name
    for tr in ("udp", "tcp"):
        for qkind in QNAMES:
            for r in pool:
                for owner in (OWNERS if r.owner != "root" else ("ptr",)):
                    for sec in ((1, 2, 3) if r.rtype != R.OPT else (3,)):
                        if not thorough and sec == 2 and owner != "ptr":
                            continue
                        yield {"tr": tr, "q": qkind, "qtype": r.rtype if r.rtype != R.OPT else 1, "qflags": 0x0100, "edns": "none",
                               "rflags": 0x8180, "recs": [[sec, r.label, owner]]}
    # pairs: all ordered pairs of variants (second may point into the first one's RDATA)
    pair_q = ("plain", "idn") if thorough else ("idn",)
    for tr in ("udp", "tcp"):
        for qkind in pair_q:
            for r1 in pool:
                for r2 in pool:
                    if r1.rtype == R.OPT:
                        continue
                    s2 = 3 if r2.rtype == R.OPT else 1
                    if not thorough and tr == "tcp" and (r1.ptrlike == "none" and r2.ptrlike == "none" and r1.rdname == "none" and r2.rdname == "none"):
                        continue
                    yield {"tr": tr, "q": qkind, "qtype": 255, "qflags": 0x0100, "edns": "none", "rflags": 0x8180,
                           "recs": [[1, r1.label, "ptr"], [s2, r2.label, "ptr"]]}
    # large responses: a padding record first, so that the names written after it sit beyond offset 1023, then a record
    # with a name in its RDATA and a record that points back at that name (owner and/or RDATA name = pointer to it)
    namers = [r for r in pool if r.rdname != "none" and r.ptrlike == "none" and r.rtype in (R.NS, R.CNAME, R.PTR, R.MX, R.SOA, R.SRV, R.RP, R.MINFO)]
    for tr in (("udp", "tcp") if thorough else ("udp",)):
        for qkind in (("idn", "plain") if thorough else ("idn",)):
            for r1 in namers:
                for r2 in pool:
                    if r2.rtype == R.OPT:
                        continue
                    for owner in (("ptr-prev", "ptr") if "ptr-prev" in r2.rdname else ("ptr-prev",)):
                        yield {"tr": tr, "q": qkind, "qtype": 255, "qflags": 0x0100, "edns": "none", "rflags": 0x8180, "pad": 1,
                               "recs": [[1, r1.label, "ptr"], [1, r2.label, owner]]}
    if thorough:
        small = [r for r in pool if r.label in (
            "A/c00c", "CNAME/label+ptr", "NS/ptr-prev", "MX/a/label+ptr", "MX/c00c/ptr", "SOA/plain/label+ptr,label+ptr", "SOA/serial-c00c/ptr,label+ptr",
            "SRV/plain/ptr", "TXT/ascii", "TXT/c00c", "TXT/len192", "HINFO/c00c", "HTTPS/hint-c00c", "TYPE65280/c00c", "OPT/do+cookie-c00c", "AAAA/plain",
            "PTR/uncompressed", "CNAME/ptr-prev", "RRSIG/c00c", "TXT/len255-bin")]
        assert len(small) == 20, [r.label for r in small]
        for tr in ("udp", "tcp"):
            for qkind in ("idn", "mixed"):
                for r1, r2, r3 in itertools.product(small, repeat=3):
                    if r1.rtype == R.OPT or r2.rtype == R.OPT:
                        continue
                    for secs in ((1, 1, 1), (1, 2, 3)):
                        s3 = 3 if r3.rtype == R.OPT else secs[2]
                        yield {"tr": tr, "q": qkind, "qtype": 255, "qflags": 0x0100, "edns": "none", "rflags": 0x8180,
                               "recs": [[secs[0], r1.label, "ptr"], [secs[1], r2.label, "label+ptr"], [s3, r3.label, "ptr"]]}


_POOL = None


def pool_by_label():
    global _POOL
    if _POOL is None:
        _POOL = {r.label: r for r in record_pool(True)}
    return _POOL


# ---------------------------------------------------------------------------
# running one case


def frame(tr, b):
    return struct.pack("!H", len(b)) + b if tr == "tcp" else b


def unframe(tr, chunks):
    """bytes the layer sent on one connection -> list of messages"""
    if tr == "udp":
        return list(chunks)
    frames, rest = R.tcp_frames(b"".join(chunks))
    return frames + ([rest] if rest else [])


def compare(sent, delivered, t: Tally, case, direction, recfeats, verdicts=None):
    """judge one forwarded message.  recfeats: per record features in wire order (or None for queries' records);
    verdicts: optional list receiving (type, same meaning?) per record"""
    ms = R.decode(sent)  # harness self-check: what the peer sends is well-formed for the reference decoder
    mfeat = {"scope": "message", "dir": direction}
    if delivered is None:
        t.bad("same_meaning", dict(mfeat, problem="not-delivered"), case, "the message, forwarded", "nothing was sent on")
        return False
    md, kind = R.try_decode(delivered)
    if md is None:
        t.bad("same_meaning", dict(mfeat, problem="undecodable"), case, "a well-formed message", "reference decoder: %s; %s" % (kind, delivered.hex()[:400]))
        return False
    t.judge("same_meaning", R.header_meaning(ms) == R.header_meaning(md), dict(mfeat, problem="header"), case, R.header_meaning(ms), R.header_meaning(md))
    t.judge("same_meaning", R.question_meaning(ms) == R.question_meaning(md), dict(mfeat, problem="question"), case,
            R.question_meaning(ms), R.question_meaning(md))
    i = 0
    for sec in ("an", "ns", "ar"):
        for a, b in zip(ms[sec], md[sec]):
            f = recfeats[i] if recfeats and i < len(recfeats) else {"scope": "record", "rtype": R.type_name(a["type"]), "ptrlike": "none", "rdname": "none", "idn": False}
            i += 1
            assert a["fits"], ("harness wrote RDATA that does not fit its schema", a)
            same = t.judge("same_meaning", R.record_meaning(a) == R.record_meaning(b), f, case, R.record_meaning(a), R.record_meaning(b))
            if verdicts is not None:
                verdicts.append([f["rtype"], f["ptrlike"], f["rdname"], bool(same)])
            if not R.has_names(a["type"]):
                t.judge("non_name_types_bytewise", a["rdata"] == b["rdata"], f, case, a["rdata"], b["rdata"])
    return True


def run_case(case, t: Tally, verbose=False):
    pool = pool_by_label()
    tr, qkind = case["tr"], case["q"]
    recs = [(1, PAD, "ptr")] * case.get("pad", 0) + [(sec, pool[label], owner) for sec, label, owner in case["recs"]]
    ident = 0xC00C
    query = build_query(ident, qkind, case["qtype"], case["qflags"], case["edns"])
    resp = build_response(ident, case["rflags"], qkind, case["qtype"], recs)
    recfeats = [r.features(qkind) for sec, r, o in sorted(recs, key=lambda x: x[0])]
    d = DnsDriver(tr)  # exceptions out of the layer are caught by the driver and logged as ("crash", ...)
    d.client_data(frame(tr, query))
    to_server = unframe(tr, d.out["server"])
    crash = [e for e in d.log if e[0] == "crash"]
    if verbose:
        print("  query sent     :", query.hex())
        print("  query delivered:", [x.hex() for x in to_server], crash or "")
    reached = compare(query, to_server[0] if len(to_server) == 1 else None, t, case, "query", None)
    if len(to_server) > 1:
        t.bad("same_meaning", {"scope": "message", "dir": "query", "problem": "duplicated"}, case, "one message", len(to_server))
    delivered_resp = False
    verdicts = []
    if reached:
        d.server_data(frame(tr, resp))
        to_client = unframe(tr, d.out["client"])
        if verbose:
            print("  response sent     :", resp.hex())
            print("  response delivered:", [x.hex() for x in to_client])
            for e in d.log:
                if e[0] in ("crash", "log", "close"):
                    print("  ", e)
        if len(to_client) != 1:
            # nothing (or too much) came out: attribute to the record variant when there is exactly one
            f = {"scope": "message", "dir": "response", "problem": "not-delivered" if not to_client else "duplicated"}
            if len(recfeats) == 1:
                f.update({k: recfeats[0][k] for k in ("rtype", "ptrlike", "rdname", "idn")})
            t.bad("same_meaning", f, case, "the response, forwarded once", [e for e in d.log if e[0] in ("crash", "log", "close")][:3])
        else:
            delivered_resp = compare(resp, to_client[0], t, case, "response", recfeats, verdicts)
    t.outcome([len(d.out["server"]), len(d.out["client"]), [e[:2] for e in d.log if e[0] in ("crash", "close")], sorted(verdicts)])
    t.case(case if len(case["recs"]) <= 2 else None, nontrivial=delivered_resp, key=[tr, resp, query])
    t.add("records_forwarded", len(recs) if delivered_resp else 0)


def chunk(cases):
    t = Tally()
    for c in cases:
        run_case(c, t)
    return t


def run(ctx):
    thorough = ctx.thorough
    pool = record_pool(thorough)
    ctx.bounds = {
        "transports": ["udp", "tcp"], "question_names": {k: b".".join(v).decode() for k, v in QNAMES.items()},
        "record_variants": len(pool), "owner_styles": list(OWNERS), "rdata_name_styles": list(NAME_STYLES),
        "large_responses": "1100-octet padding record + (record with RDATA name) x (every variant, owner = pointer to that name)",
        "records_per_response": "1 (all variants x owner styles x sections), 2 (all ordered pairs)" + (", 3 (20 variants cubed)" if thorough else ""),
        "queries": "4 names x 3 types x 7 flag words x 3 EDNS variants",
    }
    cases = list(enumerate_cases(thorough))
    ctx.log("%d record variants, %d cases" % (len(pool), len(cases)))
    nproc = par.NPROC if thorough else min(4, par.NPROC)  # quick is ~10 s of CPU: a few workers are enough
    par.pmap_tally(chunk, cases, ctx.tally, nchunks=nproc * 4, nproc=nproc)
    ctx.log("records forwarded and compared: %d" % ctx.tally.extra.get("records_forwarded", 0))


def replay(case, t: Tally, verbose=False):
    run_case(case, t, verbose=verbose)
