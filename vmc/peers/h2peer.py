"""h2peer - an independent in-memory HTTP/2 endpoint built on hyper-h2's plain H2Connection.

mitmproxy's own `BufferedH2Connection` subclass, its stream-id translation and its
queueing are *not* used here: the peer is the stock `h2.connection.H2Connection`
(inbound validation on, outbound validation/normalisation off so that adversarial
header blocks can be produced), and everything it decodes is recorded per stream:

    peer.streams[sid] = {"headers": [(n, v)...] | None, "data": [bytes...], "trailers": [...] | None,
                          "ended": bool, "reset": int | None, "info": [[(n, v)...]...]}

Flow control is *manual*: the peer never acknowledges received data on its own; the
explorer calls `release(sid)` (WINDOW_UPDATE for stream and connection), so withheld
window updates are an environment choice.

`open_now()` is the number of peer-initiated streams that are open or half closed at
this endpoint (counted here from the decoded events, not read from mitmproxy).
"""
from __future__ import annotations

import h2.config
import h2.connection
import h2.errors
import h2.events
import h2.exceptions
import h2.settings

SC = h2.settings.SettingCodes


class H2Peer:
    def __init__(self, client_side: bool, settings: dict | None = None, validate_inbound=True):
        cfg = h2.config.H2Configuration(
            client_side=client_side,
            header_encoding=None,
            validate_inbound_headers=validate_inbound,
            validate_outbound_headers=False,
            normalize_outbound_headers=False,
            normalize_inbound_headers=False,
        )
        self.client_side = client_side
        self.conn = h2.connection.H2Connection(cfg)
        self.first_settings = dict(settings or {})
        self.streams: dict[int, dict] = {}
        self.order: list[int] = []  # stream ids in the order their (request/response) head arrived
        self.unacked: dict[int, int] = {}
        self.log: list = []  # (kind, stream id, detail) in arrival order
        self.conn_error: str | None = None
        self.terminated = None  # GOAWAY received: (error_code, last_stream_id, additional_data)
        self.settings_acked = 0
        self.remote_settings_seen = 0
        self.max_open_seen = 0
        self.open_at_head: list = []  # [(sid, open count including it)] at every inbound head

    # ------------------------------------------------------------------ bytes in / out
    def start(self) -> bytes:
        """connection preface; the peer's own settings follow in a second SETTINGS frame of the same flight, so
        that hyper-h2 enforces them only once the other side has acknowledged them"""
        self.conn.initiate_connection()
        if self.first_settings:
            self.conn.update_settings(self.first_settings)
        return self.conn.data_to_send()

    def out(self) -> bytes:
        return self.conn.data_to_send()

    def _st(self, sid):
        if sid not in self.streams:
            self.streams[sid] = {"headers": None, "data": [], "trailers": None, "ended": False, "reset": None, "info": []}
        return self.streams[sid]

    def receive(self, data: bytes) -> list:
        """feed bytes from mitmproxy; returns the h2 events (also recorded)"""
        if self.conn_error:
            return []
        try:
            events = self.conn.receive_data(data)
        except h2.exceptions.ProtocolError as e:
            self.conn_error = "%s: %s" % (type(e).__name__, e)
            self.log.append(("conn_error", 0, self.conn_error))
            return []
        for ev in events:
            if isinstance(ev, (h2.events.RequestReceived, h2.events.ResponseReceived)):
                st = self._st(ev.stream_id)
                st["headers"] = [(bytes(n), bytes(v)) for n, v in ev.headers]
                self.order.append(ev.stream_id)
                n = self.open_now()
                self.open_at_head.append((ev.stream_id, n))
                self.max_open_seen = max(self.max_open_seen, n)
                self.log.append(("head", ev.stream_id, None))
            elif isinstance(ev, h2.events.InformationalResponseReceived):
                self._st(ev.stream_id)["info"].append([(bytes(n), bytes(v)) for n, v in ev.headers])
            elif isinstance(ev, h2.events.DataReceived):
                st = self._st(ev.stream_id)
                st["data"].append(bytes(ev.data))
                self.unacked[ev.stream_id] = self.unacked.get(ev.stream_id, 0) + ev.flow_controlled_length
                self.log.append(("data", ev.stream_id, len(ev.data)))
            elif isinstance(ev, h2.events.TrailersReceived):
                self._st(ev.stream_id)["trailers"] = [(bytes(n), bytes(v)) for n, v in ev.headers]
                self.log.append(("trailers", ev.stream_id, None))
            elif isinstance(ev, h2.events.StreamEnded):
                self._st(ev.stream_id)["ended"] = True
                self.log.append(("end", ev.stream_id, None))
            elif isinstance(ev, h2.events.StreamReset):
                self._st(ev.stream_id)["reset"] = int(ev.error_code)
                self.log.append(("reset", ev.stream_id, int(ev.error_code)))
            elif isinstance(ev, h2.events.ConnectionTerminated):
                self.terminated = (int(ev.error_code), ev.last_stream_id, bytes(ev.additional_data or b""))
                self.log.append(("goaway", 0, int(ev.error_code)))
            elif isinstance(ev, h2.events.SettingsAcknowledged):
                self.settings_acked += 1
            elif isinstance(ev, h2.events.RemoteSettingsChanged):
                self.remote_settings_seen += 1
        return events

    # ------------------------------------------------------------------ what the peer can see
    def open_now(self) -> int:
        """streams opened by the remote side (requests, for a server peer) that are not closed here"""
        n = 0
        for sid, s in self.conn.streams.items():
            remote = (sid % 2 == 1) != self.client_side
            if remote and sid in self.streams and self.streams[sid]["headers"] is not None and not s.closed:
                n += 1
        return n

    def body(self, sid) -> bytes:
        return b"".join(self.streams[sid]["data"]) if sid in self.streams else b""

    def can_send(self, sid) -> bool:
        s = self.conn.streams.get(sid)
        if s is None or self.dead:
            return False
        import h2.stream as hs

        return s.state_machine.state in (hs.StreamState.OPEN, hs.StreamState.HALF_CLOSED_REMOTE)

    # ------------------------------------------------------------------ sending
    def headers(self, sid, fields, end=False) -> bytes:
        self.conn.send_headers(sid, list(fields), end_stream=end)
        return self.conn.data_to_send()

    def data(self, sid, body: bytes, end=False) -> bytes:
        self.conn.send_data(sid, body, end_stream=end)
        return self.conn.data_to_send()

    def trailers(self, sid, fields) -> bytes:
        self.conn.send_headers(sid, list(fields), end_stream=True)
        return self.conn.data_to_send()

    def end(self, sid) -> bytes:
        self.conn.end_stream(sid)
        return self.conn.data_to_send()

    def reset(self, sid, code=h2.errors.ErrorCodes.CANCEL) -> bytes:
        self.conn.reset_stream(sid, int(code))
        return self.conn.data_to_send()

    def settings(self, values: dict) -> bytes:
        self.conn.update_settings(values)
        return self.conn.data_to_send()

    @property
    def dead(self) -> bool:
        """the connection is over at this endpoint (protocol error seen here, or GOAWAY received)"""
        return bool(self.conn_error or self.terminated) or self.conn.state_machine.state is h2.connection.ConnectionState.CLOSED

    def release(self, sid, n=None) -> bytes:
        """grant flow-control window for what was received on `sid` (stream and connection level)"""
        k = self.unacked.get(sid, 0) if n is None else n
        if k <= 0:
            return b""
        self.unacked[sid] = self.unacked.get(sid, 0) - k
        if self.dead:
            return b""
        self.conn.increment_flow_control_window(k)
        s = self.conn.streams.get(sid)
        if s is not None and not s.closed:
            self.conn.increment_flow_control_window(k, stream_id=sid)
        return self.conn.data_to_send()

    def next_stream_id(self) -> int:
        return self.conn.get_next_available_stream_id()
