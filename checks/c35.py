"""C35 - Headers behave as a case-insensitive ordered multimap; HTTP/1 round trip.

Engine X: BFS over all mutator sequences (depth bound) on the real `Headers`,
every read operation evaluated in every state, every mutator judged against the
multimap laws relating the field list before and after.  Engine E: every valid
field list up to a size bound serialised with the real assembler and parsed back
with the real HTTP/1 reader.
"""
from __future__ import annotations

import itertools

from mitmproxy.http import Headers, Request
from mitmproxy.net.http.http1 import assemble, read
from h11._receivebuffer import ReceiveBuffer

from vmc import explore, par
from vmc.tally import Tally

META = {
    "level": "model_checking",
    "technique": "explicit-state BFS over operation histories on the real Headers class against a list-of-pairs reference model; exhaustive field-list enumeration for the HTTP/1 round trip",
    "rule": "a case is a mutator history (names A/a/B as str and bytes, values 1/2) reaching a distinct field list; "
    "non-trivial = the history contains at least one mutator and the state holds at least one field, or is a distinct valid field list for the HTTP/1 round trip",
    "assumptions": [
        "names restricted to {A,a,B}, values to {1,2}: the laws are about folding, order and multiplicity, not about byte content",
        "where a new field is placed by set/set_all and which spelling a replaced field keeps are not constrained (the statement only protects untouched fields)",
        "equality is only judged between collections with identical spelling (case-sensitive vs -insensitive equality is left open by the statement)",
    ],
}

NAMES = ["A", "a", "B", b"a"]
VALUES = ["1", "2"]
VLISTS = [[], ["1"], ["2", "1"], ["1", "1", "2"]]
MAXLEN = 6


def fold(n):
    if isinstance(n, str):
        n = n.encode()
    return n.lower()


def b(x):
    return x.encode() if isinstance(x, str) else x


def n_(x):
    return x.decode() if isinstance(x, bytes) else x


def mutators(fields):
    acts = []
    for k in NAMES:
        for v in VALUES:
            acts.append(("set", k, v))
        acts.append(("del", k))
        acts.append(("pop", k))
        acts.append(("popd", k))
        acts.append(("setdefault", k, "2"))
        for vs in VLISTS:
            acts.append(("set_all", k, vs))
    if len(fields) < MAXLEN:
        for k in NAMES:
            for v in VALUES:
                acts.append(("add", k, v))
                for i in sorted({0, 1, len(fields)}):
                    acts.append(("insert", i, k, v))
        acts.append(("update2",))
    acts.append(("clear",))
    return acts


def others(fields, k):
    return [f for f in fields if fold(f[0]) != fold(k)]


def vals(fields, k):
    return [f[1] for f in fields if fold(f[0]) == fold(k)]


class Sys:
    def __init__(self):
        self.h = Headers()
        self.bad = []


class Spec:
    def build(self):
        return Sys()

    def clone(self, s):
        c = Sys()
        c.h = Headers(s.h.fields)
        return c

    def fingerprint(self, s):
        return [list(f) for f in s.h.fields]

    def actions(self, s):
        return [list(a) for a in mutators(s.h.fields)]

    def apply(self, s, a):
        h = s.h
        pre = list(h.fields)
        op = a[0]
        res = exc = None
        try:
            if op == "set":
                h[a[1]] = a[2]
            elif op == "del":
                del h[a[1]]
            elif op == "pop":
                res = h.pop(a[1])
            elif op == "popd":
                res = h.pop(a[1], "dflt")
            elif op == "setdefault":
                res = h.setdefault(a[1], a[2])
            elif op == "set_all":
                h.set_all(a[1], list(a[2]))
            elif op == "add":
                h.add(a[1], a[2])
            elif op == "insert":
                h.insert(a[1], a[2], a[3])
            elif op == "update2":
                h.update({"B": "2", "a": "1"})
            elif op == "clear":
                h.clear()
        except KeyError as e:
            exc = "KeyError"
        except Exception as e:  # any other exception is not multimap behaviour
            exc = type(e).__name__
        post = list(h.fields)
        for clause, ok, exp, obs in self.laws(op, a, pre, post, res, exc):
            if not ok:
                s.bad.append((clause, op, exp, obs))
            else:
                s.bad.append((clause, None, None, None))

    def laws(self, op, a, pre, post, res, exc):
        out = []

        def law(name, cond, exp=None, obs=None):
            out.append((name, bool(cond), exp, obs))

        law("fields_are_byte_pairs", all(isinstance(x, tuple) and len(x) == 2 and isinstance(x[0], bytes) and isinstance(x[1], bytes) for x in post), None, post)
        if op in ("set", "set_all"):
            k = a[1]
            want = [b(a[2])] if op == "set" else [b(x) for x in a[2]]
            law("set_no_exception", exc is None, None, exc)
            law("set_then_get_all", vals(post, k) == want, want, vals(post, k))
            law("set_untouched_preserved", others(post, k) == others(pre, k), others(pre, k), others(post, k))
        elif op in ("del", "pop", "popd"):
            k = a[1]
            present = bool(vals(pre, k))
            if present:
                law("del_removes_exactly_k", post == others(pre, k) and exc is None, others(pre, k), [post, exc])
                if op != "del":
                    law("pop_returns_folded", res == ", ".join(n_(x) for x in vals(pre, k)), vals(pre, k), res)
            else:
                law("del_absent_unchanged", post == pre, pre, post)
                if op == "popd":
                    law("pop_default", res == "dflt" and exc is None, "dflt", [res, exc])
                else:
                    law("del_absent_keyerror", exc == "KeyError", "KeyError", exc)
        elif op == "setdefault":
            k = a[1]
            if vals(pre, k):
                law("setdefault_present_noop", post == pre and res == ", ".join(n_(x) for x in vals(pre, k)), pre, [post, res])
            else:
                law("setdefault_absent_sets", others(post, k) == pre and vals(post, k) == [b(a[2])] and res == a[2], None, [post, res])
        elif op == "add":
            law("add_appends", post == pre + [(b(a[1]), b(a[2]))] and exc is None, None, post)
        elif op == "insert":
            i = a[1]
            law("insert_at_index", post == pre[:i] + [(b(a[2]), b(a[3]))] + pre[i:] and exc is None, None, post)
        elif op == "update2":
            law("update_sets_each", exc is None and vals(post, "B") == [b"2"] and vals(post, "a") == [b"1"]
                and others(others(post, "B"), "a") == others(others(pre, "B"), "a"), None, post)
        elif op == "clear":
            law("clear_empties", post == [] and exc is None, [], post)
        return out

    def check(self, s, hist, t: Tally):
        feats_cache = {}
        for clause, op, exp, obs in s.bad:
            if op is None:
                t.ok(clause)
            else:
                t.bad(clause, {"op": op}, list(hist), exp, obs)
        s.bad = []
        self.reads(s.h, hist, t)
        t.case(None, nontrivial=bool(hist) and bool(s.h.fields), key=self.fingerprint(s))
        if hist and len(t.samples) < 2 and len(hist) >= 3:
            t.samples.append({"history": list(hist), "fields": self.fingerprint(s)})

    def reads(self, h, hist, t: Tally):
        f = list(h.fields)
        case = list(hist)

        def J(clause, cond, exp=None, obs=None, op=None):
            t.judge(clause, cond, {"op": op or clause}, case, exp, obs)

        for k in NAMES:
            vs = vals(f, k)
            svs = [n_(x) for x in vs]
            try:
                got = h[k]
            except KeyError:
                got = KeyError
            J("get_folds_all_values", got == (", ".join(svs) if vs else KeyError), svs, repr(got), "get")
            J("get_all_in_order", h.get_all(k) == svs, svs, h.get_all(k), "get_all")
            J("contains", (k in h) == bool(vs), bool(vs), k in h, "in")
            J("get_default", h.get(k, "d") == (", ".join(svs) if vs else "d"), None, h.get(k, "d"), "get")
        firsts = []
        seen = set()
        for n, v in f:
            if fold(n) not in seen:
                seen.add(fold(n))
                firsts.append(n_(n))
        J("len_counts_distinct_names", len(h) == len(seen), len(seen), len(h), "len")
        J("iter_first_spellings_in_order", list(h) == firsts, firsts, list(h), "iter")
        J("keys_default", list(h.keys()) == firsts, firsts, list(h.keys()), "keys")
        J("keys_multi", list(h.keys(multi=True)) == [n_(n) for n, _ in f], None, list(h.keys(multi=True)), "keys")
        J("values_multi", list(h.values(multi=True)) == [n_(v) for _, v in f], None, list(h.values(multi=True)), "values")
        J("items_multi", list(h.items(multi=True)) == [(n_(n), n_(v)) for n, v in f], None, list(h.items(multi=True)), "items")
        J("items_default_consistent_with_lookup", list(h.items()) == [(k, h[k]) for k in firsts], None, list(h.items()), "items")
        J("fields_unchanged_by_reads", list(h.fields) == f, f, list(h.fields), "reads")
        c = h.copy()
        J("copy_equal", c == h and h == c and list(c.fields) == f, f, list(c.fields), "copy")
        c.add("B", "9")
        c["A"] = "9"
        J("copy_independent", list(h.fields) == f, f, list(h.fields), "copy")
        J("eq_detects_difference", not (c == h), None, None, "eq")
        J("eq_same_fields", Headers(f) == h, None, None, "eq")
        if f:
            rev = Headers(list(reversed(f)))
            J("eq_is_order_sensitive", (rev == h) == (list(rev.fields) == f), None, None, "eq")
        # serialisation of the current state (values here are always valid)
        J("bytes_block", bytes(h) == b"".join(n + b": " + v + b"\r\n" for n, v in f), None, bytes(h), "bytes")


# ---------------------------------------------------------------------------
# HTTP/1 round trip of valid field lists (engine E)

H1_NAMES = [b"A", b"a", b"B", b"X-Y_z.1", b"!#$%&'*+-.^_`|~"]
H1_VALUES = [b"", b"1", b"a b", b"a,b", b"a: b", b"\xe9", b"a\tb", b'"q"', b"x" * 300, b":", b"http://h/"]


def h1_cases(maxlen):
    pairs = [(n, v) for n in H1_NAMES for v in H1_VALUES]
    yield []
    for k in range(1, maxlen + 1):
        if k <= 2:
            for c in itertools.product(pairs, repeat=k):
                yield list(c)
        else:
            # third field: reduced pool (one name, three values) keeps the product finite and small
            small = [(n, v) for n in (b"a", b"B") for v in (b"", b"1", b"a: b")]
            for c in itertools.product(pairs, pairs, small):
                yield list(c)


def h1_one(fields, t: Tally):
    case = {"h1_fields": [[n, v] for n, v in fields]}
    feats = {"op": "h1_roundtrip"}
    h = Headers([(n, v) for n, v in fields])
    # through the real request assembler and the real reader, the way Http1Client/Http1Server do
    req = Request(host="h", port=80, method=b"GET", scheme=b"http", authority=b"", path=b"/",
                  http_version=b"HTTP/1.1", headers=h, content=b"", trailers=None,
                  timestamp_start=0, timestamp_end=0)
    raw = assemble.assemble_request_head(req)
    buf = ReceiveBuffer()
    buf += raw
    lines = buf.maybe_extract_lines()
    ok = lines is not None
    got = None
    if ok:
        try:
            got = read.read_request_head([bytes(x) for x in lines])
            ok = [tuple(x) for x in got.headers.fields] == [tuple(x) for x in fields]
        except Exception as e:
            ok = False
            got = repr(e)
    t.judge("h1_roundtrip_same_fields", ok, feats, case, fields, got.headers.fields if hasattr(got, "headers") else got)
    # header block alone
    try:
        blk = bytes(h)
        ls = blk.split(b"\r\n")[:-1] if blk else []
        back = read._read_headers(ls)
        ok2 = [tuple(x) for x in back.fields] == [tuple(x) for x in fields]
    except Exception as e:
        ok2 = False
        back = repr(e)
    t.judge("h1_block_roundtrip", ok2, feats, case, fields, getattr(back, "fields", back))
    t.case(case if len(fields) == 2 else None, nontrivial=len(fields) > 0, key=case)


def h1_chunk(chunk):
    t = Tally()
    for fields in chunk:
        h1_one(fields, t)
    return t


def run(ctx):
    global NAMES, VALUES, VLISTS
    depth = ctx.pick(4, 5)
    h1len = ctx.pick(2, 3)
    ctx.bounds = {"bfs_depth": depth, "max_fields": MAXLEN, "names": [repr(n) for n in NAMES], "values": VALUES,
                  "h1_max_fields": h1len, "h1_names": len(H1_NAMES), "h1_values": len(H1_VALUES)}
    spec = Spec()
    states, capped = explore.bfs(spec, depth, ctx.tally, log=ctx.log)
    # second scope: empty values (legal: `A: `) next to a non-empty one, fewer names, same depth
    NAMES, VALUES, VLISTS = ["A", "a", b"a"], ["", "1"], [[], [""], ["", "1"], ["1", ""]]
    ctx.bounds["second_scope"] = {"names": [repr(n) for n in NAMES], "values": VALUES, "bfs_depth": depth}
    states2, _ = explore.bfs(Spec(), depth, ctx.tally, log=ctx.log)
    NAMES, VALUES, VLISTS = ["A", "a", "B", b"a"], ["1", "2"], [[], ["1"], ["2", "1"], ["1", "1", "2"]]
    ctx.log("bfs done: %d states" % states)
    par.pmap_tally(h1_chunk, list(h1_cases(h1len)), ctx.tally)


def replay(case, t: Tally, verbose=False):
    if isinstance(case, dict) and "h1_fields" in case:
        h1_one([(n, v) for n, v in case["h1_fields"]], t)
        return
    spec = Spec()
    s = spec.build()
    spec.check(s, (), t)
    hist = []
    for a in case:
        spec.apply(s, a)
        hist.append(a)
        spec.check(s, tuple(map(tuple, [])) or hist, t)
        if verbose:
            print("  after", a, "->", list(s.h.fields))
