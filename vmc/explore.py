"""Engine X: explicit-state exploration of the *real* transition function.

Live objects (generators, coroutines, OpenSSL state) cannot be copied, so a state is
the action history that reaches it; expansion rebuilds a fresh system and replays
the prefix (or uses spec.clone when the system is plain data).

bfs(spec, depth, tally)   all action sequences up to `depth`, with fingerprint
                          de-duplication, level-synchronous and parallel
dfs_dev(spec, bound, tally)  all executions that deviate from the default choice
                          (index 0) at most `bound` times; every execution runs to
                          completion

Spec protocol for bfs:
    build() -> sys
    actions(sys) -> [action]      JSON-able, canonical simplest-first order
    apply(sys, action)            executes the action on the real code
    fingerprint(sys) -> JSON-able everything that can influence the future / the oracle
    check(sys, hist, tally)       invariants and step clauses, called after every transition
    final(sys, hist, tally)       (optional) called on states at the depth bound / without actions
    clone(sys) -> sys             (optional) cheap copy for plain-data systems

Spec protocol for dfs_dev:
    run(prefix, tally) -> (choices, widths, costs)
        replays `prefix` (raise HarnessError if a choice is out of range), then takes
        choice 0 everywhere; judges the execution into `tally`; returns the full choice
        list, the number of alternatives at every point and the deviation cost of
        taking a non-default alternative at that point (normally 1).
"""
from __future__ import annotations

from vmc import par
from vmc.tally import HarnessError, Tally, digest

_SPEC = None
_DEPTH = 0


def _replay(spec, hist):
    sys_ = spec.build()
    for a in hist:
        spec.apply(sys_, a)
    return sys_


def _expand(chunk):
    spec = _SPEC
    t = Tally()
    succ = []
    for hist, fp in chunk:
        sys_ = _replay(spec, hist)
        if fp is not None:
            got = digest(spec.fingerprint(sys_))
            if got != fp:
                raise HarnessError("nondeterministic replay of %r: fingerprint differs" % (hist,))
        acts = spec.actions(sys_)
        if len(hist) >= _DEPTH or not acts:
            if hasattr(spec, "final"):
                spec.final(sys_, hist, t)
            t.executions += 1
            t.max_depth = max(t.max_depth, len(hist))
            continue
        clone = getattr(spec, "clone", None)
        for i, a in enumerate(acts):
            if clone is not None:
                s2 = clone(sys_)
            elif i == len(acts) - 1:
                s2 = sys_  # last action may consume the system we already built
            else:
                s2 = _replay(spec, hist)
            spec.apply(s2, a)
            t.transitions += 1
            h2 = hist + (a,)
            spec.check(s2, h2, t)
            succ.append((digest(spec.fingerprint(s2)), h2))
    return t, succ


def bfs(spec, depth, tally: Tally, log=None, nproc=None, max_states=None):
    """returns (states, capped)"""
    global _SPEC, _DEPTH
    _SPEC, _DEPTH = spec, depth
    s0 = spec.build()
    fp0 = digest(spec.fingerprint(s0))
    # determinism self-test: build twice, fingerprints must agree
    if digest(spec.fingerprint(spec.build())) != fp0:
        raise HarnessError("initial state fingerprint is not deterministic")
    spec.check(s0, (), tally)
    seen = {fp0}
    frontier = [((), fp0)]
    level = 0
    capped = False
    while frontier:
        results = par.pmap(_expand, frontier, nproc=nproc if len(frontier) > 8 else 1)
        nxt = []
        for t, succ in results:
            tally.merge(t)
            for fp, h in succ:
                if fp not in seen:
                    seen.add(fp)
                    nxt.append((h, fp))
        level += 1
        if log:
            log("bfs level %d: frontier %d -> %d new states (total %d)" % (level, len(frontier), len(nxt), len(seen)))
        if max_states and len(seen) > max_states:
            capped = True
            # still evaluate final() on what we have, then stop
            _DEPTH = 0
            for t, _ in par.pmap(_expand, nxt, nproc=nproc):
                tally.merge(t)
            break
        frontier = nxt
    tally.states += len(seen)
    _SPEC = None
    return len(seen), capped


# ---------------------------------------------------------------------------


def _dev_subtree(chunk):
    spec = _SPEC
    t = Tally()
    for prefix, used in chunk:
        _dev_rec(spec, prefix, used, _DEPTH, t)
    return t


def _dev_rec(spec, prefix, used, bound, t: Tally):
    choices, widths, costs = spec.run(tuple(prefix), t)
    t.executions += 1
    t.max_depth = max(t.max_depth, len(choices))
    if tuple(choices[: len(prefix)]) != tuple(prefix):
        raise HarnessError("replayed prefix %r diverged: %r" % (prefix, choices))
    for i in range(len(prefix), len(choices)):
        c = costs[i] if costs else 1
        if used + c > bound:
            continue
        for alt in range(1, widths[i]):
            t.transitions += 1
            _dev_rec(spec, tuple(choices[:i]) + (alt,), used + c, bound, t)


def dfs_dev(spec, bound, tally: Tally, log=None, nproc=None):
    """explore every execution with at most `bound` deviations from the default schedule"""
    global _SPEC, _DEPTH
    _SPEC, _DEPTH = spec, bound
    t0 = Tally()
    c1, w1, k1 = spec.run((), t0)
    c2, w2, k2 = spec.run((), Tally())
    if (list(c1), list(w1)) != (list(c2), list(w2)):
        raise HarnessError("default execution is not deterministic")
    tally.merge(t0)
    tally.executions += 1
    tally.max_depth = max(tally.max_depth, len(c1))
    tasks = []
    for i in range(len(c1)):
        c = k1[i] if k1 else 1
        if c > bound:
            continue
        for alt in range(1, w1[i]):
            tasks.append((tuple(c1[:i]) + (alt,), c))
    tally.transitions += len(tasks)
    if log:
        log("dfs_dev: default execution has %d points, %d first-level deviations, bound %d" % (len(c1), len(tasks), bound))
    par.pmap_tally(_dev_subtree, tasks, tally, nproc=nproc)
    _SPEC = None
    return tally
