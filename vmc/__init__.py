"""vmc - bounded-exhaustive model checking of mitmproxy on the real code."""
import os
import sys

# A mutant / scratch copy of the repository can be checked by pointing VERIF_REPO
# at it; by default /venv's editable install resolves `mitmproxy` to /repo.
_repo = os.environ.get("VERIF_REPO")
if _repo:
    sys.path.insert(0, _repo)
