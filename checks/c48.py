"""C48 - exported curl / httpie / raw commands reproduce the request and are shell-safe.

Engine E: every word of a request grammar (one field deviating at a time over a
token set of shell metacharacters, quotes, control characters, percent signs and
backslashes; pairs of header value x body; special method/body shapes; binary
bodies; export_preserve_original_ip off/on) is exported with the real
`export.curl_command / httpie_command / raw_request`.  Each exported string is run
by `bash -c` in a sandbox whose PATH holds only stub `curl` / `http` programs that
write their argv NUL-separated (and stdin) to a file.  Every other attempt to start
something is seen three ways: a `command_not_found_handle`, a DEBUG trap (functrace,
so command substitutions are traced too) logging every simple command, and the
listing of the working directory (redirections).  The recorded argv is then read
with the documented meaning of curl's / httpie's arguments and compared with the
request; the raw export is read back with the independent RFC 9112 reader.
"""
from __future__ import annotations

import gzip
import os
import re
import shutil
import subprocess

from mitmproxy import exceptions
from mitmproxy import http
from mitmproxy.addons import export
from mitmproxy.test import taddons
from mitmproxy.test import tflow

from vmc import par
from vmc.refs import http1ref
from vmc.tally import Tally

META = {
    "level": "exploration",
    "technique": "bounded-exhaustive enumeration of a request grammar; every exported command is executed by bash against stub curl/http programs and the recorded argv is decoded with the documented argument semantics; raw export read back by an independent RFC 9112 reader",
    "claim": "for every request of the grammar the exported curl/httpie command starts exactly one process (the tool), its argv decodes to the request's method, URL and header list and (curl, valid-text bodies) the body; the raw export of wire-representable requests parses back to the same request",
    "rule": "a case is one request (method, path, header list, body bytes) x export_preserve_original_ip; distinct = distinct request + option; non-trivial = at least one export produced a command that was executed by bash and reached a stub (argv recorded)",
    "assumptions": [
        "the POSIX shell is bash 5 (`bash -c`, non-interactive); dash is not run (its printf has no \\x escapes, the httpie export uses the bash here-string)",
        "curl's reading of argv is the documented one: -H 'k: v' adds a header, -H 'k:' (no content after the colon) removes one, -H 'k;' sends an empty one, -H/-d arguments starting with @ are file references, a URL containing []{} is globbed (no -g is given), -X sets the method, otherwise GET or POST with -d; headers curl adds by itself (User-Agent, Accept, Content-Type for -d) are not judged because the statement speaks about what the arguments encode",
        "httpie's reading is `http METHOD URL ITEM...` with the documented request-item separators (earliest separator wins, backslash escapes a separator in the key); httpie's method-guessing heuristic and its handling of stdin are not modelled; the body sent by httpie is not judged (the statement does not demand it)",
        "header values are compared modulo surrounding whitespace (not part of a field value); content-length, a Host header equal to the request host and accept-encoding (--compressed) are encoded implicitly and are not compared",
        "body equality is judged on text (argv decoded as UTF-8 equals the request text); the charset of the bytes curl would send is not judged",
        "raw_parses_back is only judged for requests that HTTP/1 can carry (token method and field names, no CTL/SP in the target, no CR/LF/NUL or surrounding whitespace in values)",
        "absolute-path program starts are seen only through the DEBUG trace (no syscall tracing)",
    ],
}

BASH = "/bin/bash"

# ---------------------------------------------------------------------------
# token set

TOKENS = [
    ("a", b"a", "plain"),
    ("sp", b" ", "ws"),
    ("sq", b"'", "quote"),
    ("dq", b'"', "quote"),
    ("bt", b"`", "subst"),
    ("sub", b"$(id)", "subst"),
    ("btsub", b"`id`", "subst"),
    ("var", b"$HOME", "subst"),
    ("semi", b";", "sep"),
    ("amp", b"&", "sep"),
    ("pipe", b"|", "sep"),
    ("gt", b">f", "sep"),
    ("bs", b"\\", "bslash"),
    ("bsx", b"\\x41", "bslash"),
    ("bsn", b"\\n", "bslash"),
    ("pcts", b"%s", "pct"),
    ("pct", b"%", "pct"),
    ("pct2", b"%%", "pct"),
    ("bang", b"!", "glob"),
    ("star", b"*", "glob"),
    ("tilde", b"~", "glob"),
    ("hash", b"#", "glob"),
    ("brace", b"{a,b}", "curlglob"),
    ("brack", b"[1-2]", "curlglob"),
    ("eq", b"=", "itemsep"),
    ("at", b"@", "at"),
    ("dash", b"-", "dash"),
    ("tab", b"\t", "ctl"),
    ("lf", b"\n", "lf"),
    ("cr", b"\r", "ctl"),
    ("esc", b"\x1b", "ctl"),
    ("del", b"\x7f", "plain"),
    ("eacute", "é".encode(), "nonascii"),
]
TOK = {n: (b, c) for n, b, c in TOKENS}
NAMES = [n for n, _, _ in TOKENS]
REDUCED = ["a", "sq", "dq", "lf", "pct", "bs", "sub", "at"]
REDUCED3 = ["a", "sq", "dq", "lf", "pct", "bs", "sub", "at", "sp", "esc", "semi", "bsx", "dash"]
FIELDS = ["body", "hvalue", "hname", "path", "query", "method", "hosthdr"]

HOST = b"example.com"
BASE_URL = b"http://example.com"
CT_UTF8 = (b"content-type", b"text/plain; charset=utf-8")


def seqs(names, maxlen):
    out = [(n,) for n in names]
    if maxlen >= 2:
        out += [(a, b) for a in names for b in names]
    if maxlen >= 3:
        out += [(a, b, c) for a in names for b in names for c in names]
    return out


def word(seq):
    return b"".join(TOK[n][0] for n in seq)


def classes(seq):
    return "+".join(sorted({TOK[n][1] for n in seq}))


# ---------------------------------------------------------------------------
# cases

def mk(field, cls, method=b"GET", path=b"/p", headers=(), content=b"", opt=False, peer=None):
    return {"field": field, "cls": cls, "method": method, "path": path,
            "headers": [[n, v] for n, v in headers], "content": content, "opt": opt, "peer": peer}


def field_case(field, seq):
    w = word(seq)
    c = classes(seq)
    if field == "path":
        return mk(field, c, path=b"/" + w)
    if field == "query":
        return mk(field, c, path=b"/p?q=" + w)
    if field == "hname":
        return mk(field, c, headers=[(w, b"v")])
    if field == "hvalue":
        return mk(field, c, headers=[(b"X-T", w)])
    if field == "body":
        return mk(field, c, method=b"POST", headers=[CT_UTF8], content=w)
    if field == "method":
        return mk(field, c, method=w)
    if field == "hosthdr":
        return mk(field, c, headers=[(b"Host", w)])
    raise AssertionError(field)


def pair_case(hseq, bseq):
    return mk("hvalue+body", classes(hseq + bseq), method=b"POST",
              headers=[(b"X-T", word(hseq)), CT_UTF8], content=word(bseq))


def special_cases():
    out = []
    for m in (b"GET", b"POST", b"X-Y", b"HEAD", b"PUT"):
        out.append(mk("shape", "nobody", method=m))
        out.append(mk("shape", "textbody", method=m, headers=[CT_UTF8], content=b"b=1"))
        out.append(mk("shape", "ctlbody", method=m, headers=[CT_UTF8], content=b"a\nb"))
    # header list shapes the exporter treats specially
    out.append(mk("shape", "empty-value", headers=[(b"X-E", b"")]))
    out.append(mk("shape", "empty-value", headers=[(b"X-E", b" ")]))
    out.append(mk("shape", "host-same", headers=[(b"Host", HOST), (b"X-T", b"v")]))
    out.append(mk("shape", "host-other", headers=[(b"Host", b"other.example:8080"), (b"X-T", b"v")]))
    out.append(mk("shape", "authority-same", headers=[(b":authority", HOST)]))
    out.append(mk("shape", "accept-encoding", headers=[(b"Accept-Encoding", b"gzip"), (b"X-T", b"v")]))
    out.append(mk("shape", "content-length", method=b"POST", headers=[(b"Content-Length", b"3"), CT_UTF8], content=b"abc"))
    out.append(mk("shape", "dup-headers", headers=[(b"X-T", b"1"), (b"x-t", b"2"), (b"X-T", b"1")]))
    out.append(mk("shape", "many-headers", headers=[(b"A", b"1"), (b"B", b"$(id)"), (b"C", b"'"), (b"D", b"x y")]))
    out.append(mk("shape", "gzip-body", method=b"POST", headers=[(b"Content-Encoding", b"gzip"), CT_UTF8, (b"Content-Length", b"99")],
                  content=gzip.compress(b"hello 'world'", mtime=0)))
    out.append(mk("shape", "bad-gzip-body", method=b"POST", headers=[(b"Content-Encoding", b"gzip"), CT_UTF8], content=b"not gzip"))
    out.append(mk("shape", "chunked", method=b"POST", headers=[(b"Transfer-Encoding", b"chunked"), CT_UTF8], content=b"abc"))
    out.append(mk("shape", "multipart-body", method=b"POST", headers=[(b"content-type", b"multipart/form-data; boundary=b; charset=utf-8")],
                  content=b'--b\r\nContent-Disposition: form-data; name="k"\r\n\r\nv\r\n--b--'))
    out.append(mk("shape", "asterisk", method=b"OPTIONS", path=b"*"))
    out.append(mk("shape", "query-empty-brackets", path=b"/p?a[]=1&a[]=2"))
    out.append(mk("shape", "query-brackets", path=b"/p?a[k]=1"))
    out.append(mk("shape", "query-braces", path=b"/p?q={\"k\":1}"))
    out.append(mk("shape", "long-body", method=b"POST", headers=[CT_UTF8], content=b"x'y " * 2000))
    # bodies that are / are not valid text
    for ct in (None, CT_UTF8, (b"content-type", b"application/json"), (b"content-type", b"text/plain; charset=latin-1")):
        for body in (b"\x00", b"a\x00b", b"\xff", b"\xe9t\xe9", "€".encode(), b"\x89PNG\r\n\x1a\n", b"\x80\x9b", b"\xef\xbb\xbf", b"\xef\xbb\xbfhi",
                     b"\xff\xfea\x00", b"50% off\n", b"line\n", b"line\n\n", b"\n", b"@file", b"a\\tb\n", b"{\"k\": \"v\\n\"}\n"):
            out.append(mk("binbody", "ct-" + (ct[1].decode().split("/")[-1][:12] if ct else "none"), method=b"POST",
                          headers=[ct] if ct else [], content=body))
    # relation of the Host header to request.host (= example.com): equal, with port, an extension of it, a prefix of it,
    # other spelling, different, absent - the argv must still encode the request's Host (header kept, or carried by the URL)
    for rel, value in (("equal", HOST), ("port-default", HOST + b":80"), ("port-other", HOST + b":8080"),
                       ("extension-label", HOST + b".evil.org"), ("extension-chars", HOST + b"munity"), ("extension-digit", HOST + b"0"),
                       ("prefix", HOST[:-1]), ("subdomain", b"www." + HOST),
                       ("upper", HOST.upper()), ("trailing-dot", HOST + b"."), ("different", b"other.test"), ("absent", None)):
        for opt in (False, True):
            for peer in (None, "192.0.2.7"):
                hdrs = [(b"X-T", b"v")] + ([(b"Host", value)] if value is not None else [])
                out.append(mk("hostrel", rel, headers=hdrs, opt=opt, peer=peer))
                if not opt and peer is None:
                    out.append(mk("hostrel", rel, method=b"POST", headers=hdrs + [CT_UTF8], content=b"b=1", opt=opt, peer=peer))
    # export_preserve_original_ip
    for opt in (False, True):
        for peer in (None, "192.0.2.7", "2001:db8::1", "example.com"):
            for hdrs in ([], [(b"Host", b"$(id).example")]):
                out.append(mk("resolve", "opt-%s" % opt, headers=hdrs, opt=opt, peer=peer))
                out.append(mk("resolve", "opt-%s" % opt, method=b"POST", headers=hdrs + [CT_UTF8], content=b"a'\nb", opt=opt, peer=peer))
    return out


def all_cases(tier):
    thorough = tier == "thorough"
    out = special_cases()
    if not thorough:  # quick: body-validity matrix only for no content-type and charset=utf-8
        out = [c for c in out if c["field"] != "binbody" or c["cls"] in ("ct-none", "ct-plain; chars")]
    for field in FIELDS:
        # method: a bare word argument (`-X *`) is where a weaker quoting rule shows (glob, tilde, comment)
        for s in seqs(NAMES if thorough or field in ("body", "hvalue", "hname", "path", "method") else REDUCED3, 1):
            out.append(field_case(field, s))
    for field in ("body", "hvalue"):
        for s in seqs(NAMES if thorough else (REDUCED3 if field == "body" else REDUCED), 2):
            if len(s) == 2:
                out.append(field_case(field, s))
    if thorough:
        for field in ("path", "query", "hname"):
            for s in seqs(REDUCED3, 2):
                if len(s) == 2:
                    out.append(field_case(field, s))
        for s in seqs(REDUCED, 3):
            if len(s) == 3:
                out.append(field_case("body", s))
    for a in (NAMES if thorough else REDUCED):
        for b in (NAMES if thorough else REDUCED3):
            out.append(pair_case((a,), (b,)))
    return out


# ---------------------------------------------------------------------------
# the request as the check understands it (independent of export.py)

TOKEN_RE = re.compile(rb"[!#$%&'*+\-.^_`|~0-9A-Za-z]+\Z")
OWS = b" \t"
WS = b" \t\r\n\x0b\x0c"
# curl globs {..} sets and [..] ranges in URLs unless -g is given (a literal "[]" is passed through)
CURL_GLOB = re.compile(rb"[{}]|\[(?!\])")


def expected_text(case):
    """(is_valid_text, text) of the decoded body with the charset the check itself chose; None if undecided"""
    body = decoded_body(case)
    ct = b""
    for n, v in case["headers"]:
        if n.lower() == b"content-type":
            ct = v
            break
    if body.startswith((b"\xef\xbb\xbf", b"\xff\xfe", b"\xfe\xff", b"\x00\x00\xfe\xff")):
        return None  # BOM sniffing: not decided by this reference
    if b"charset=utf-8" in ct or b"json" in ct:
        enc = "utf-8"
    elif b"charset=latin-1" in ct or not ct:
        enc = "latin-1"
    else:
        return None
    try:
        return (True, body.decode(enc))
    except UnicodeDecodeError:
        return (False, None)


def decoded_body(case):
    body = case["content"]
    for n, v in case["headers"]:
        if n.lower() == b"content-encoding" and v == b"gzip":
            try:
                return gzip.decompress(body)
            except Exception:
                return body
    return body


def expected_headers(case, keep_ae=False):
    """header list the arguments must encode: redundant ones (content-length, Host equal to the request host,
    accept-encoding -> --compressed) are implied, content-encoding disappears with a decodable non-empty body"""
    out = []
    compressed = False
    for n, v in case["headers"]:
        ln = n.lower()
        if ln == b"content-length":
            continue
        if ln in (b"host", b":authority") and v == HOST:
            continue
        if ln == b"accept-encoding" and not keep_ae:
            compressed = True
            continue
        if ln == b"content-encoding" and case["content"]:
            continue
        out.append((n, v.strip(WS)))
    return out, compressed


def expected_urls(case):
    path = b"" if case["path"] == b"*" else case["path"]
    urls = {BASE_URL + path}
    for n, v in case["headers"]:
        if n.lower() == b"host" and v:
            urls.add(b"http://" + v + path)
            # the exporter may normalise host:port from the header
            m = re.match(rb"^(.*):(\d+)$", v)
            if m and m.group(2) == b"80":
                urls.add(b"http://" + m.group(1) + path)
            if v.startswith(b"[") and v.endswith(b"]"):  # an address literal may be re-bracketed
                urls.add(b"http://" + v[1:-1] + path)
    return urls


def flags(case):
    """boolean trigger features computed from the request alone"""
    f = {}
    vt = expected_text(case)
    body = decoded_body(case)
    if case["content"]:
        text = vt[1] if vt and vt[0] else None
        if text is not None:
            printf = any(ord(ch) < 32 for ch in text)
            if printf:
                f["printf"] = True
                if "%" in text:
                    f["b_pct"] = True
                if "\\" in text:
                    f["b_bslash"] = True
                if text.endswith("\n"):
                    f["b_trail_lf"] = True
                if "\x00" in text:
                    f["b_nul"] = True
                if text.startswith("-"):
                    f["b_dash"] = True
            if text.startswith("@"):
                f["b_at"] = True
        if case["method"] == b"GET":
            f["get_with_body"] = True
        if vt is None and body in (b"\xef\xbb\xbf",):
            f["bom_only"] = True
    hdrs, _ = expected_headers(case)
    if any(v == b"" for _, v in hdrs):
        f["h_empty"] = True
    if any(n.startswith(b"@") for n, _ in hdrs):
        f["h_at"] = True
    if any(re.search(rb"[=@;:\\]", n) for n, _ in hdrs):
        f["hn_sep"] = True
    if any(CURL_GLOB.search(u) for u in expected_urls(case)):
        f["url_glob"] = True
    return f


def up(b: bytes) -> str:
    """methods are compared the way the Request API presents them (text, upper-cased)"""
    return b.decode("utf-8", "surrogateescape").upper()


def wire_representable(case):
    if not TOKEN_RE.match(case["method"]):
        return False
    p = case["path"]
    if not (p == b"*" or p.startswith(b"/")) or re.search(rb"[\x00-\x20\x7f]", p):
        return False
    for n, v in case["headers"]:
        if not TOKEN_RE.match(n):
            return False
        if re.search(rb"[\r\n\x00]", v) or v != v.strip(OWS):
            return False
    return True


# ---------------------------------------------------------------------------
# sandbox

STUB = r"""#!/bin/bash -p
n=0; while [ -e "$VMC_OUT.$n.argv" ]; do n=$((n+1)); done
printf '%s\0' "$0" "$@" > "$VMC_OUT.$n.argv"
{ while IFS= read -r -d '' c; do printf '%s\0' "$c"; done; printf '%s' "$c"; } > "$VMC_OUT.$n.stdin"
exit 0
"""
ENVSH = r"""command_not_found_handle() { printf '%s\0' "$@" >> "$VMC_OUT.cnf"; printf '\n' >> "$VMC_OUT.cnf"; return 127; }
set -T
trap 'printf "%s\0" "$BASH_COMMAND" >> "$VMC_OUT.dbg"' DEBUG
"""
_SB = {"root": None, "owner": None, "wdir": None, "wpid": None}


def sb_create():
    root = "/dev/shm/vmc-%d" % os.getpid()
    shutil.rmtree(root, ignore_errors=True)
    os.makedirs(root + "/bin")
    os.makedirs(root + "/home")
    for name in ("curl", "http"):
        with open(root + "/bin/" + name, "w") as f:
            f.write(STUB)
        os.chmod(root + "/bin/" + name, 0o755)
    with open(root + "/env.sh", "w") as f:
        f.write(ENVSH)
    _SB.update(root=root, owner=os.getpid(), wdir=None, wpid=None)
    return root


def sb_remove():
    if _SB["root"] and _SB["owner"] == os.getpid():
        shutil.rmtree(_SB["root"], ignore_errors=True)
        _SB.update(root=None, owner=None, wdir=None, wpid=None)


def sb_wdir():
    if _SB["root"] is None:
        raise RuntimeError("sandbox not created")
    if _SB["wpid"] != os.getpid():
        wd = "%s/w%d" % (_SB["root"], os.getpid())
        shutil.rmtree(wd, ignore_errors=True)
        os.makedirs(wd + "/cwd")
        with open(wd + "/cwd/zz", "w"):
            pass
        _SB.update(wdir=wd, wpid=os.getpid())
    return _SB["wdir"]


def run_shell(cmd: bytes):
    """run one exported command string with bash -c in the sandbox; returns what was observed"""
    wd = sb_wdir()
    for fn in os.listdir(wd):
        if fn.startswith("out."):
            os.unlink(wd + "/" + fn)
    root = _SB["root"]
    env = {"PATH": root + "/bin", "HOME": root + "/home", "BASH_ENV": root + "/env.sh", "VMC_OUT": wd + "/out", "LC_ALL": "C.UTF-8"}
    res = {"rc": None, "stderr": b"", "stdout": b"", "runs": [], "cnf": [], "dbg": [], "files": []}
    try:
        p = subprocess.run([BASH, "-c", cmd], env=env, cwd=wd + "/cwd", stdin=subprocess.DEVNULL,
                           stdout=subprocess.PIPE, stderr=subprocess.PIPE, timeout=120)
        res["rc"], res["stderr"], res["stdout"] = p.returncode, p.stderr[:300], p.stdout[:300]
    except subprocess.TimeoutExpired:
        res["rc"] = "timeout"
    except ValueError as e:  # NUL inside the command string: no shell can be handed this command
        res["rc"] = "unrunnable: %s" % e
    n = 0
    while os.path.exists("%s/out.%d.argv" % (wd, n)):
        with open("%s/out.%d.argv" % (wd, n), "rb") as f:
            argv = f.read().split(b"\0")[:-1]
        try:
            with open("%s/out.%d.stdin" % (wd, n), "rb") as f:
                sin = f.read()
        except OSError:
            sin = None
        res["runs"].append((argv, sin))
        n += 1
    if os.path.exists(wd + "/out.cnf"):
        with open(wd + "/out.cnf", "rb") as f:
            res["cnf"] = [x.rstrip(b"\0").split(b"\0") for x in f.read().split(b"\0\n") if x]
    if os.path.exists(wd + "/out.dbg"):
        with open(wd + "/out.dbg", "rb") as f:
            res["dbg"] = f.read().split(b"\0")[:-1]
    for fn in sorted(os.listdir(wd + "/cwd")):
        if fn != "zz":
            res["files"].append(fn)
            pth = wd + "/cwd/" + fn
            shutil.rmtree(pth) if os.path.isdir(pth) else os.unlink(pth)
    return res


def foreign_activity(tool: bytes, res):
    """everything the shell did besides starting `tool` once (and the printf builtin the exporter itself uses)"""
    bad = []
    for argv, _ in res["runs"]:
        if os.path.basename(argv[0]) != tool:
            bad.append(["ran", argv[0]])
    if len(res["runs"]) > 1:
        bad.append(["tool started", len(res["runs"])])
    for c in res["cnf"]:
        bad.append(["tried to run", c])
    ntool = 0
    for d in res["dbg"]:
        w = d.split(None, 1)[0] if d.strip() else b""
        if w == tool:
            ntool += 1
            if ntool > 1:
                bad.append(["command", d[:80]])
        elif w != b"printf":
            bad.append(["command", d[:80]])
    for fn in res["files"]:
        bad.append(["created file", fn])
    if res["stdout"]:
        bad.append(["stdout", res["stdout"][:80]])
    return bad


# ---------------------------------------------------------------------------
# documented readings of the tools' argv

def curl_read(args):
    r = {"headers": [], "removed": [], "method": None, "urls": [], "data": [], "compressed": False, "resolve": [], "bad": []}
    i = 0
    while i < len(args):
        a = args[i]
        if a in (b"-H", b"--header", b"-X", b"--request", b"-d", b"--data", b"--resolve"):
            if i + 1 >= len(args):
                r["bad"].append("option %r without parameter" % a)
                break
            v = args[i + 1]
            i += 2
            if a in (b"-H", b"--header"):
                if v.startswith(b"@"):
                    r["bad"].append("-H argument is a file reference")
                    continue
                k = v.find(b":")
                if k < 0:
                    if v.endswith(b";"):
                        r["headers"].append((v[:-1], b""))
                    else:
                        r["bad"].append("-H argument without colon")
                    continue
                name, val = v[:k], v[k + 1:].strip(WS)
                if val == b"":
                    r["removed"].append(name)
                else:
                    r["headers"].append((name, val))
            elif a in (b"-X", b"--request"):
                r["method"] = v
            elif a in (b"-d", b"--data"):
                if v.startswith(b"@"):
                    r["bad"].append("-d argument is a file reference")
                r["data"].append(v)
            else:
                r["resolve"].append(v)
        elif a == b"--compressed":
            r["compressed"] = True
            i += 1
        elif a.startswith(b"-") and len(a) > 1:
            r["bad"].append("unknown option %r" % a[:40])
            i += 1
        else:
            if CURL_GLOB.search(a):
                r["bad"].append("URL is globbed ([]{} without -g)")
            r["urls"].append(a)
            i += 1
    r["eff_method"] = r["method"] if r["method"] is not None else (b"POST" if r["data"] else b"GET")
    return r


HTTPIE_SEPS = [b":=@", b":=", b"==", b"=@", b":@", b":", b"=", b"@", b";"]
HTTPIE_SPECIAL = b":=@;"


def httpie_item(item):
    """(separator, key, value) by the documented request-item syntax: earliest separator, longest at that position,
    a backslash in front of a separator character escapes it"""
    key = b""
    i = 0
    while i < len(item):
        ch = item[i:i + 1]
        if ch == b"\\" and i + 1 < len(item) and item[i + 1:i + 2] in [HTTPIE_SPECIAL[j:j + 1] for j in range(len(HTTPIE_SPECIAL))]:
            key += item[i + 1:i + 2]
            i += 2
            continue
        for s in HTTPIE_SEPS:
            if item.startswith(s, i):
                return s, key, item[i + len(s):]
        key += ch
        i += 1
    return None, key, b""


def httpie_read(args):
    r = {"method": None, "url": None, "headers": [], "bad": []}
    if len(args) < 2:
        r["bad"].append("fewer than METHOD URL")
        return r
    r["method"], r["url"] = args[0], args[1]
    for it in args[2:]:
        sep, k, v = httpie_item(it)
        if sep == b":":
            r["headers"].append((k, v.strip(WS)))
        elif sep == b";" and v == b"":
            r["headers"].append((k, b""))
        else:
            r["bad"].append("item %r is not a header (separator %r)" % (it[:40], sep))
    return r


# ---------------------------------------------------------------------------
# one case

def build_flow(case):
    f = tflow.tflow()
    f.request = http.Request(
        host=HOST.decode(), port=80, method=case["method"], scheme=b"http", authority=b"", path=case["path"],
        http_version=b"HTTP/1.1", headers=http.Headers([(bytes(n), bytes(v)) for n, v in case["headers"]]),
        content=case["content"], trailers=None, timestamp_start=0, timestamp_end=0)
    f.response = None
    f.server_conn.peername = (case["peer"], 80) if case["peer"] else None
    return f


_CTX = {}


def options_ctx(opt):
    if _CTX.get("pid") != os.getpid():
        ex = export.Export()
        tctx = taddons.context(ex)
        _CTX.update(pid=os.getpid(), ex=ex, tctx=tctx)
    _CTX["tctx"].configure(_CTX["ex"], export_preserve_original_ip=bool(opt))


def export_cmd(fn, case):
    """-> ("ok", bytes) | ("refused", msg) | ("raised", repr)"""
    try:
        out = fn(build_flow(case))
    except exceptions.CommandError as e:
        return "refused", str(e)
    except KeyboardInterrupt:
        raise
    except BaseException as e:
        return "raised", "%s: %s" % (type(e).__name__, e)
    if isinstance(out, str):
        out = out.encode("utf-8", "surrogateescape")  # what export.file writes
    return "ok", out


def _norm(b: bytes) -> bytes:
    return b.replace(b"\x00", b"").rstrip(b"\n")


def judge_body(t: Tally, feats, case, want, got, body_problem):
    """Exact body equality, split into three sub-clauses that are judged in sequence so that each defect class is
    reported (and matched by a finding) on its own; together they are equivalent to `got == want`:
      curl_body_exact_modulo_lf_nul   equal after dropping NUL bytes and trailing newlines on both sides
      curl_body_trailing_newlines     (only if the first holds) equal after dropping NUL bytes
      curl_body_nul_bytes             (only if both hold) equal
    The trigger flags that belong to a later sub-clause are left out of the features of an earlier one."""
    f1 = {k: v for k, v in feats.items() if k not in ("b_trail_lf", "b_nul")}
    shape_ok = len(got) == len(want) and not body_problem
    ok1 = shape_ok and all(_norm(g) == _norm(w) for g, w in zip(got, want))
    t.judge("curl_body_exact_modulo_lf_nul", ok1, f1, case, [_norm(w) for w in want], [got, body_problem])
    if not ok1:
        return
    f2 = {k: v for k, v in feats.items() if k != "b_nul"}
    ok2 = all(g.replace(b"\x00", b"") == w.replace(b"\x00", b"") for g, w in zip(got, want))
    t.judge("curl_body_trailing_newlines", ok2, f2, case, want, got)
    if not ok2:
        return
    t.judge("curl_body_nul_bytes", got == want, feats, case, want, got)


def one(case, t: Tally, verbose=False):
    options_ctx(case["opt"])
    fl = flags(case)
    base = {"field": case["field"], "cls": case["cls"]}
    base.update(fl)
    vt = expected_text(case)
    exp_h, exp_comp = expected_headers(case)
    urls = expected_urls(case)
    reached = False

    # ---- curl
    feats = dict(base, tool="curl")
    kind, cmd = export_cmd(export.curl_command, case)
    if verbose:
        print("  curl export:", kind, cmd)
    valid_text = not case["content"] or (vt is not None and vt[0])
    if kind == "raised":
        t.bad("curl_export_total", feats, case, "a command, or CommandError for a body that is not valid text", cmd)
    elif kind == "refused":
        # allowed only when the body is not valid text
        t.judge("curl_export_total", not valid_text or vt is None, feats, case, "a command (the body is valid text)", cmd)
        t.outcome(("curl", "refused"))
    else:
        t.ok("curl_export_total")
        res = run_shell(cmd)
        t.add("bash_runs")
        if fl.get("printf"):
            t.add("printf_path_cases")
        if verbose:
            print("  bash:", res)
        other = foreign_activity(b"curl", res)
        t.judge("curl_only_curl_runs", not other, feats, case, "exactly one process: curl", other)
        if len(res["runs"]) >= 1 and os.path.basename(res["runs"][0][0][0]) == b"curl":
            reached = True
            r = curl_read(res["runs"][0][0][1:])
            problems = list(r["bad"])
            if up(r["eff_method"]) != up(case["method"]):  # Request.method is upper-cased by the API
                problems.append(["method", r["eff_method"]])
            if len(r["urls"]) != 1 or r["urls"][0] not in urls:
                problems.append(["url", r["urls"]])
            got_h = [(n, v) for n, v in r["headers"] if n.lower() != b"content-length"]
            if got_h != exp_h:
                problems.append(["headers", got_h, "removed", r["removed"]])
            elif [n for n in r["removed"] if n.lower() != b"content-length"]:
                problems.append(["removes headers", r["removed"]])
            if r["compressed"] != exp_comp:
                problems.append(["--compressed", r["compressed"]])
            want_res = []
            if case["opt"] and case["peer"] and case["peer"].encode() != HOST and not any(n.lower() == b"host" for n, _ in case["headers"]):
                want_res = [HOST + b":80:[" + case["peer"].encode() + b"]"]
                if r["resolve"] == [HOST + b":80:" + case["peer"].encode()]:
                    want_res = r["resolve"]
            if any(n.lower() == b"host" for n, _ in case["headers"]) and case["opt"] and case["peer"]:
                # pretty_host comes from the Host header: only demand the shape host:port:[addr]
                ok_res = len(r["resolve"]) == 1 and r["resolve"][0].endswith(b":80:[" + case["peer"].encode() + b"]")
            elif not case["opt"]:
                ok_res = r["resolve"] == []
            else:
                ok_res = r["resolve"] == want_res
            if not ok_res:
                problems.append(["--resolve", r["resolve"]])
            body_problem = [p for p in problems if isinstance(p, str) and p.startswith("-d ")]
            problems = [p for p in problems if p not in body_problem]
            t.judge("curl_argv_encodes_request", not problems, feats, case,
                    {"method": case["method"], "url": sorted(urls), "headers": exp_h}, problems)
            if vt is not None and vt[0]:
                want = [vt[1].encode("utf-8")] if case["content"] else []
                judge_body(t, feats, case, want, r["data"], body_problem)
            t.outcome(("curl", bool(other), bool(problems), r["eff_method"], len(r["headers"]), len(r["data"])))
        else:
            t.bad("curl_argv_encodes_request", feats, case, "curl started once", {"rc": res["rc"], "stderr": res["stderr"], "runs": len(res["runs"])})
            t.outcome(("curl", "not-started", res["rc"]))

    # ---- httpie
    feats = dict(base, tool="httpie")
    kind, cmd = export_cmd(export.httpie_command, case)
    if verbose:
        print("  httpie export:", kind, cmd)
    if kind == "raised":
        t.bad("httpie_export_total", feats, case, "a command, or CommandError for a body that is not valid text", cmd)
    elif kind == "refused":
        t.judge("httpie_export_total", not valid_text or vt is None, feats, case, "a command (the body is valid text)", cmd)
        t.outcome(("httpie", "refused"))
    else:
        t.ok("httpie_export_total")
        res = run_shell(cmd)
        t.add("bash_runs")
        if verbose:
            print("  bash:", res)
        other = foreign_activity(b"http", res)
        t.judge("httpie_only_httpie_runs", not other, feats, case, "exactly one process: http", other)
        if len(res["runs"]) >= 1 and os.path.basename(res["runs"][0][0][0]) == b"http":
            reached = True
            r = httpie_read(res["runs"][0][0][1:])
            problems = list(r["bad"])
            if up(r["method"] or b"") != up(case["method"]):
                problems.append(["method", r["method"]])
            if r["url"] not in urls:
                problems.append(["url", r["url"]])
            exp_hh, _ = expected_headers(case, keep_ae=True)
            if r["headers"] != exp_hh:
                problems.append(["headers", r["headers"]])
            t.judge("httpie_argv_encodes_request", not problems, feats, case,
                    {"method": case["method"], "url": sorted(urls), "headers": exp_hh}, problems)
            t.outcome(("httpie", bool(other), bool(problems), len(r["headers"]), res["runs"][0][1] is not None and len(res["runs"][0][1]) > 0))
        else:
            t.bad("httpie_argv_encodes_request", feats, case, "http started once", {"rc": res["rc"], "stderr": res["stderr"], "runs": len(res["runs"])})
            t.outcome(("httpie", "not-started", res["rc"]))

    # ---- raw
    feats = dict(base, tool="raw")
    if wire_representable(case):
        kind, raw = export_cmd(export.raw_request, case)
        if kind != "ok":
            t.bad("raw_parses_back", feats, case, "raw bytes", [kind, raw])
        else:
            msgs, verdict = http1ref.parse_requests(raw)
            body = decoded_body(case)
            problems = []
            if verdict != "ok" and not (verdict == "incomplete" and len(msgs) == 1):
                problems.append(["verdict", verdict])
            if len(msgs) != 1:
                problems.append(["messages", len(msgs)])
            else:
                m = msgs[0]
                want_start = (case["method"], case["path"], b"HTTP/1.1")
                if tuple(m["start"]) != want_start:
                    problems.append(["start", m["start"]])
                drop = {b"content-length"} | ({b"content-encoding"} if case["content"] and body != case["content"] else set())
                got = [(n, v) for n, v in m["fields"] if n.lower() != b"content-length"]
                want = [(n, v) for n, v in case["headers"] if n.lower() not in drop]
                bad_ce = any(n.lower() == b"content-encoding" for n, _ in case["headers"]) and body == case["content"] and case["content"]
                if bad_ce:
                    got = [(n, v) for n, v in got if n.lower() != b"content-encoding"]
                    want = [(n, v) for n, v in want if n.lower() != b"content-encoding"]
                if got != want:
                    problems.append(["fields", got])
                if m["body"] != body:
                    problems.append(["body", m["body"][:60]])
            t.judge("raw_parses_back", not problems, feats, case, {"start": [case["method"], case["path"]], "body": body[:60]}, problems)
            t.outcome(("raw", verdict, len(msgs)))
            reached = True
    t.case(case if case["field"] in ("body", "shape") else None, nontrivial=reached,
           key=[case["method"], case["path"], case["headers"], case["content"], case["opt"], case["peer"]])


def chunk(cases):
    t = Tally()
    for c in cases:
        one(c, t)
    return t


def run(ctx):
    cases = all_cases(ctx.tier)
    ctx.bounds = {
        "tokens": {n: repr(b) for n, b, _ in TOKENS},
        "one_field_deviates_one_token": FIELDS if ctx.thorough else "body, hvalue, hname, path, method over all tokens; query, hosthdr over %s" % REDUCED3,
        "two_tokens": {"body": "all tokens" if ctx.thorough else REDUCED3, "hvalue": "all tokens" if ctx.thorough else REDUCED,
                       "path,query,hname": REDUCED3 if ctx.thorough else []},
        "body_three_tokens_over": REDUCED if ctx.thorough else [],
        "pairs_hvalue_x_body": "all x all single tokens" if ctx.thorough else "%s x %s" % (REDUCED, REDUCED3),
        "special_cases": len(special_cases()),
        "cases": len(cases),
        "export_preserve_original_ip": [False, True],
    }
    ctx.log("%d cases" % len(cases))
    sb_create()
    try:
        par.pmap_tally(chunk, cases, ctx.tally, nchunks=par.NPROC * 8)
    finally:
        sb_remove()
    ctx.log("bash runs: %d, printf-path cases: %d" % (ctx.tally.extra.get("bash_runs", 0), ctx.tally.extra.get("printf_path_cases", 0)))


def replay(case, t: Tally, verbose=False):
    sb_create()
    try:
        one(case, t, verbose=verbose)
    finally:
        sb_remove()
