"""C45 - command-line arguments reach commands unchanged; lines split exactly at unquoted whitespace.

Engine E.  A probe addon with `str`, `str, str` and `*args: str` commands is registered through the real
`@command.command` decorator and `CommandManager.collect_commands`; every case goes through the real
`CommandManager.execute` (lexer `command_lexer.expr`, `parse_partial`, `unquote`, `Command.call`,
`types._StrType.parse`).

  part 1  every string up to length n over a hostile alphabet, quoted with the console's own rule
          (`command_lexer.quote`, what `console.command.set`/key bindings use) as the single argument;
  part 2  every ordered pair of strings of length <= 2 as two arguments;
  part 3  every raw command line "t.var " + w for all w up to length m over {a b SP TAB LF " '},
          judged against a 15-line reference splitter.
"""
from __future__ import annotations

import gc
import itertools
import re

from mitmproxy import command
from mitmproxy import command_lexer

from vmc import par
from vmc.tally import Tally

META = {
    "level": "exploration",
    "technique": "bounded-exhaustive enumeration of argument strings / raw command lines, each executed through the real "
                 "CommandManager.execute with commands registered by the real decorator; delivered arguments compared with "
                 "the input (quote rule) and with a reference splitter (unquoted whitespace)",
    "claim": "every string up to the length bound over the alphabet, quoted by command_lexer.quote, is delivered to a str "
             "parameter unchanged, and every command line up to the bound is split into arguments exactly at unquoted "
             "whitespace; input-quantified, so exhaustive enumeration of a branch-covering alphabet is the fitting level",
    "rule": "a case is one argument string (or pair, or raw command line); distinct = distinct string; non-trivial = the "
            "string needs quoting or contains a backslash / non-ASCII / whitespace character (part 1, 2) or the line "
            "contains at least one quote character or a whitespace run longer than one (part 3)",
    "assumptions": [
        "alphabet: one token per branch visible in command_lexer.quote/unquote/expr, CommandManager.parse_partial "
        "(part.isspace()) and types._StrType.escape_sequences: letter, n, x, 2, SP, TAB, LF, CR, both quotes, backslash, "
        "e-acute, NBSP; characters outside it (other escapes such as \\u, \\N{...}) are not exercised",
        "only `str` parameters (positional and *args) are checked; Path/Cmd/flow-spec parameter types are out of scope",
        "part 3 asserts argument *content* only for tokens that are a bare word or exactly one quoted region without a "
        "tab; for tokens mixing quoted and unquoted text only the number of arguments is asserted (the statement does "
        "not say how such a token is unquoted)",
        "an unterminated quote is taken to quote everything up to the end of the line",
    ],
}

NBSP = chr(0xA0)
ALPHA_TAIL = [chr(0xE9), NBSP, "\r"]  # e-acute, no-break space, CR
ALPHA = ["a", " ", "\t", "\n", "'", '"', "\\", "n", "x", "2"] + ALPHA_TAIL
LINE_ALPHA = ["a", "b", " ", "\t", "\n", '"', "'"]
LEXWS = " \t\r\n"

# mirror of types._StrType.escape_sequences (only used to *name* the trigger class of a case)
ESC = re.compile(r"""\\([\\'"abfnrtv]|[0-7]{1,3}|x..|N\{[^}]+\}|u....|U........)""", re.S)


class Probe:
    def __init__(self):
        self.got = None

    @command.command("t.one")
    def one(self, s: str) -> None:
        self.got = [s]

    @command.command("t.two")
    def two(self, a: str, b: str) -> None:
        self.got = [a, b]

    @command.command("t.var")
    def var(self, *args: str) -> None:
        self.got = list(args)


class Rig:
    def __init__(self):
        self.probe = Probe()
        self.mgr = command.CommandManager(None)
        self.mgr.collect_commands(self.probe)
        assert set(self.mgr.commands) == {"t.one", "t.two", "t.var"}, self.mgr.commands

    def deliver(self, line):
        """-> ("ok", [args]) | ("exc", type name, text)"""
        self.probe.got = None
        command.CommandManager.parse_partial.cache_clear()
        try:
            self.mgr.execute(line)
        except KeyboardInterrupt:
            raise
        except BaseException as e:
            return ["exc", type(e).__name__, str(e)[:160]]
        return ["ok", self.probe.got]


def escape_class(s):
    """False | "in-argument" (the string itself contains a backslash escape sequence) | "via-quote-rule" (only the
    documented quoting rule - both quote characters present, so `"` is written as \\x22 - lets one of the string's own
    backslashes start an escape sequence, e.g. '\\x" -> "'\\x\\x22")"""
    if ESC.search(s):
        return "in-argument"
    if "'" in s and '"' in s:
        out, inserted = [], set()
        n = 0
        for ch in s:
            if ch == '"':
                inserted.add(n)
                out.append("\\x22")
                n += 4
            else:
                out.append(ch)
                n += 1
        if any(m.start() not in inserted for m in ESC.finditer("".join(out))):
            return "via-quote-rule"
    return False


def arg_features(strings, how):
    esc = [escape_class(s) for s in strings]
    return {
        "how": how,
        "escape_seq": "in-argument" if "in-argument" in esc else ("via-quote-rule" if "via-quote-rule" in esc else False),
        "tab": any("\t" in s for s in strings),
        # the whole argument is whitespace for str.isspace() but none of it is lexer whitespace
        "only_nonlexer_space": any(bool(s) and all(c.isspace() and c not in LEXWS for c in s) for s in strings),
    }


def needs_care(s):
    return s == "" or any(c in s for c in "'\" \r\n\t\\") or any(ord(c) > 127 for c in s)


def run_args(rig, strings, t: Tally):
    """strings: list of 1 or 2 argument strings"""
    how = "one" if len(strings) == 1 else "two"
    case = {"args": list(strings)}
    try:
        quoted = [command_lexer.quote(s) for s in strings]
    except KeyboardInterrupt:
        raise
    except BaseException as e:
        t.bad("arg_unchanged", arg_features(strings, how), case, strings, ["quote raised", repr(e)])
        t.case(None, nontrivial=True, key=case)
        return
    line = ("t.one " if how == "one" else "t.two ") + " ".join(quoted)
    res = rig.deliver(line)
    ok = res[0] == "ok" and res[1] == list(strings)
    t.judge("arg_unchanged", ok, arg_features(strings, how), case, list(strings), {"line": line, "result": res})
    t.outcome(["same"] if ok else (["changed"] if res[0] == "ok" else res[:2]))
    t.case(case if len(t.samples) < 1 and len(strings[0]) >= 3 else None,
           nontrivial=any(needs_care(s) for s in strings), key=case)


# ---------------------------------------------------------------------------
# reference splitter: arguments are the maximal runs of text between whitespace that is not inside quotes;
# a quote character opens a quoted region that lasts until the same quote character (or the end of the line)


def ref_split(line):
    args, cur, q = [], None, None
    for ch in line:
        if q is not None:
            cur += ch
            if ch == q:
                q = None
        elif ch in LEXWS:
            if cur is not None:
                args.append(cur)
                cur = None
        else:
            cur = (cur or "") + ch
            if ch in "'\"":
                q = ch
    if cur is not None:
        args.append(cur)
    return args


def token_kind(tok):
    """bare | quoted (exactly one complete quoted region) | unterminated | mixed"""
    if "'" not in tok and '"' not in tok:
        return "bare"
    if tok[0] in "'\"":
        end = tok.find(tok[0], 1)
        if end == len(tok) - 1:
            return "quoted"
        if end == -1:
            return "unterminated"
    return "mixed"


def run_line(rig, line, t: Tally):
    case = {"line": line}
    toks = ref_split(line)
    assert toks and toks[0] == "t.var", toks
    toks = toks[1:]
    kinds = [token_kind(x) for x in toks]
    shape = "quote-adjacent-to-text" if "mixed" in kinds else ("unterminated-quote" if "unterminated" in kinds else "plain")
    feats = {"how": "line", "tokens": shape}
    res = rig.deliver(line)
    want = []
    for tok, k in zip(toks, kinds):
        if k == "bare":
            want.append(tok)
        elif k == "quoted" and "\t" not in tok:
            want.append(tok[1:-1])
        else:
            want.append(None)  # content not asserted
    ok = res[0] == "ok" and len(res[1]) == len(want) and all(w is None or w == g for w, g in zip(want, res[1]))
    t.judge("split_at_unquoted_whitespace", ok, feats, case, {"count": len(want), "content": want}, res)
    t.outcome([shape, "same" if ok else (res[:2] if res[0] == "exc" else "differs")])
    t.case(case if len(t.samples) < 1 and len(toks) >= 2 and "quoted" in kinds else None,
           nontrivial=("'" in line or '"' in line or re.search(r"[ \t\n]{2}", line[6:]) is not None), key=case)


def chunk(cases):
    t = Tally()
    rig = Rig()
    for kind, payload in cases:
        if kind == "a":
            run_args(rig, payload, t)
        else:
            run_line(rig, payload, t)
    return t


def strings_upto(alpha, n):
    for k in range(n + 1):
        for c in itertools.product(alpha, repeat=k):
            yield "".join(c)


def run(ctx):
    n1 = ctx.pick(4, 5)
    n3 = ctx.pick(5, 6)
    ctx.bounds = {
        "single_argument": "all strings of length <= %d over %d symbols %r" % (n1, len(ALPHA), ALPHA),
        "two_arguments": "all ordered pairs of strings of length <= 2 over the same alphabet",
        "raw_lines": "'t.var ' + every string of length <= %d over %r" % (n3, LINE_ALPHA),
    }
    cases = [("a", [s]) for s in strings_upto(ALPHA, n1)]
    n_one = len(cases)
    short = list(strings_upto(ALPHA, 2))
    cases += [("a", [a, b]) for a in short for b in short]
    n_two = len(cases) - n_one
    lines = [("l", "t.var " + w) for w in strings_upto(LINE_ALPHA, n3)]
    cases += lines
    ctx.log("cases: %d single arguments, %d pairs, %d raw lines" % (n_one, n_two, len(lines)))
    gc.collect()
    gc.freeze()  # forked workers then do not copy the parent's heap on every collection
    par.pmap_tally(chunk, cases, ctx.tally)
    ctx.info["cases_single"] = n_one
    ctx.info["cases_pairs"] = n_two
    ctx.info["cases_lines"] = len(lines)


def replay(case, t: Tally, verbose=False):
    rig = Rig()
    if "args" in case:
        run_args(rig, list(case["args"]), t)
        if verbose:
            q = [command_lexer.quote(s) for s in case["args"]]
            print("  quoted:", q, "->", rig.deliver(("t.one " if len(q) == 1 else "t.two ") + " ".join(q)))
    else:
        run_line(rig, case["line"], t)
        if verbose:
            print("  reference split:", ref_split(case["line"])[1:], " delivered:", rig.deliver(case["line"]))
