"""C53 - client replay runs queued flows one at a time, in order, and cleans up.

Engine V+X: the real ClientPlayback addon (client_replay_concurrency = 1) with its real
ReplayHandler / HttpLayer / MockServer on the virtual loop (vmc/drivers/replaydrv.py);
origin servers are mock sockets the environment controls.  Deviation-bounded DFS over
the orders of: replay submissions (one or two `replay.client` calls, mixed with
unreplayable flows), `replay.client.stop`, connect ok / refused, the origin answering in
one piece / in two pieces / closing before or in the middle of the response, and
completion of suspended hooks.  Every execution is closed out (everything pending is
answered, the addon's `done()` runs) and judged.
"""
from __future__ import annotations

from mitmproxy import flow as mflow
from mitmproxy import http

from vmc.drivers import mbfs
from vmc.drivers import replaydrv as rd
from vmc.refs import http1ref
from vmc.tally import HarnessError, Tally

META = {
    "level": "model_checking",
    "technique": "deviation-bounded DFS over submission / stop / connect / response / hook-completion orders on the real ClientPlayback addon and ReplayHandler on a virtual event loop, with a queue reference model and flow-state snapshots",
    "claim": "for every submission plan, hook-suspension mode, addon policy and schedule within the deviation bound: at most one replay is in progress, replays start in queue order, each ends with exactly one response or error, unreplayable flows are never queued, flows still queued at stop are exactly in their pre-replay state and never replayed, and no task or socket is left after shutdown",
    "rule": "an execution is (plan, suspended hook, policy, choice sequence); distinct = distinct tuple; non-trivial = at least two flows were submitted and at least one deviation, stop or suspension happened",
    "assumptions": [
        "client_replay_concurrency = 1 (the default); plain-HTTP origins",
        "pre-replay state = Flow.get_state() taken immediately before the replay.client call that queues the flow",
        "a replay counts as finished when its response or error hook has returned (that is what ReplayHandler signals)",
    ],
}

RESP = b"HTTP/1.1 200 OK\r\nContent-Length: 5\r\n\r\nNEW-%d"


def build_flows(plan):
    """-> (first batch, second batch or None, names, flows by name)"""
    fl = {}

    def H(name):
        fl[name] = rd.http_flow(name)
        return fl[name]

    def U(kind):
        fl[kind] = rd.unreplayable(kind)
        return fl[kind]

    def BK(name):
        f = H(name)
        f.backup()  # the user has edited this flow before: it already carries a backup of its original state
        f.request.path = "/" + name + "-edited"
        f.comment = "edited by user"
        return f

    def RO(name, err=False):
        # a flow that never got an answer: request only (or request + error), e.g. saved while the server was down
        f = H(name)
        f.response = None
        if err:
            f.error = mflow.Error("connection refused")
        return f

    if plan == "request-only":
        return [H("AAAA"), RO("REQO"), RO("REQE", err=True), H("CCCC")], None, fl
    if plan == "abc":
        return [H("AAAA"), H("BBBB"), H("CCCC")], None, fl
    if plan == "mixed":
        return [H("AAAA"), U("live"), H("BBBB"), U("intercepted"), U("nocontent"), U("norequest"), U("tcp"), U("websocket"), U("dns")], None, fl
    if plan == "backup":
        return [H("AAAA"), BK("BKUP"), H("CCCC")], None, fl
    if plan == "two-calls":
        return [H("AAAA")], [H("BBBB"), BK("BKUP")], fl
    if plan == "two-calls-mixed":
        return [H("AAAA"), H("BBBB")], [U("live"), H("CCCC"), U("websocket")], fl
    raise ValueError(plan)


PLANS = ["abc", "mixed", "backup", "two-calls", "two-calls-mixed", "request-only"]
SUSPEND = ["none", "request", "response", "error"]
POLICIES = ["none", "respond", "kill", "icpt_request", "icpt_response", "icpt_error"]


def replayable_per_statement(f):
    """the statement's list: live, intercepted, missing content, non-HTTP, WebSocket are never queued"""
    if not isinstance(f, http.HTTPFlow):
        return False
    if f.live or f.intercepted:
        return False
    if f.request is None or f.request.raw_content is None:
        return False
    if f.websocket is not None:
        return False
    return True


class Exec:
    def __init__(self, plan, susp, pol, eager=True, conc="1"):
        """conc: client_replay_concurrency stays 1 ("1"); starts at 1 and the user may switch it -1 <-> 1 ("1t"); the
        playback task starts (idle) with -1, by default the user switches to 1 and then submits, or in any other order ("-1")"""
        self.plan, self.susp, self.pol, self.eager, self.conc = plan, susp, pol, eager, conc

    def run(self, prefix, t: Tally, verbose=False):
        first, second, fl = build_flows(self.plan)
        name_of = {id(f): n for n, f in fl.items()}
        mine = set(name_of)

        icpt = []  # replayed flows the addon policy has intercepted (the Intercept addon's effect); the user resumes them

        def policy(name, data, world):
            if id(data) in mine and name == "request":
                if self.pol == "respond":
                    data.response = http.Response.make(200, b"from-addon")
                elif self.pol == "kill" and data.killable:
                    data.kill()
            if id(data) in mine and self.pol == "icpt_" + name:
                data.intercept()
                icpt.append(data)

        def suspend(name, data, world):
            return id(data) in mine and name == self.susp

        rw = rd.ReplayWorld(policy=policy if self.pol != "none" else None, suspend=suspend if self.susp != "none" else None, eager=self.eager)
        choices, widths = [], []
        trace = []
        Q = []  # reference queue: names in submission order
        pre = {}  # name -> state snapshot right before submission
        stopped = []  # names removed by stop_replay
        stop_checks = []
        strict = set()  # flows submitted while the option was 1 and it has been 1 ever since: these are replayed one at a time
        st = {"opt": -1 if self.conc == "-1" else 1, "toggles": 0, "first_pending": self.conc == "-1", "ever_minus1": self.conc == "-1",
              "second_pending": second is not None, "stops": 0, "answered": {}, "part": {}, "max_inflight": 0, "max_sockets": 0, "never_queued_ok": True, "queue_obs": []}
        feats0 = {"plan": self.plan}
        case = {"plan": self.plan, "susp": self.susp, "pol": self.pol, "eager": self.eager, "conc": self.conc, "choices": None}

        def choose(n):
            i = prefix[len(choices)] if len(choices) < len(prefix) else 0
            if i >= n:
                raise HarnessError("choice out of range while replaying %r" % (prefix,))
            choices.append(i)
            widths.append(n)
            return i

        def started():
            out = []
            for n, d in rw.hook_objs:
                if id(d) in mine and name_of[id(d)] not in out:
                    out.append(name_of[id(d)])
            return out

        def finished():
            out = set()
            # a replay whose response / error hook is still being handled (async addon, or intercepted and waiting
            # for the user) has not finished: ReplayHandler signals completion when that hook returns
            held = {id(r[1]) for r in rw.suspended} | {id(f) for f in icpt if f.intercepted}
            for n, d in rw.hook_objs:
                if id(d) in mine and n in ("response", "error") and id(d) not in held:
                    out.add(name_of[id(d)])
            return out

        def submit(batch):
            ok = [name_of[id(f)] for f in batch if replayable_per_statement(f)]
            for f in batch:
                if name_of[id(f)] in ok:
                    pre[name_of[id(f)]] = f.get_state()
                    st.setdefault("pre_resp", {})[name_of[id(f)]] = f.response is not None
            rw.start_replay(batch)
            Q.extend(ok)
            if st["opt"] == 1:
                strict.update(ok)
            # unreplayable flows never enter the queue
            queued_names = [name_of.get(id(f), "?") for f in rw.queued()]
            for f in batch:
                n = name_of[id(f)]
                if n not in ok:
                    t.judge("unreplayable_never_queued", n not in queued_names and f is not rw.cp.inflight, dict(feats0, kind=n), dict(case, choices=list(choices)),
                            "not in the replay queue", queued_names)

        def current_server():
            for e in rw.servers:
                if e.state == "open" and not e.r.eof and not e.w.closed:
                    return e
            return None

        def has_request(e):
            got, _ = http1ref.parse_requests(e.w.data)
            return len(got) > st["answered"].get(id(e), 0)

        def observe():
            s, f = started(), finished()
            inflight = [n for n in s if n not in f]
            st["max_inflight"] = max(st["max_inflight"], len(inflight))
            socks = sum(1 for e in rw.servers if (e.state == "pending" and e in rw.pending_connects()) or (e.state == "open" and not e.w.closed))
            st["max_sockets"] = max(st["max_sockets"], socks)
            # the statement binds replays made with client_replay_concurrency 1: flows submitted while the option was 1
            # (and it has not been -1 since) must never be in progress together
            bound = [n for n in inflight if n in strict]
            t.judge("one_at_a_time", len(bound) <= 1, dict(feats0, option_changed=self.conc != "1"), dict(case, choices=list(choices)),
                    "at most one replay (submitted under client_replay_concurrency=1) in progress", {"in_progress": inflight, "submitted_under_1": sorted(strict)})
            if not st["ever_minus1"]:
                t.judge("one_at_a_time_sockets", socks <= 1, feats0, dict(case, choices=list(choices)), "at most one origin connection alive", socks)

        def set_option(v):
            st["opt"] = v
            if v == -1:
                st["ever_minus1"] = True
                strict.clear()
            rw.act(lambda: rw.options.update(client_replay_concurrency=v))

        try:
            if self.conc == "-1":
                rw.act(lambda: rw.options.update(client_replay_concurrency=-1))
            rw.start_playback()
            if not st["first_pending"]:
                submit(first)
            observe()
            for _ in range(80):
                pend = rw.pending_connects()
                e = current_server()
                waiting = [f for f in icpt if f.intercepted]
                # progress actions in default priority; the first one is the default, the others are alternatives
                cands = []
                if st["first_pending"]:
                    if st["opt"] == -1 and st["toggles"] == 0:
                        cands.append(("conc",))  # the user switches to 1 while the playback task idles on the empty queue
                    cands.append(("start1",))
                if rw.suspended:
                    cands.append(("hook",))
                if waiting:
                    cands.append(("resume",))
                if pend:
                    cands.append(("ok",))
                if e is not None and id(e) in st["part"]:
                    cands.append(("rest",))
                elif e is not None and has_request(e):
                    cands.append(("resp",))
                if st["second_pending"]:
                    cands.append(("start2",))
                if not cands:
                    break
                acts = [cands[0]]
                if pend:
                    acts.append(("refuse",))
                if e is not None and id(e) not in st["part"] and has_request(e):
                    acts.append(("part1",))
                if e is not None:
                    acts.append(("eof",))
                if st["stops"] < 1:
                    acts.append(("stop",))
                if self.conc != "1" and st["toggles"] < 2 and ("conc",) not in cands:
                    acts.append(("conc",))  # the user changes client_replay_concurrency (-1 <-> 1)
                acts.extend(cands[1:])
                a = acts[choose(len(acts))] if len(acts) > 1 else acts[0]
                trace.append(a[0])
                k = a[0]
                if k == "hook":
                    rw.complete_hook(0)
                elif k == "resume":
                    rw.act(waiting[0].resume)
                elif k == "ok":
                    rw.connect_ok(pend[0])
                elif k == "refuse":
                    rw.connect_fail(pend[0])
                elif k == "resp":
                    st["answered"][id(e)] = st["answered"].get(id(e), 0) + 1
                    rw.server_send(e, RESP % rw.servers.index(e))
                elif k == "part1":
                    st["answered"][id(e)] = st["answered"].get(id(e), 0) + 1
                    full = RESP % rw.servers.index(e)
                    st["part"][id(e)] = full[25:]
                    rw.server_send(e, full[:25])
                elif k == "rest":
                    rw.server_send(e, st["part"].pop(id(e)))
                elif k == "eof":
                    st["part"].pop(id(e), None)
                    rw.server_eof(e)
                elif k == "start2":
                    st["second_pending"] = False
                    submit(second)
                elif k == "start1":
                    st["first_pending"] = False
                    submit(first)
                elif k == "conc":
                    st["toggles"] += 1
                    set_option(-st["opt"])
                elif k == "stop":
                    st["stops"] += 1
                    still = [n for n in Q if n not in started() and n not in stopped]
                    rw.stop_replay()
                    for n in still:
                        stopped.append(n)
                        now = fl[n].get_state()
                        stop_checks.append((n, now == pre[n], _diff(pre[n], now)))
                    left = [name_of.get(id(f), "?") for f in rw.queued()]
                    t.judge("stop_clears_queue", not left, feats0, dict(case, choices=list(choices)), "queue empty after replay.client.stop", left)
                t.transitions += 1
                observe()
                t.state([self.plan, trace[-1], started(), sorted(finished()), stopped, [e.state + str(int(e.w.closed)) for e in rw.servers], len(rw.suspended)])
            else:
                raise HarnessError("schedule does not terminate: %r" % (trace,))
            # close-out: answer whatever is still in flight, then shut the addon down
            for _ in range(80):
                progressed = False
                if rw.suspended:
                    rw.complete_hook(0)
                    progressed = True
                for f in icpt:
                    if f.intercepted:
                        rw.act(f.resume)
                        progressed = True
                for e in rw.pending_connects():
                    rw.connect_fail(e)
                    progressed = True
                e = current_server()
                if e is not None:
                    rw.server_eof(e)
                    progressed = True
                observe()
                if not progressed:
                    break
            rw.shutdown_playback()
            case["choices"] = list(choices)
            self.judge(rw, fl, name_of, Q, stopped, stop_checks, started(), finished(), st, trace, case, t, verbose)
        finally:
            rw.dispose()
        return choices, widths, None

    def judge(self, rw, fl, name_of, Q, stopped, stop_checks, started, finished, st, trace, case, t: Tally, verbose):
        feats0 = {"plan": self.plan}
        nontrivial = len(Q) >= 2 and (any(case["choices"]) or self.susp != "none" or self.pol != "none" or "stop" in trace)
        t.case(case if (len(t.samples) < 2 and "stop" in trace) else None, nontrivial=nontrivial, key=case)
        expected = [n for n in Q if n not in stopped]
        # order
        in_order = [n for n in started if n in expected]
        t.judge("replayed_in_queue_order", in_order == expected[: len(in_order)], feats0, case, "replays start in submission order", {"started": started, "queue": expected})
        for n in stopped:
            t.judge("stopped_never_replayed", n not in started, feats0, case, "a flow removed by stop is not replayed", started)
        for n in name_of.values():
            f = fl[n]
            if n not in Q:
                t.judge("unreplayable_never_replayed", n not in started, dict(feats0, kind=n), case, "never replayed", started)
        # every queued flow that was not stopped gets replayed and ends with exactly one of response / error
        for n in expected:
            f = fl[n]
            names = [h for h, d in rw.hook_objs if d is f]
            n_out = names.count("response") + names.count("error")
            t.judge("every_replayed_flow_ends_with_response_or_error", n in started and n_out == 1, dict(feats0, outcomes=min(n_out, 2), started=n in started), case,
                    "exactly one response or error hook", names)
            if n in started and n_out == 1:
                ok = (f.response is not None) if "response" in names else (f.error is not None)
                t.judge("outcome_recorded_on_flow", ok, feats0, case, "flow.response / flow.error set", {"hooks": names})
        # stop restores the pre-replay state
        for n, same, diff in stop_checks:
            had_backup = n == "BKUP"
            t.judge("stop_restores_pre_replay_state", same, dict(feats0, had_backup=had_backup, had_response=st.get("pre_resp", {}).get(n)), case, "state after stop == state before replay.client", diff)
        # clean-up
        tasks = rw.loop.pending_tasks()
        t.judge("no_tasks_left", not tasks, feats0, case, "no task left after ClientPlayback.done()", [repr(x)[:100] for x in tasks][:3])
        open_socks = [i for i, e in enumerate(rw.servers) if e.state == "open" and not e.w.closed]
        t.judge("no_sockets_left", not open_socks, feats0, case, "every origin connection closed", open_socks)
        t.judge("no_crash_logged", not any("crashed" in x for x in rw.errors), feats0, case, "no 'Client replay has crashed!'", rw.errors[:2])
        t.outcome([self.plan, started, sorted(finished), stopped, [(n, s) for n, s, _ in stop_checks]])
        if verbose:
            print("trace", trace)
            print("queue model", Q, "stopped", stopped, "started", started, "finished", sorted(finished))
            for n in Q:
                print("  ", n, [h for h, d in rw.hook_objs if d is fl[n]], "response", fl[n].response.content if fl[n].response else None, "error", fl[n].error)
            print("stop checks", stop_checks)
            print("sockets", [(e.state, e.w.closed, e.w.data[:30]) for e in rw.servers])
            print("errors", rw.errors[:2], "max inflight", st["max_inflight"], "max sockets", st["max_sockets"])


def _diff(a, b, path=""):
    """top-level description of where two flow states differ"""
    if isinstance(a, dict) and isinstance(b, dict):
        out = []
        for k in sorted(set(a) | set(b)):
            if a.get(k) != b.get(k):
                if isinstance(a.get(k), dict) and isinstance(b.get(k), dict) and len(path) < 20:
                    out.extend(_diff(a[k], b[k], path + k + "."))
                else:
                    out.append("%s%s: %r -> %r" % (path, k, _short(a.get(k)), _short(b.get(k))))
        return out[:6]
    return ["%r -> %r" % (_short(a), _short(b))] if a != b else []


def _short(x):
    s = repr(x)
    return s if len(s) < 60 else s[:57] + "..."


def specs(tier):
    out = []
    for plan in PLANS:
        for susp in SUSPEND:
            out.append((plan, susp, "none", True))
        if plan in ("abc", "backup"):
            out.append((plan, "none", "respond", True))
            out.append((plan, "none", "kill", True))
            out.append((plan, "response", "respond", True))
            out.append((plan, "error", "kill", True))
        if plan in ("abc", "two-calls"):
            # a replayed flow is intercepted in a hook (intercept filter active) and resumed by the user, possibly late
            out.append((plan, "none", "icpt_response", True))
            out.append((plan, "none", "icpt_request", True))
        if plan == "abc":
            out.append((plan, "none", "icpt_error", True))
        if tier == "thorough" or plan == "abc":
            out.append((plan, "none", "none", False))
            out.append((plan, "response", "none", False))
        if plan in ("abc", "two-calls"):
            # the user changes client_replay_concurrency between -1 and 1, also while the playback task is idle
            for conc in ("-1", "1t"):
                if tier == "thorough" or plan == "abc" or conc == "-1":
                    out.append((plan, "none", "none", True, conc))
                if tier == "thorough":
                    out.append((plan, "response", "none", True, conc))
    return out


def make_exec(key):
    return Exec(*key)


def run(ctx):
    bound = ctx.pick(2, 3)
    sp = specs(ctx.tier)
    ctx.bounds = {"plans": PLANS, "suspended_hook": SUSPEND, "policies": POLICIES, "deviation_bound": bound, "specs": len(sp),
                  "actions": ["hook", "connect ok", "connect refused", "response whole", "response in 2 parts", "origin EOF", "stop (once)", "second replay.client call", "resume intercepted replay", "set client_replay_concurrency -1 <-> 1 (<= 2 times, also while idle)"]}
    ctx.log("%d specs, deviation bound %d" % (len(sp), bound))
    mbfs.dfs_dev_many(sp, make_exec, bound, ctx.tally, log=ctx.log)


def replay(case, t, verbose=False):
    Exec(case["plan"], case["susp"], case["pol"], bool(case["eager"]), case.get("conc", "1")).run(tuple(case["choices"]), t, verbose=verbose)
