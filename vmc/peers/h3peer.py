"""h3peer - independent HTTP/3 endpoints (aioquic `H3Connection`) over a fake QUIC wire.

Real QUIC needs TLS 1.3 and UDP; what C06 is about sits above it (Http3Server /
Http3Client / LayeredH3Connection).  So the QUIC layer is replaced on both sides of
the mock socket by the same trivial *stream record* framing:

    record := type(1) stream_id(8) error_code(8) length(4) payload
    type 0 = STREAM data, 1 = STREAM data + FIN, 2 = RESET_STREAM, 3 = STOP_SENDING, 4 = CONNECTION_CLOSE

* `FakeQuic` is what the peer's stock aioquic `H3Connection` writes to (it is *not*
  mitmproxy's `MockQuic`); the peer turns its calls into records.
* `QuicShim` is a pass-through proxy layer put around the real `HttpLayer`: records
  arriving on a connection whose ALPN is h3 become `QuicStreamDataReceived` /
  `QuicStreamReset` / ... events for the layer below, and the `SendQuicStreamData` /
  `ResetQuicStream` / `StopSendingQuicStream` / `CloseQuicConnection` commands coming
  up become records.  Everything else passes through untouched.
"""
from __future__ import annotations

import struct

try:
    from aioquic.h3.connection import H3Connection
    from aioquic.h3.events import DataReceived as H3Data
    from aioquic.h3.events import HeadersReceived as H3Headers
    from aioquic.quic.configuration import QuicConfiguration
    from aioquic.quic.events import StreamDataReceived

    from mitmproxy.proxy import commands, events, layer
    from mitmproxy.proxy.layers import quic as mquic

    AVAILABLE = True
except Exception:  # pragma: no cover
    AVAILABLE = False

HDR = struct.Struct(">BQQI")
T_DATA, T_FIN, T_RESET, T_STOP, T_CLOSE = 0, 1, 2, 3, 4


class PeerCannotEncode(Exception):
    """the independent peer library refuses to produce this message (not a finding; the case is skipped)"""


def record(typ, stream_id=0, error_code=0, payload=b""):
    return HDR.pack(typ, stream_id, error_code, len(payload)) + payload


class RecordReader:
    def __init__(self):
        self.buf = b""

    def feed(self, data):
        self.buf += data
        out = []
        while len(self.buf) >= HDR.size:
            typ, sid, code, n = HDR.unpack_from(self.buf)
            if len(self.buf) < HDR.size + n:
                break
            out.append((typ, sid, code, self.buf[HDR.size:HDR.size + n]))
            self.buf = self.buf[HDR.size + n:]
        return out


def _is_h3(conn):
    a = conn.alpn
    return a == b"h3" or (a is not None and a.startswith(b"h3-"))


if AVAILABLE:

    class QuicShim(layer.Layer):
        """stands in for mitmproxy's QUIC layers: records <-> QUIC stream events/commands"""

        def __init__(self, context, child_factory):
            super().__init__(context)
            self.child = child_factory(context)
            self.readers = {}

        def _handle_event(self, event):
            if isinstance(event, events.DataReceived) and _is_h3(event.connection):
                rd = self.readers.setdefault(event.connection, RecordReader())
                for typ, sid, code, payload in rd.feed(event.data):
                    if typ in (T_DATA, T_FIN):
                        ev = mquic.QuicStreamDataReceived(event.connection, sid, payload, typ == T_FIN)
                    elif typ == T_RESET:
                        ev = mquic.QuicStreamReset(event.connection, sid, code)
                    elif typ == T_STOP:
                        ev = mquic.QuicStreamStopSending(event.connection, sid, code)
                    else:
                        ev = mquic.QuicConnectionClosed(event.connection, code, None, payload.decode("utf-8", "replace"))
                    yield from self.relay(ev)
            elif isinstance(event, events.ConnectionClosed) and _is_h3(event.connection) and not isinstance(event, mquic.QuicConnectionClosed):
                yield from self.relay(mquic.QuicConnectionClosed(event.connection, 0, None, "peer closed connection"))
                # a QUIC connection has no half-close: the transport is gone (mitmproxy's QUIC layer does the same)
                yield commands.CloseConnection(event.connection)
            else:
                yield from self.relay(event)

        def relay(self, event):
            for cmd in self.child.handle_event(event):
                if isinstance(cmd, mquic.SendQuicStreamData):
                    yield commands.SendData(cmd.connection, record(T_FIN if cmd.end_stream else T_DATA, cmd.stream_id, 0, cmd.data))
                elif isinstance(cmd, mquic.ResetQuicStream):
                    yield commands.SendData(cmd.connection, record(T_RESET, cmd.stream_id, cmd.error_code))
                elif isinstance(cmd, mquic.StopSendingQuicStream):
                    yield commands.SendData(cmd.connection, record(T_STOP, cmd.stream_id, cmd.error_code))
                elif isinstance(cmd, mquic.CloseQuicConnection):
                    yield commands.SendData(cmd.connection, record(T_CLOSE, 0, cmd.error_code, cmd.reason_phrase.encode("utf-8", "replace")))
                    yield commands.CloseConnection(cmd.connection)
                else:
                    yield cmd

    class FakeQuic:
        """the handful of QuicConnection members aioquic's H3Connection touches"""

        def __init__(self, is_client):
            self.configuration = QuicConfiguration(is_client=is_client)
            self._quic_logger = None
            self._remote_max_datagram_frame_size = None
            self._next = {False: 0 if is_client else 1, True: 2 if is_client else 3}
            self.out = bytearray()
            self.closed = None

        def get_next_available_stream_id(self, is_unidirectional=False):
            sid = self._next[bool(is_unidirectional)]
            self._next[bool(is_unidirectional)] = sid + 4
            return sid

        def send_stream_data(self, stream_id, data, end_stream=False):
            self.out += record(T_FIN if end_stream else T_DATA, stream_id, 0, bytes(data))

        def reset_stream(self, stream_id, error_code):
            self.out += record(T_RESET, stream_id, error_code)

        def stop_stream(self, stream_id, error_code):
            self.out += record(T_STOP, stream_id, error_code)

        def close(self, error_code=0, frame_type=None, reason_phrase=""):
            self.closed = (error_code, reason_phrase)
            self.out += record(T_CLOSE, 0, error_code, reason_phrase.encode("utf-8", "replace"))

        def take(self):
            data, self.out = bytes(self.out), bytearray()
            return data

    class _H3End:
        def __init__(self, is_client):
            self.q = FakeQuic(is_client)
            self.h3 = H3Connection(self.q)
            self.rd = RecordReader()
            self.pos = 0
            self.streams = {}  # sid -> {"headers","data","trailers","ended","reset"}
            self.order = []
            self.remote_close = None

        def _st(self, sid):
            if sid not in self.streams:
                self.streams[sid] = {"headers": None, "data": [], "trailers": None, "ended": False, "reset": None}
            return self.streams[sid]

        @property
        def dead(self):
            return self.q.closed is not None or self.remote_close is not None

        def feed(self, data):
            for typ, sid, code, payload in self.rd.feed(data):
                if typ in (T_DATA, T_FIN):
                    if self.dead:
                        continue
                    for ev in self.h3.handle_event(StreamDataReceived(data=payload, end_stream=typ == T_FIN, stream_id=sid)):
                        if isinstance(ev, H3Headers):
                            st = self._st(ev.stream_id)
                            hs = [(bytes(n), bytes(v)) for n, v in ev.headers]
                            if st["headers"] is None:
                                st["headers"] = hs
                                self.order.append(ev.stream_id)
                            else:
                                st["trailers"] = hs
                            if ev.stream_ended:
                                st["ended"] = True
                        elif isinstance(ev, H3Data):
                            st = self._st(ev.stream_id)
                            if ev.data:
                                st["data"].append(bytes(ev.data))
                            if ev.stream_ended:
                                st["ended"] = True
                elif typ in (T_RESET, T_STOP):
                    if sid % 4 == 0:
                        self._st(sid)["reset"] = code
                elif typ == T_CLOSE:
                    self.remote_close = (code, payload)

        def _guard(self, fn, *a, **kw):
            try:
                fn(*a, **kw)
            except Exception as e:  # aioquic / pylsqpack refusing to encode
                raise PeerCannotEncode("%s: %s" % (type(e).__name__, e))
            return self.q.take()

    class H3Client(_H3End):
        v = "h3"

        def __init__(self):
            super().__init__(True)
            self.sid = None

        def start(self, w):
            w.client_send(self.q.take())
            self.poll(w)

        def poll(self, w):
            for _ in range(20):
                data = w.client.w.data
                if len(data) <= self.pos:
                    break
                new, self.pos = data[self.pos:], len(data)
                self.feed(new)
                out = self.q.take()
                if out and not w.client.r.eof and not w.client.w.closed:
                    w.client_send(out)

        def send_request(self, w, req):
            self.sid = sid = self.q.get_next_available_stream_id()
            body, trailers = req["body"], req["trailers"]

            def send(data):
                if data and not w.client.r.eof and not w.client.w.closed:
                    w.client_send(data)
                self.poll(w)

            send(self._guard(self.h3.send_headers, sid, req["pseudo"] + req["fields"], end_stream=body is None and trailers is None))
            if body is not None and not self.dead and self._st(sid)["reset"] is None:
                send(self._guard(self.h3.send_data, sid, body, end_stream=trailers is None))
            if trailers is not None and not self.dead and self._st(sid)["reset"] is None:
                send(self._guard(self.h3.send_headers, sid, trailers, end_stream=True))

        def response(self, w, method):
            self.poll(w)
            st = self.streams.get(self.sid)
            out = {"state": "none", "conn_error": self.q.closed, "goaway": self.remote_close}
            if st is None:
                return out
            if st["reset"] is not None:
                out["state"] = "reset"
            elif st["ended"]:
                out["state"] = "complete"
            elif st["headers"] is not None:
                out["state"] = "partial"
            if st["headers"] is not None:
                ps = dict((n, v) for n, v in st["headers"] if n.startswith(b":"))
                try:
                    out["status"] = int(ps.get(b":status", b"0"))
                except ValueError:
                    out["status"] = -1
                out["fields"] = [(n, v) for n, v in st["headers"] if not n.startswith(b":")]
                out["body"] = b"".join(st["data"])
                out["trailers"] = list(st["trailers"] or [])
            return out

    class H3Server(_H3End):
        v = "h3"

        def __init__(self, end):
            super().__init__(False)
            self.end = end
            self.started = False

        def _send(self, w, data):
            e = self.end
            if data and e.state == "open" and not e.r.eof and not e.w.closed:
                w.server_send(e, data)

        def poll(self, w):
            if not self.started:
                self.started = True
                self._send(w, self.q.take())
            for _ in range(20):
                data = self.end.w.data
                if len(data) <= self.pos:
                    break
                new, self.pos = data[self.pos:], len(data)
                self.feed(new)
                self._send(w, self.q.take())

        def request(self, w):
            self.poll(w)
            out = {"state": "none", "conn_error": self.q.closed, "goaway": self.remote_close, "n": len(self.order)}
            if not self.order:
                return out
            sid = self.order[0]
            st = self.streams[sid]
            out["state"] = "reset" if st["reset"] is not None else ("complete" if st["ended"] else "partial")
            ps = [(n, v) for n, v in st["headers"] if n.startswith(b":")]
            d = {}
            for n, v in ps:
                d.setdefault(n, v)
            out.update(method=d.get(b":method"), scheme=d.get(b":scheme"), authority=d.get(b":authority"), path=d.get(b":path"), pseudo=ps,
                       fields=[(n, v) for n, v in st["headers"] if not n.startswith(b":")], body=b"".join(st["data"]),
                       trailers=list(st["trailers"] or []), sid=sid)
            return out

        def send_response(self, w, resp):
            if not self.order or self.dead:
                return
            sid = self.order[0]
            body, trailers = resp["body"], resp["trailers"]
            self._send(w, self._guard(self.h3.send_headers, sid, resp["pseudo"] + resp["fields"], end_stream=body is None and trailers is None))
            self.poll(w)
            if body is not None and not self.dead and self.streams[sid]["reset"] is None:
                self._send(w, self._guard(self.h3.send_data, sid, body, end_stream=trailers is None))
                self.poll(w)
            if trailers is not None and not self.dead and self.streams[sid]["reset"] is None:
                self._send(w, self._guard(self.h3.send_headers, sid, trailers, end_stream=True))
                self.poll(w)

else:  # pragma: no cover

    class QuicShim:  # type: ignore
        pass

    class H3Client:  # type: ignore
        pass

    class H3Server:  # type: ignore
        pass
