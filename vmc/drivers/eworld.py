"""EWorld: `World` on a virtual loop on which asyncio's eager task factory really is eager.

Production mitmproxy runs with `asyncio.eager_task_factory` (Master.run).  `VLoop(eager=True)`
installs that factory, but `Task.__init__` only starts a task eagerly when
`loop.is_running()`, and `VLoop` never reports itself as running (it never enters
`run_forever`), so on a plain `World` every task start is deferred to the next loop
iteration.  Both orders are legitimate schedules; the eager one is what ships.  `ELoop`
reports `is_running()` while it executes callbacks or an environment action, nothing else
is changed.  `EWorld(eager=False)` behaves exactly like `World`.
"""
from __future__ import annotations

import vmc.drivers.world as wm
from vmc.vloop import VLoop


class ELoop(VLoop):
    _really_eager = False
    _inside = 0

    def __init__(self, eager=True):
        super().__init__(eager=eager)
        self._really_eager = eager
        self._inside = 0

    def is_running(self):
        return self._really_eager and self._inside > 0

    def quiesce(self, limit=100000):
        self._inside += 1
        try:
            return super().quiesce(limit)
        finally:
            self._inside -= 1

    def call_in_loop(self, fn, *a):
        self._inside += 1
        try:
            return super().call_in_loop(fn, *a)
        finally:
            self._inside -= 1


class EWorld(wm.World):
    def __init__(self, *a, **kw):
        saved = wm.VLoop
        wm.VLoop = ELoop
        try:
            super().__init__(*a, **kw)
        finally:
            wm.VLoop = saved

    def run_limited(self, limit=400):
        """quiesce with a small step limit (raises RuntimeError when the loop spins at a frozen clock)"""
        wm._CURRENT = self
        return self.loop.quiesce(limit=limit)

    def settle(self, limit=3000, tick=1e-6):
        """quiesce; if the loop spins at a frozen clock (TimeoutWatchdog sleeps 0 s until time.time() has passed its
        deadline) tick the clock the way a real clock would.  Returns False if the loop stays busy (a busy loop in
        the code under test)."""
        for _ in range(5):
            try:
                self.run_limited(limit)
                return True
            except RuntimeError:
                self.loop.advance(tick)
        return False

    def raw(self, fn, *a):
        """perform an environment event without running the loop (several events can be made to coincide)"""
        wm._CURRENT = self
        return self.loop.call_in_loop(fn, *a)

    def act(self, fn, *a):
        self.raw(fn, *a)
        return self.settle()

    def close_out_eps(self, eps=0.25, max_rounds=60):
        """like World.close_out, but timers are reached with an overshoot (an exact hit makes the watchdog spin)"""
        for _ in range(max_rounds):
            if self.done and not self.loop.pending_tasks():
                break
            progressed = False
            for e in self.pending_connects():
                e.state = "refused"
                self.act(e.connect_fut.set_exception, OSError("connection refused"))
                progressed = True
            while self.suspended:
                fut = self.suspended[0][2]
                self.act(lambda: (not fut.done()) and fut.set_result(None))
                progressed = True
            for e in self.servers:
                if e.state == "open" and not e.r.eof:
                    e.r.eof = True
                    self.act(e.eof)
                    progressed = True
            if not self.client.r.eof:
                self.client.r.eof = True
                self.act(self.client.eof)
                progressed = True
            if self.done and not self.loop.pending_tasks():
                break
            if not progressed:
                if not self.loop.advance_to_next_timer(eps):
                    break
                self.settle()
        return self.done and not self.loop.pending_tasks()
