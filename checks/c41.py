"""C41 - HAR export followed by HAR import preserves the exchange.

Engine E: every flow of a finite grammar (one token per branch of savehar.py / io/har.py:
method, HTTP version, scheme, default/explicit port, host form, Host/:authority presence,
query shapes, request header sets, request body x content-type x content-encoding,
response presence / websocket, status, response header sets, framing header,
response body x content-type (charset) x content-encoding) is built as a real HTTPFlow,
saved through the real save path (the save.har command SaveHar.export_har: make_har, the final
serialisation to bytes and the file write - a failure anywhere in it is an export failure), the
file's bytes are read back with the real FlowReader (HAR branch -> har.request_to_flow) and
compared field by field.  Header values and bodies include bytes that are not valid UTF-8.
A case is the set of grammar dimensions that deviate from the base flow: quick = all cases
with <= 2 deviations, thorough = <= 3 deviations, plus the full product of the two body groups
(thorough: each such product additionally combined with every single other deviation).
Multi-flow files: every ordered selection of 1..3 flows from a pool (incl. a non-HTTP flow
and two flows sharing a server connection), combined with every weak ordering of the flows'
start times (ascending, descending, equal, ties, non-monotonic: the exported list order is not
the chronological order in general), written with export_har to a scratch file and read with
read_flows_from_paths; `order_kept` compares the imported order with the exported list order.
"""
from __future__ import annotations

import atexit
import gzip
import io
import itertools
import json
import os
import shutil
import zlib

import brotli
from mitmproxy import flow as mflow
from mitmproxy import http
from mitmproxy.addons.savehar import SaveHar
from mitmproxy.io import FlowReader, read_flows_from_paths
from mitmproxy.net import encoding as mencoding
from mitmproxy.net.http import status_codes
from mitmproxy.test import tflow

from vmc import par
from vmc.tally import HarnessError, Tally

META = {
    "level": "exploration",
    "technique": "bounded-exhaustive enumeration of a flow grammar (all <=2 / <=3 simultaneous deviations from a base flow plus full products of the body groups), "
    "each flow exported by the real SaveHar and re-imported by the real FlowReader/har.request_to_flow, compared field by field",
    "claim": "every combination of up to k grammar alternatives (k=2 quick, 3 thorough) was round-tripped through the real exporter and importer; "
    "exploration (not model checking) because the space is an input grammar, not a transition system",
    "rule": "a case is a set of (dimension, token) deviations from the base flow, or an ordered list of pool flows for multi-flow files; "
    "non-trivial = the export produced an entry and the importer was run on it (counted per distinct case)",
    "assumptions": [
        "HTTP/2 and HTTP/2.0 are treated as the same version (the statement says 'HTTP version', not its spelling)",
        "when a content coding is present the importer deliberately stores the decoded body: Content-Encoding and Content-Length are then excluded from the header comparison (request and response)",
        "request Content-Length is always excluded (the statement allows it to be recomputed); response Content-Length is compared when no coding is present",
        "bodies are compared decoded; for a coding mitmproxy cannot decode (unknown name, corrupt data) 'decoded' means the raw bytes, as get_content(strict=False) defines it",
        "URL: flows are built with a Host header / :authority consistent with the request target (or without one); one token has a differing Host header and is judged on pretty_url, "
        "the URL the exporter documents that it writes",
        "IPv6-literal and IDN hosts, raw non-ASCII request targets and asterisk-form are left to C33 (URL rendering) and not enumerated here",
        "flows without a response are only judged on the request-side clauses; a response whose body was not captured (content None) has no decoded body to compare; "
        "WebSocket messages are outside the statement",
        "versions are those the statement names (HTTP/1.1, HTTP/2 = mitmproxy's 'HTTP/2.0', HTTP/3); HTTP/1.0 and HTTP/0.9 are not enumerated",
        "CONNECT (authority-form) flows have no URL: the URL clause is skipped for them and their Host header is excluded from the header comparison",
    ],
}

TS = 946681200.0

# ---------------------------------------------------------------------------
# grammar: dimension -> ordered tokens, the first token is the base value

REQ_BODIES = {
    "empty": b"",
    "text": b"hello world",
    "form": b"a=1&b=2%20x&a=3",
    "json": b'{"k": "v", "n": [1, 2]}',
    "utf8": "caf\u00e9 \u20ac".encode("utf-8"),
    "latin1": b"caf\xe9",
    "binary": bytes(range(0, 32)) + b"\x80\xff\xfe" + bytes(range(0, 16)),
    "missing": None,
}
RESP_BODIES = {
    "ascii": b"message body",
    "empty": b"",
    "utf8": "caf\u00e9 \u20ac".encode("utf-8"),
    "latin1": b"caf\xe9",
    "binary": b"\x89PNG\r\n\x1a\n" + bytes(range(0, 24)) + b"\xff\xfe\x80",
    "long_utf8": ("x" * 99 + "\u20ac" * 3 + "tail").encode("utf-8"),
    "html_meta_latin1": b'<html><head><meta charset="iso-8859-1"></head><body>caf\xe9</body></html>',
    "utf8_bom": b"\xef\xbb\xbfhello",
    "missing": None,
}
CTYPES = {
    "none": None,
    "text": "text/plain",
    "text_utf8": "text/plain; charset=utf-8",
    "text_latin1": "text/plain; charset=iso-8859-1",
    "html": "text/html",
    "json": "application/json",
    "octet": "application/octet-stream",
    "png": "image/png",
    "form": "application/x-www-form-urlencoded",
    "text_bogus": "text/plain; charset=bogus",
}
HDR_SETS = {
    "plain": [(b"X-Plain", b"v1")],
    "none": [],
    "duplicate": [(b"X-Dup", b"1"), (b"X-Other", b"o"), (b"X-Dup", b"2")],
    "mixedcase": [(b"x-mIxEd", b"Va"), (b"X-MIXED", b"vA")],
    "empty_value": [(b"X-Empty", b"")],
    "nonascii_utf8": [(b"X-U", "caf\u00e9".encode("utf-8"))],
    "nonascii_latin1": [(b"X-L", b"caf\xe9")],
    "comma_colon": [(b"X-C", b"a, b: c; d=\"e\"")],
}
REQ_HDR_SETS = dict(HDR_SETS)
REQ_HDR_SETS.update({
    "cookie": [(b"Cookie", b"a=1; b=2")],
    "cookie_two": [(b"Cookie", b"a=1"), (b"cookie", b"b=\"2 3\"; c")],
})
RESP_HDR_SETS = dict(HDR_SETS)
RESP_HDR_SETS.update({
    "set_cookie": [(b"Set-Cookie", b"sid=abc")],
    "set_cookie_attrs": [(b"Set-Cookie", b"a=1; Path=/x; Domain=example.com; HttpOnly; Secure; SameSite=Lax"),
                         (b"set-cookie", b"b=2; Expires=Wed, 21 Oct 2015 07:28:00 GMT; Max-Age=10")],
    "location": [(b"Location", b"http://example.com/next")],
})

DIMS = {
    "method": ["GET", "POST", "PUT", "PATCH", "DELETE", "OPTIONS", "HEAD", "CONNECT"],
    "version": ["HTTP/1.1", "HTTP/2.0", "HTTP/3"],
    "scheme": ["http", "https"],
    "port": ["default", "explicit"],
    "host": ["name", "ipv4"],
    "hosthdr": ["consistent", "absent", "differs"],
    "path": ["plain", "query", "query_dup", "escaped", "root"],
    "req_hdrs": list(REQ_HDR_SETS),
    "req_body": ["empty", "text", "form", "json", "utf8", "latin1", "binary", "missing"],
    "req_ctype": ["none", "text", "text_utf8", "text_latin1", "form", "json", "octet"],
    "req_ce": ["none", "gzip"],
    "resp": ["present", "absent", "absent_error", "websocket"],
    "status": [200, 204, 404, 301, 500],
    "resp_hdrs": list(RESP_HDR_SETS),
    "resp_framing": ["content_length", "no_content_length", "chunked"],
    "resp_body": list(RESP_BODIES),
    "resp_ctype": ["text", "none", "text_utf8", "text_latin1", "html", "json", "octet", "png", "text_bogus"],
    "resp_ce": ["none", "gzip", "deflate", "br", "zstd", "identity", "unknown", "gzip_corrupt"],
    "peer": ["ip", "none"],
    "timestamps": ["full", "partial"],
}
BASE = {d: v[0] for d, v in DIMS.items()}
PATHS = {
    "plain": b"/flow",
    "query": b"/p?a=1&b=2",
    "query_dup": b"/p?a=1&a=2&c",
    "escaped": b"/p%20q/%C3%A9?x=%C3%A9%2F&y=a+b",
    "root": b"/",
}

# which dimensions can influence which clause: features of a violation are the deviating tokens among them
REQ_LINE = ["method", "version", "scheme", "port", "host", "hosthdr", "path"]
REQ_SIDE = REQ_LINE + ["req_hdrs", "req_body", "req_ctype", "req_ce"]
RESP_SIDE = ["resp", "status", "resp_hdrs", "resp_framing", "resp_body", "resp_ctype", "resp_ce", "version"]
RELEVANT = {
    "export_succeeds": list(DIMS),
    "import_succeeds": list(DIMS),
    "method_equal": REQ_LINE,
    "url_equal": REQ_LINE,
    "http_version_equal": ["version", "resp"],
    "request_headers_equal": REQ_SIDE,
    "request_body_equal": ["method", "req_body", "req_ctype", "req_ce", "req_hdrs"],
    "status_equal": ["resp", "status"],
    "response_headers_equal": RESP_SIDE,
    "decoded_response_body_equal": RESP_SIDE,
}


def compress(body, ce):
    """independent of mitmproxy's own encoders wherever a library exists"""
    if ce in ("none", "identity", "unknown"):
        return body
    if ce == "gzip":
        return gzip.compress(body, mtime=0)
    if ce == "deflate":
        return zlib.compress(body)
    if ce == "br":
        return brotli.compress(body)
    if ce == "zstd":
        return mencoding.zstd.compress(body)
    if ce == "gzip_corrupt":
        return b"this is not gzip \x00\x01\x02 data"
    raise ValueError(ce)


CE_HEADER = {"gzip": b"gzip", "deflate": b"deflate", "br": b"br", "zstd": b"zstd", "identity": b"identity",
             "unknown": b"x-verif-unknown", "gzip_corrupt": b"gzip"}


def tokens(spec):
    t = dict(BASE)
    t.update(spec)
    return t


def build_flow(spec, n=0, start=None, seq=None):
    """a real HTTPFlow for the deviation set `spec`; returns (flow, expected) where expected holds
    what the statement says must survive, derived from the spec (not from mitmproxy's accessors).
    `start` is the request's start time as an offset (in units of 10 s) from TS, default: position n seconds;
    `seq` adds an `X-Seq` request header that makes the flow identifiable inside a multi-flow file."""
    t = tokens(spec)
    T0 = TS + n if start is None else TS + 10.0 * start
    scheme = t["scheme"]
    port = {"http": 80, "https": 443}[scheme] if t["port"] == "default" else 8080
    host = "example.com" if t["host"] == "name" else "192.0.2.7"
    hostport = host if t["port"] == "default" else "%s:%d" % (host, port)
    version = t["version"]
    h2 = version in ("HTTP/2.0", "HTTP/3")
    method = t["method"]
    fields = []
    authority = b""
    hh = t["hosthdr"]
    shown_host = hostport
    if hh == "differs":
        shown_host = "other.example" if t["port"] == "default" else "other.example:%d" % port
    if method == "CONNECT":
        authority = ("%s:%d" % (host, port)).encode()
        if hh != "absent":
            fields.append((b"Host", authority))
    elif h2:
        if hh != "absent":
            authority = shown_host.encode()
    else:
        if hh != "absent":
            fields.append((b"Host", shown_host.encode()))
    fields += REQ_HDR_SETS[t["req_hdrs"]]
    if seq is not None:
        fields.append((b"X-Seq", str(seq).encode()))
    body = REQ_BODIES[t["req_body"]]
    ct = CTYPES[t["req_ctype"]]
    if ct:
        fields.append((b"Content-Type", ct.encode()))
    raw = body
    if body is not None and t["req_ce"] != "none":
        raw = compress(body, t["req_ce"])
        fields.append((b"Content-Encoding", CE_HEADER[t["req_ce"]]))
    if raw is not None and (raw or method in ("POST", "PUT", "PATCH")):
        fields.append((b"Content-Length", str(len(raw)).encode()))
    path = PATHS[t["path"]]
    if method == "CONNECT":
        req = http.Request(host, port, b"CONNECT", b"", authority, b"", version.encode(), http.Headers(fields), raw, None, T0, T0 + 1)
    else:
        req = http.Request(host, port, method.encode(), scheme.encode(), authority, path, version.encode(),
                           http.Headers(fields), raw, None, T0, T0 + 1)
    f = tflow.tflow(req=req)
    f.id = "flow-%d" % n
    if t["peer"] == "none":
        f.server_conn.peername = None  # no serverIPAddress in the entry
    partial = t["timestamps"] == "partial"
    if partial:
        # the exporter's "unknown timing" branches
        f.request.timestamp_end = None
        f.server_conn.timestamp_tcp_setup = None
        f.server_conn.timestamp_tls_setup = None
    exp = {
        "method": method,
        "version": version,
        "req_fields": list(fields),
        "req_body": body,
        "req_coded": t["req_ce"] != "none" and body is not None,
        "has_response": t["resp"] in ("present", "websocket"),
    }
    if t["resp"] == "absent_error":
        f.error = mflow.Error("connection reset", T0 + 2)
    if exp["has_response"]:
        ws = t["resp"] == "websocket"
        status = 101 if ws else t["status"]
        rfields = []
        if ws:
            rfields += [(b"Connection", b"upgrade"), (b"Upgrade", b"websocket")]
        rfields += RESP_HDR_SETS[t["resp_hdrs"]]
        rbody = RESP_BODIES[t["resp_body"]]
        rct = CTYPES[t["resp_ctype"]]
        if rct:
            rfields.append((b"Content-Type", rct.encode()))
        rraw = rbody
        if rbody is not None and t["resp_ce"] != "none":
            rraw = compress(rbody, t["resp_ce"])
            rfields.append((b"Content-Encoding", CE_HEADER[t["resp_ce"]]))
        if t["resp_framing"] == "content_length" and rraw is not None:
            rfields.append((b"Content-Length", str(len(rraw)).encode()))
        elif t["resp_framing"] == "chunked":
            rfields.append((b"Transfer-Encoding", b"chunked"))
        f.response = http.Response(version.encode(), status, status_codes.RESPONSES.get(status, "").encode(),
                                   http.Headers(rfields), rraw, None, T0 + 2, T0 + 3)
        if ws:
            f.websocket = tflow.twebsocket()
        if partial:
            f.response.timestamp_end = None
        decodable = t["resp_ce"] not in ("unknown", "gzip_corrupt")
        exp.update({
            "status": status,
            "resp_fields": list(rfields),
            "resp_body": rbody if decodable else rraw,
            "resp_coded": t["resp_ce"] != "none" and rbody is not None,
        })
    return f, exp


def url_of(spec):
    """the URL the flow was built for, computed here (not by mitmproxy)"""
    t = tokens(spec)
    scheme = t["scheme"]
    port = {"http": 80, "https": 443}[scheme] if t["port"] == "default" else 8080
    host = "example.com" if t["host"] == "name" else "192.0.2.7"
    if t["hosthdr"] == "differs" and t["method"] != "CONNECT":
        host = "other.example"
    hostport = host if t["port"] == "default" else "%s:%d" % (host, port)
    return "%s://%s%s" % (scheme, hostport, PATHS[t["path"]].decode())


# ---------------------------------------------------------------------------
# oracle


def norm_version(v):
    return "HTTP/2.0" if v == "HTTP/2" else v


def hdr_filter(fields, drop):
    return [(bytes(k), bytes(v)) for k, v in fields if bytes(k).lower() not in drop]


def differs_in(a, b):
    """names (lower-case) of the header fields in which two field lists differ: a coarse feature"""
    if a == b:
        return {}
    la, lb = [k.lower() for k, _ in a], [k.lower() for k, _ in b]
    names = {k.decode("latin-1") for k in set(la) ^ set(lb)}
    names |= {k.lower().decode("latin-1") for (k, v), (k2, v2) in zip(a, b) if (k, v) != (k2, v2)}
    return {"differs_in": ",".join(sorted(names))[:60] or "order"}


def feats(clause, spec, **extra):
    rel = RELEVANT[clause]
    d = {k: spec[k] for k in rel if k in spec}
    d.update(extra)
    return d


def call(fn, *a):
    try:
        return fn(*a), None
    except KeyboardInterrupt:
        raise
    except BaseException as e:  # noqa
        return None, "%s: %s" % (type(e).__name__, str(e)[:300])


def reset_caches():
    mencoding._cache = mencoding.CachedDecode(None, None, None, None)


def export(flows):
    """the real save path: the save.har command (SaveHar.export_har) writes the file, incl. the final
    serialisation of the HAR document to bytes; the bytes of that file are what gets imported"""
    path = os.path.join(scratch_dir(), "s-%d.har" % os.getpid())
    try:
        SaveHar().export_har(flows, path)
        with open(path, "rb") as fh:
            return fh.read()
    finally:
        if os.path.exists(path):
            os.unlink(path)


def compare(spec, f, exp, g, t: Tally, case):
    """the clauses of the statement for one exported flow f and the imported flow g"""
    J = lambda clause, cond, e=None, o=None, **extra: t.judge(clause, cond, feats(clause, spec, **extra), case, e, o)  # noqa: E731
    J("method_equal", g.request.method == exp["method"], exp["method"], g.request.method)
    tk = tokens(spec)
    if tk["method"] == "CONNECT":
        # authority-form: the exporter documents https://<authority>/ as the URL it writes
        t.note("CONNECT flows: URL clause not judged (no URL in authority-form)")
    else:
        want = url_of(spec)
        got = g.request.pretty_url if tk["hosthdr"] == "differs" else g.request.url
        J("url_equal", got == want, want, got)
    J("http_version_equal", norm_version(g.request.http_version) == norm_version(exp["version"]), exp["version"], g.request.http_version, side="request")
    drop = {b"content-length"}
    if exp["req_coded"]:
        drop = drop | {b"content-encoding"}
    if tk["method"] == "CONNECT":
        # the exporter synthesises https://<authority>/ for authority-form requests; the Host header follows that URL on import
        drop = drop | {b"host"}
    a = hdr_filter(exp["req_fields"], drop)
    b = hdr_filter(g.request.headers.fields, drop)
    J("request_headers_equal", a == b, a, b, **differs_in(a, b))
    if exp["method"] in ("POST", "PUT", "PATCH") and exp["req_body"] is None:
        t.note("request body missing (not captured): there is no body to compare")
    elif exp["method"] in ("POST", "PUT", "PATCH"):
        got, exc = call(g.request.get_content, False)
        J("request_body_equal", exc is None and got == exp["req_body"], exp["req_body"], exc or got)
    if not exp["has_response"]:
        return
    if g.response is None:
        J("status_equal", False, exp["status"], None)
        return
    J("status_equal", g.response.status_code == exp["status"], exp["status"], g.response.status_code)
    J("http_version_equal", norm_version(g.response.http_version) == norm_version(exp["version"]), exp["version"], g.response.http_version, side="response")
    drop = set()
    if exp["resp_coded"]:
        drop = {b"content-encoding", b"content-length"}
    a = hdr_filter(exp["resp_fields"], drop)
    b = hdr_filter(g.response.headers.fields, drop)
    J("response_headers_equal", a == b, a, b, **differs_in(a, b))
    if exp["resp_body"] is None:
        t.note("response body missing (not captured): there is no decoded body to compare")
    else:
        got, exc = call(g.response.get_content, False)
        J("decoded_response_body_equal", exc is None and got == exp["resp_body"], exp["resp_body"], exc or got)


def one_case(spec, t: Tally):
    case = {"flow": spec}
    reset_caches()
    f, exp = build_flow(spec)
    # harness sanity: the flow really is what the spec says (otherwise the oracle would compare against fiction)
    if f.request.method != "CONNECT" and tokens(spec)["hosthdr"] != "differs" and f.request.url != url_of(spec):
        raise HarnessError("builder/url_of disagree: %r vs %r" % (f.request.url, url_of(spec)))
    data, exc = call(export, [f])
    if not t.judge("export_succeeds", exc is None, feats("export_succeeds", spec), case, None, exc):
        t.case(None, nontrivial=False)
        return
    flows, exc = call(lambda: list(FlowReader(io.BytesIO(data)).stream()))
    ok = exc is None and len(flows) == 1 and isinstance(flows[0], http.HTTPFlow)
    if not t.judge("import_succeeds", ok, feats("import_succeeds", spec), case, "1 flow", exc or len(flows)):
        t.case(None, nontrivial=True, key=case)
        t.outcome(["import_failed", (exc or "")[:40]])
        return
    g = flows[0]
    compare(spec, f, exp, g, t, case)
    t.case(case if len(spec) == 2 else None, nontrivial=True, key=case)
    t.outcome([g.request.method, g.request.http_version, g.request.scheme, g.request.port,
               g.response.status_code if g.response else None,
               g.response.http_version if g.response else None,
               len(g.request.headers.fields), len(g.response.headers.fields) if g.response else None,
               g.request.raw_content, g.response.raw_content if g.response else None])


def chunk_cases(chunk):
    t = Tally()
    for spec in chunk:
        one_case(spec, t)
    return t


# ---------------------------------------------------------------------------
# multi-flow files (order)

POOL = [
    {},
    {"method": "POST", "req_body": "form", "req_ctype": "form", "path": "query"},
    {"scheme": "https", "port": "explicit", "resp_body": "binary", "resp_ctype": "png", "status": 404},
    {"resp": "absent_error", "path": "root"},
    {"resp": "websocket", "path": "escaped"},
    {"resp_ce": "gzip", "resp_body": "utf8", "resp_ctype": "text_utf8", "path": "query_dup"},
    "tcp",
    "same_server",
]
_SCRATCH = None


def scratch_dir():
    """created by the parent process (run / replay) before any worker is forked; workers inherit the path
    and only create and unlink their own file in it; the parent removes the directory"""
    global _SCRATCH
    if _SCRATCH is None or not os.path.isdir(_SCRATCH):
        _SCRATCH = "/dev/shm/vmc-%d-c41" % os.getpid()
        os.makedirs(_SCRATCH, exist_ok=True)
        atexit.register(shutil.rmtree, _SCRATCH, True)
    return _SCRATCH


def drop_scratch():
    global _SCRATCH
    if _SCRATCH is not None:
        shutil.rmtree(_SCRATCH, True)
        _SCRATCH = None


def ts_order(ts):
    """coarse class of a start-time assignment (list order = export order)"""
    if len(ts) < 2:
        return "single"
    if len(set(ts)) == 1:
        return "all_equal"
    if all(a < b for a, b in zip(ts, ts[1:])):
        return "ascending"
    if all(a <= b for a, b in zip(ts, ts[1:])):
        return "ascending_with_ties"
    if all(a > b for a, b in zip(ts, ts[1:])):
        return "descending"
    if all(a >= b for a, b in zip(ts, ts[1:])):
        return "descending_with_ties"
    return "non_monotonic"


def one_file(item, t: Tally):
    """item = [pool indices] (start times ascending with the position) or
    {"file": [pool indices], "ts": [start-time rank per position]}: the list order is the exported order,
    the start times are independent of it (completion order, user-ordered selections, equal times)"""
    if isinstance(item, dict):
        seq, ts = list(item["file"]), item.get("ts")
    else:
        seq, ts = list(item), None
    if ts is None:
        ts = list(range(len(seq)))
    case = {"file": seq, "ts": list(ts)}
    reset_caches()
    flows, specs = [], []
    shared = None
    for n, idx in enumerate(seq):
        entry = POOL[idx]
        if entry == "tcp":
            flows.append(tflow.ttcpflow())
            continue
        spec = {} if entry == "same_server" else dict(entry)
        spec = dict(spec, path=["plain", "query", "query_dup", "escaped", "root"][n] if "path" not in spec else spec["path"])
        f, exp = build_flow(spec, n, start=ts[n], seq=n)
        if entry == "same_server" or idx == 0:
            # pool flows 0 and "same_server" share one server connection object (the exporter's servers_seen branch)
            if shared is None:
                shared = f.server_conn
            f.server_conn = shared
        flows.append(f)
        specs.append((spec, f, exp, n))
    path = os.path.join(scratch_dir(), "f-%d.har" % os.getpid())
    fe = {"n_flows": len(seq), "has_non_http": any(POOL[i] == "tcp" for i in seq),
          "start_times": ts_order([ts[n] for _, _, _, n in specs])}
    _, exc = call(SaveHar().export_har, flows, path)
    if not t.judge("export_succeeds", exc is None, fe, case, None, exc):
        t.case(None, nontrivial=False)
        return
    got, exc = call(read_flows_from_paths, [path])
    if os.path.exists(path):
        os.unlink(path)
    ok = exc is None and len(got) == len(specs)
    if not t.judge("import_succeeds", ok, fe, case, "%d flows" % len(specs), exc or len(got)):
        t.case(None, nontrivial=True, key=case)
        return
    # the imported order must be the order of the exported *list* (each flow carries its list position in X-Seq)
    want = [(str(n), e["method"], url_of(s)) for s, f, e, n in specs]
    have = [(g.request.headers.get("X-Seq", "?"), g.request.method, g.request.url) for g in got]
    in_order = t.judge("order_kept", want == have, fe, case, want, have)
    if in_order:
        pairs = list(zip(specs, got))
    else:
        # judge the per-flow clauses on the flows that belong together, so that a reordering is reported once
        by_seq = {g.request.headers.get("X-Seq", "?"): g for g in got}
        pairs = [(s, by_seq[str(s[3])]) for s in specs if str(s[3]) in by_seq] if len(by_seq) == len(got) else []
    for (spec, f, exp, n), g in pairs:
        compare(spec, f, exp, g, t, case)
    t.case(case if len(seq) == 3 and len(t.samples) < 1 else None, nontrivial=len(specs) > 0, key=case)
    t.outcome(["file", fe["start_times"], have])


def chunk_files(chunk):
    t = Tally()
    for seq in chunk:
        one_file(seq, t)
    return t


# ---------------------------------------------------------------------------
# enumeration


def deviations(k):
    """all specs with at most k dimensions deviating from BASE, simplest first"""
    dims = list(DIMS)
    yield {}
    for r in range(1, k + 1):
        for combo in itertools.combinations(dims, r):
            for vals in itertools.product(*[DIMS[d][1:] for d in combo]):
                yield dict(zip(combo, vals))


def products():
    """full products of the two body groups (beyond the deviation bound)"""
    for b, c, e in itertools.product(DIMS["resp_body"], DIMS["resp_ctype"], DIMS["resp_ce"]):
        for v in ("HTTP/1.1", "HTTP/2.0"):
            yield {"resp_body": b, "resp_ctype": c, "resp_ce": e, "version": v}
    for m in ("POST", "PUT", "PATCH"):
        for b, c, e in itertools.product(DIMS["req_body"], DIMS["req_ctype"], DIMS["req_ce"]):
            yield {"method": m, "req_body": b, "req_ctype": c, "req_ce": e}


def canon(spec):
    return {k: v for k, v in spec.items() if BASE[k] != v}


def products_plus_one():
    """thorough only: every body-group product combined with every single deviation of any other dimension"""
    for p in products():
        for d in DIMS:
            if d in p:
                continue
            for v in DIMS[d][1:]:
                q = dict(p)
                q[d] = v
                yield q


def all_specs(k, plus_one=False):
    seen = set()
    out = []
    for spec in itertools.chain(deviations(k), products(), products_plus_one() if plus_one else ()):
        spec = canon(spec)
        key = json.dumps(spec, sort_keys=True)
        if key not in seen:
            seen.add(key)
            out.append(spec)
    return out


def weak_orderings(n):
    """all start-time assignments for n list positions up to order-isomorphism (dense ranks), ascending first"""
    out = []
    for ts in itertools.product(range(n), repeat=n):
        ranks = sorted(set(ts))
        dense = [ranks.index(x) for x in ts]
        if dense == list(ts):
            out.append(list(ts))
    asc = list(range(n))
    out.sort(key=lambda ts: (ts != asc, ts))
    return out


def run(ctx):
    k = ctx.pick(2, 3)
    maxfile = 3
    specs = all_specs(k, plus_one=ctx.thorough)
    seqs = [list(s) for n in range(1, maxfile + 1) for s in itertools.product(range(len(POOL)), repeat=n)]
    if not ctx.thorough:
        # quick: in files of 3 the second and third flow come from the first 5 pool entries only
        seqs = [s for s in seqs if len(s) < 3 or all(i < 5 for i in s[1:])]
    # the exported list order is independent of the flows' start times: every weak ordering of the start
    # times (ascending, descending, equal, ties, non-monotonic) is combined with the flow selections
    files = []
    for s in seqs:
        for ts in weak_orderings(len(s)):
            ascending = ts == list(range(len(s)))
            if ascending or ctx.thorough or len(s) < 3 or all(i < 4 for i in s):
                files.append({"file": s, "ts": ts})
    ctx.bounds = {
        "max_simultaneous_deviations": k,
        "dimensions": {d: [str(x) for x in v] for d, v in DIMS.items()},
        "body_group_products": "resp_body x resp_ctype x resp_ce x {HTTP/1.1, HTTP/2.0}; {POST,PUT,PATCH} x req_body x req_ctype x req_ce"
        + ("; each product also combined with every single deviation of every other dimension" if ctx.thorough else ""),
        "files": "ordered selections of 1..%d flows from a pool of %d%s, each with every weak ordering of the start times (3 for 2 flows, 13 for 3 flows%s)" % (
            maxfile, len(POOL), "" if ctx.thorough else " (files of 3: positions 2,3 from the first 5 pool entries)",
            "" if ctx.thorough else "; for 3 flows only selections from the first 4 pool entries, ascending otherwise"),
        "n_flow_cases": len(specs),
        "n_files": len(files),
    }
    ctx.log("%d flow cases (<=%d deviations + body products), %d files" % (len(specs), k, len(files)))
    # one pool invocation for both kinds of case (a fork per worker is the dominant fixed cost on a loaded machine)
    items = [("flow", s) for s in specs] + [("file", s) for s in files]
    scratch_dir()
    try:
        par.pmap_tally(chunk_mixed, items, ctx.tally)
    finally:
        drop_scratch()
    ctx.log("done: %d evaluations, %d distinct outcomes" % (ctx.tally.evaluations, len(ctx.tally.outcomes)))


def chunk_mixed(chunk):
    t = Tally()
    for kind, item in chunk:
        if kind == "flow":
            one_case(item, t)
        else:
            one_file(item, t)
    return t


def replay(case, t: Tally, verbose=False):
    if "file" in case:
        scratch_dir()
        try:
            one_file(case, t)
        finally:
            drop_scratch()
        return
    spec = case["flow"]
    scratch_dir()
    try:
        if verbose:
            print("  spec:", spec)
            f, exp = build_flow(spec)
            data, exc = call(export, [f])
            if exc:
                print("  export raised:", exc)
            else:
                entry = json.loads(data)["log"]["entries"][0]
                print("  exported request.httpVersion=%r response.httpVersion=%r url=%r" % (
                    entry["request"]["httpVersion"], entry["response"]["httpVersion"], entry["request"]["url"]))
                flows, exc = call(lambda: list(FlowReader(io.BytesIO(data)).stream()))
                if exc:
                    print("  import raised:", exc)
                else:
                    g = flows[0]
                    print("  imported: %s %s %s headers=%r" % (g.request.method, g.request.url, g.request.http_version, g.request.headers.fields))
                    if g.response:
                        print("  imported response: %s %s headers=%r body=%r" % (
                            g.response.status_code, g.response.http_version, g.response.headers.fields, g.response.raw_content))
        one_case(spec, t)
    finally:
        drop_scratch()
