"""C51 - escaped binary text converts back to the same bytes, no raw control characters.

Engine E, exhaustive: every byte string of length <= 2 over the full byte alphabet, every
string up to a length bound over a 16-symbol alphabet made of the characters the
escaping code treats specially (one symbol per branch of `bytes_to_escaped_str` and of
the two regular expressions), and long strings over a 4-symbol alphabet that exercises
the backslash-parity logic of the regexes.  Every string is run with all four
(keep_spacing, escape_single_quotes) combinations on the real functions.
"""
from __future__ import annotations

import itertools
import re

from mitmproxy.utils import strutils

from vmc import par
from vmc.tally import HarnessError, Tally

META = {
    "level": "exploration",
    "technique": "bounded-exhaustive enumeration of byte strings x option combinations on the real "
                 "bytes_to_escaped_str / escaped_str_to_bytes pair",
    "claim": "every byte string inside the stated bound round-trips and its escaped form carries no raw control "
             "character other than the kept TAB/LF/CR; exploration level because the property quantifies over "
             "inputs only (no state, no schedule)",
    "rule": "a case is one byte string evaluated under all four (keep_spacing, escape_single_quotes) combinations; "
            "non-trivial = the escaped form differs from the latin-1 transliteration of the bytes for at least one "
            "combination (an escape or a kept spacing character was produced); distinct by byte string",
    "assumptions": [
        "strings longer than the bound and strings needing three or more distinct bytes outside the 16-symbol alphabet "
        "are not covered; the escaping is byte-local except for backslash runs, which the 4-symbol deep alphabet covers "
        "up to the stated length",
        "control character = Unicode category Cc (U+0000-U+001F, U+007F-U+009F)",
    ],
}

# one symbol per special case visible in strutils.py: the escape character, both quotes
# (the implementation prepends a double quote to steer repr()), the letters that form the
# escapes that are re-written (n r t) or produced (x, hex digit 0), the three kept
# characters, other C0 controls (NUL), DEL, first and last high byte, one plain letter.
ALPHA16 = [b"\\", b"'", b'"', b"n", b"r", b"t", b"x", b"0", b"\n", b"\r", b"\t", b"\x00", b"\x7f", b"\x80", b"\xff", b"a"]
# backslash-run parity against quote / n / raw newline
ALPHA4 = [b"\\", b"'", b"n", b"\n"]

OPTS = [(False, False), (False, True), (True, False), (True, True)]
KEPT = "\t\n\r"
_ESC_RE = re.compile(r"\\(.)", re.S)
_seen_outcomes: set = set()  # per worker process; only avoids re-hashing an outcome class already counted


def is_control(ch: str) -> bool:
    o = ord(ch)
    return o < 0x20 or 0x7F <= o <= 0x9F


_CTRL = re.compile("[\x00-\x1f\x7f-\x9f]")
_CTRL_BUT_KEPT = re.compile("[\x00-\x08\x0b\x0c\x0e-\x1f\x7f-\x9f]")  # same minus TAB, LF, CR


_BS2_SQ = re.compile(rb"\\\\'")
_BS2_SP = re.compile(rb"\\\\[\t\n\r]")


def features(data: bytes, ks: bool, esq: bool) -> dict:
    """coarse trigger class of the case (used to group violations and to match known findings)"""
    parts = []
    if b"\\" in data:
        parts.append("backslash")
    if b"'" in data:
        parts.append("squote")
    if any(c in data for c in b"\t\n\r"):
        parts.append("spacing")
    if any((c < 0x20 and c not in b"\t\n\r") or c >= 0x7F or c == 0x22 for c in data):
        parts.append("other")
    return {
        "keep_spacing": ks,
        "escape_single_quotes": esq,
        "content": "+".join(parts) or "plain",
        # a run of two or more backslashes directly in front of a character whose escape is re-written
        "bs2_before_squote": bool(_BS2_SQ.search(data)),
        "bs2_before_spacing": bool(_BS2_SP.search(data)),
    }


def one(data: bytes, t: Tally, sample=False, verbose=False):
    plain = data.decode("latin-1")
    nontrivial = False
    for ks, esq in OPTS:
        feats = None
        case = {"data": data, "keep_spacing": ks, "escape_single_quotes": esq}
        try:
            esc = strutils.bytes_to_escaped_str(data, ks, esq)
        except KeyboardInterrupt:
            raise
        except BaseException as e:
            feats = features(data, ks, esq)
            t.bad("roundtrip", feats, case, data, "bytes_to_escaped_str raised %s: %s" % (type(e).__name__, e))
            continue
        if verbose:
            print("  keep_spacing=%s escape_single_quotes=%s escaped=%r" % (ks, esq, esc))
        if not isinstance(esc, str):
            feats = features(data, ks, esq)
            t.bad("roundtrip", feats, case, "a str", repr(type(esc)))
            continue
        if esc != plain:
            nontrivial = True
        # clause 1: converts back to exactly the same bytes
        try:
            back = strutils.escaped_str_to_bytes(esc)
            err = None
        except KeyboardInterrupt:
            raise
        except BaseException as e:
            back = None
            err = "%s: %s" % (type(e).__name__, e)
        if back == data and type(back) is bytes:
            t.ok("roundtrip")
        else:
            feats = features(data, ks, esq)
            t.bad("roundtrip", feats, case, data, {"escaped": esc, "back": back if err is None else err})
        if verbose:
            print("    back=%r" % (back if err is None else err,))
        # clause 2: no raw control characters other than TAB/LF/CR kept on request
        # (fast path: one regex search; the explicit scan only runs to report)
        if (_CTRL_BUT_KEPT if ks else _CTRL).search(esc) is None:
            offending = []
        else:
            offending = [c for c in esc if is_control(c) and not (ks and c in KEPT)]
        if not offending:
            t.ok("no_raw_control_chars_except_kept")
        else:
            feats = feats or features(data, ks, esq)
            t.bad("no_raw_control_chars_except_kept", feats, case, None, {"escaped": esc, "offending": offending[:4]})
        # outcome class = which escape forms were produced (and which raw characters were kept)
        oc = "".join(sorted(set(_ESC_RE.findall(esc)) | {c for c in esc if c in KEPT}))
        oc = "%d%d:%s" % (ks, esq, oc)
        if oc not in _seen_outcomes:
            _seen_outcomes.add(oc)
            t.outcome(oc)
    t.case({"data": data} if sample else None, nontrivial=nontrivial, key=data.hex())


FULL = [bytes([a]) for a in range(256)]
FAMILIES = {"full": FULL, "a16": ALPHA16, "a4": ALPHA4}
SPLIT = 4096  # a task enumerates at most this many strings: the parent deals tasks, workers spell the strings out


def gen_tasks(n16, n4):
    """a task = (family, length, prefix): all strings of that length over the family's alphabet that start with the
    prefix. Canonical simplest-first order; de-duplicated by construction (a later family only takes lengths an
    earlier family did not produce: full alphabet 0-2, 16 symbols 3..n16, 4 symbols n16+1..n4)."""
    assert set(ALPHA4) <= set(ALPHA16)
    plan = [("full", n) for n in range(0, 3)] + [("a16", n) for n in range(3, n16 + 1)] + \
           [("a4", n) for n in range(max(3, n16 + 1), n4 + 1)]
    for fam, n in plan:
        k = len(FAMILIES[fam])
        plen = 0
        while k ** (n - plen) > SPLIT and plen < n:
            plen += 1
        for prefix in itertools.product(range(k), repeat=plen):
            yield [fam, n, list(prefix)]


def expand(task):
    fam, n, prefix = task
    alpha = FAMILIES[fam]
    head = b"".join(alpha[i] for i in prefix)
    for tup in itertools.product(alpha, repeat=n - len(prefix)):
        yield head + b"".join(tup)


def count(task):
    fam, n, prefix = task
    return len(FAMILIES[fam]) ** (n - len(prefix))


def chunk_fn(chunk):
    t = Tally()
    for j, task in enumerate(chunk):
        for i, data in enumerate(expand(task)):
            one(data, t, sample=(i == 0 and j == len(chunk) // 2 and len(data) >= 3))
    return t


def run(ctx):
    n16 = ctx.pick(4, 5)
    n4 = ctx.pick(8, 10)
    ctx.bounds = {
        "full_byte_alphabet_max_len": 2,
        "alphabet16": [a.decode("latin-1").encode("unicode_escape").decode() for a in ALPHA16],
        "alphabet16_max_len": n16,
        "alphabet4": [a.decode("latin-1").encode("unicode_escape").decode() for a in ALPHA4],
        "alphabet4_max_len": n4,
        "options": "all 4 (keep_spacing, escape_single_quotes) combinations per string",
    }
    for o in range(0x120):  # the two fast-path regexes must agree with the definition
        c = chr(o)
        if bool(_CTRL.search(c)) != is_control(c) or bool(_CTRL_BUT_KEPT.search(c)) != (is_control(c) and c not in KEPT):
            raise HarnessError("control-character regex disagrees with is_control at U+%04X" % o)
    tasks = list(gen_tasks(n16, n4))
    total = sum(count(tk) for tk in tasks)
    ctx.log("%d byte strings x 4 option combinations in %d tasks" % (total, len(tasks)))
    # quick is ~5 s of CPU: in-process (forking the pool costs more than it saves on a loaded machine);
    # thorough goes to 8 workers, one fork each
    if ctx.thorough:
        par.pmap_tally(chunk_fn, tasks, ctx.tally, nchunks=8, nproc=8)
    else:
        par.pmap_tally(chunk_fn, tasks, ctx.tally, nproc=1)
    if ctx.tally.evaluations != total:
        raise HarnessError("enumerated %d strings, expected %d" % (ctx.tally.evaluations, total))
    ctx.info["byte_strings"] = total
    ctx.info["option_combinations_evaluated"] = total * 4


def replay(case, t: Tally, verbose=False):
    data = case["data"]
    if verbose:
        print("  data=%r" % (data,))
    one(data, t, verbose=verbose)
