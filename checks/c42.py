"""C42 - filter expressions mean what the documented grammar says.

Engine E over programs.  Two parts, both on the real `flowfilter.parse` and the callables it returns:

  atoms   every documented operator x a list of regexes (plain, other case, anchored, alternation, dot)
          x the quoting forms the docs allow (unquoted / "..." / '...') on eleven flows of every type,
          judged against an independent evaluation of "case-insensitive Python regex applied to the
          documented part of the flow" (only where the documentation defines that part);
  trees   every expression tree up to a depth bound over {!, &, |, juxtaposition} and a set of atoms,
          rendered in four concrete syntaxes, parsed, evaluated on the ten flows and compared with a
          reference evaluation of the *tree* under the documented precedence (! > & = juxtaposition > |,
          "the default binary operator is &").

The documented semantics were taken from docs/src/content/concepts/filters.md and the table generated
from flowfilter.help.
"""
from __future__ import annotations

import gc
import re

from mitmproxy import flowfilter
from mitmproxy import http
from mitmproxy.test import tflow
from mitmproxy.test import tutils

from vmc import par
from vmc.tally import HarnessError, Tally

META = {
    "level": "exploration",
    "technique": "bounded-exhaustive enumeration of filter programs (expression trees x concrete syntaxes) and of operator x "
                 "regex x quoting atoms, each parsed by the real flowfilter.parse and evaluated on a fixed set of eleven flows "
                 "against a reference evaluator with the documented precedence and regex semantics",
    "claim": "every expression tree up to the depth bound, in each of four renderings, is accepted and has on every flow the "
             "verdict the documented precedence gives; every documented operator applies a case-insensitive Python regex to "
             "the documented part of the flow; program-quantified, so exhaustive enumeration of trees is the fitting level",
    "rule": "a case is one rendered expression string (distinct string = distinct case); non-trivial when it contains at "
            "least one operator (trees) or, for atoms, when the reference verdict is not the same on all flows",
    "assumptions": [
        "documented precedence: filters.md says `The default binary operator is &`, so juxtaposition is read as & ; "
        "& binds tighter than | and ! tighter than both (property statement)",
        "where the documentation does not say which part of a non-HTTP flow an operator looks at (e.g. ~b on TCP, ~u on DNS, "
        "~q on TCP) the operator's own stand-alone verdict is used as the atom's truth value inside trees, and the atom "
        "sweep does not judge it",
        "quoted regexes are kept free of backslashes and of the quote character: the quoted form has an (undocumented but "
        "unit-tested) escape layer, so its meaning for such strings is not fixed by the documentation",
        "spaces are only removed next to parentheses and after `!` (documented reserved characters); `a&b` / `~q|~s` are not "
        "demanded because & | ! are not reserved and may legitimately be part of an unquoted regex",
        "~d / ~u on a flow whose Host header differs from the request host: a regex matching the request host (resp. both "
        "spellings of the URL) must match, one matching neither must not; matching only the Host header is not judged",
        "~src / ~dst are judged on the text `address:port` of the client peer / server address with regexes that do not "
        "depend on the separator",
        "message bodies are free of newlines and content-encodings, Host headers equal the request host, so DOTALL / decoding / "
        "pretty_host cannot make a difference",
        "pyparsing's infix_notation is exponential in parenthesis nesting (about 10 ms per level-1 group, 1 s at level 3); "
        "this bounds the tree depth",
    ],
}

# ---------------------------------------------------------------------------
# the ten flows and the documented part each operator looks at


def _req(method, scheme, host, port, path, headers, body):
    return tutils.treq(method=method, scheme=scheme, host=host, port=port, path=path, authority=b"",
                       headers=http.Headers(headers), content=body)


def _resp(code, headers, body):
    return tutils.tresp(status_code=code, headers=http.Headers(headers), content=body)


def make_flows():
    fl = []
    fl.append(("http-get-noresp", tflow.tflow(
        req=_req(b"GET", b"http", "example.com", 80, b"/foo", [(b"X", b"y"), (b"Content-Type", b"text/plain")], b"abc"))))
    fl.append(("http-get-200", tflow.tflow(
        req=_req(b"GET", b"http", "example.com", 80, b"/a b", [(b"Accept", b"*/*")], b""),
        resp=_resp(200, [(b"Server", b"z"), (b"Content-Type", b"text/css")], b"xyz"))))
    fl.append(("http-post-404", tflow.tflow(
        req=_req(b"POST", b"https", "other.org", 443, b"/foo", [(b"Content-Type", b"application/json")], b"{}"),
        resp=_resp(404, [(b"X", b"y2"), (b"Content-Type", b"text/html")], b"data"))))
    fl.append(("http-error", tflow.tflow(
        req=_req(b"GET", b"http", "example.com", 8080, b"/path", [(b"X-Tok", b"hval")], b"reqbody"), err=True)))
    fl.append(("tcp", tflow.ttcpflow()))
    fl.append(("udp-error", tflow.tudpflow(err=True)))
    fl.append(("dns-noresp", tflow.tdnsflow()))
    fl.append(("dns-resp", tflow.tdnsflow(resp=True)))
    fl.append(("websocket", tflow.twebsocketflow()))
    f = tflow.tflow(
        req=_req(b"GET", b"http", "example.com", 80, b"/foo", [(b"X", b"y")], b"a"),
        resp=_resp(200, [(b"Content-Type", b"image/png")], b"respbody"))
    f.marked = ":default:"
    f.is_replay = "request"
    fl.append(("http-marked-replayed", f))
    # a flow on which every documented part differs from its look-alikes: Host header vs request host (transparent /
    # spoofed traffic), request vs response header lines, content types and bodies, client vs server address
    f = tflow.tflow(
        req=_req(b"GET", b"http", "192.168.0.9", 80, b"/foo",
                 [(b"Host", b"spoof.test"), (b"X-Tok", b"hval"), (b"Content-Type", b"application/json")], b"reqbody"),
        resp=_resp(200, [(b"X-Srv", b"sval"), (b"Content-Type", b"text/css")], b"respbody"))
    f.client_conn.peername = ("10.1.2.3", 50000)
    f.server_conn.address = ("192.168.0.9", 80)
    fl.append(("http-host-header-differs", f))
    return fl


def describe(name, f):
    """the facts about a flow, written down independently of flowfilter (from the constructor arguments)"""
    d = {"name": name, "kind": type(f).__name__, "error": f.error is not None, "marked": bool(f.marked),
         "replay": f.is_replay}
    d["src"] = "%s:%s" % tuple(f.client_conn.peername[:2]) if f.client_conn and f.client_conn.peername else None
    d["dst"] = "%s:%s" % tuple(f.server_conn.address[:2]) if f.server_conn and f.server_conn.address else None
    if d["kind"] == "HTTPFlow":
        r = f.request
        default = {"http": 80, "https": 443}[r.scheme]
        d["method"] = r.data.method.decode()
        d["host"] = r.data.host
        d["url"] = "%s://%s%s%s" % (r.scheme, r.data.host, "" if r.data.port == default else ":%d" % r.data.port,
                                    r.data.path.decode())
        d["qlines"] = [n.decode() + ": " + v.decode() for n, v in r.data.headers.fields]
        hh = [v.decode() for n, v in r.data.headers.fields if n.lower() == b"host"]
        d["host_header"] = hh[0] if hh else None
        d["url_by_host_header"] = d["url"].replace("://" + d["host"], "://" + hh[0], 1) if hh else d["url"]
        d["qbody"] = r.data.content
        d["has_response"] = f.response is not None
        d["status"] = f.response.data.status_code if f.response else None
        d["slines"] = [n.decode() + ": " + v.decode() for n, v in f.response.data.headers.fields] if f.response else []
        d["sbody"] = f.response.data.content if f.response else None
        d["websocket"] = f.websocket is not None
    elif d["kind"] == "DNSFlow":
        d["has_response"] = f.response is not None
    return d


def _rx(p, text):
    if isinstance(text, bytes):
        return re.search(p.encode(), text, re.IGNORECASE) is not None
    return re.search(p, text, re.IGNORECASE) is not None


def _ctype(lines):
    return [ln.split(": ", 1)[1] for ln in lines if ln.lower().startswith("content-type: ")]


ASSET = ["text/javascript", "application/x-javascript", "application/javascript", "text/css", "image/", "font/", "application/font-"]


def ref_atom(op, arg, d):
    """True / False, or None where the documentation does not define the operator for this kind of flow"""
    kind = d["kind"]
    if op == "~http":
        return kind == "HTTPFlow"
    if op == "~tcp":
        return kind == "TCPFlow"
    if op == "~udp":
        return kind == "UDPFlow"
    if op == "~dns":
        return kind == "DNSFlow"
    if op == "~websocket":
        return kind == "HTTPFlow" and d["websocket"]
    if op == "~all":
        return True
    if op == "~e":
        return d["error"]
    if op == "~marked":
        return d["marked"]
    if op == "~replay":
        return d["replay"] is not None
    if op == "~replayq":
        return d["replay"] == "request"
    if op == "~replays":
        return d["replay"] == "response"
    if op in ("~q", "~s"):
        if kind not in ("HTTPFlow", "DNSFlow"):
            return None
        return d["has_response"] == (op == "~s")
    if op in ("~src", "~dst"):
        text = d["src" if op == "~src" else "dst"]
        return _rx(arg, text) if text is not None else None
    if kind != "HTTPFlow":
        return None
    if op == "~c":
        return d["status"] == int(arg)
    if op == "~a":
        return any(any(c.startswith(a) for a in ASSET) for c in _ctype(d["slines"]))
    if op in ("~u", "bare"):
        # "request URL": with a differing Host header both spellings are a URL of the request; only judged when they agree
        a, b = _rx(arg, d["url"]), _rx(arg, d["url_by_host_header"])
        return a if a == b else None
    if op == "~d":
        # "request domain": a regex that matches the host the request goes to must match; one that matches neither that
        # host nor the Host header must not; matching the Host header alone is left open by the documentation
        if _rx(arg, d["host"]):
            return True
        return None if d["host_header"] is not None and _rx(arg, d["host_header"]) else False
    if op == "~m":
        return _rx(arg, d["method"])
    if op in ("~h", "~hq", "~hs"):
        lines = (d["qlines"] if op != "~hs" else []) + (d["slines"] if op != "~hq" else [])
        return any(_rx(arg, ln) for ln in lines)
    if op in ("~t", "~tq", "~ts"):
        vals = (_ctype(d["qlines"]) if op != "~ts" else []) + (_ctype(d["slines"]) if op != "~tq" else [])
        return any(_rx(arg, v) for v in vals)
    if op in ("~b", "~bq", "~bs"):
        bodies = ([d["qbody"]] if op != "~bs" else []) + ([d["sbody"]] if op != "~bq" and d["sbody"] is not None else [])
        if any(_rx(arg, b) for b in bodies):
            return True
        return None if d["websocket"] else False  # matching of websocket messages is not documented
    raise ValueError(op)


# ---------------------------------------------------------------------------
# atoms: (operator, argument or None, quoting) -> concrete text

UNARY = ["~q", "~s", "~e", "~http", "~tcp", "~udp", "~dns", "~websocket", "~marked", "~replay", "~replayq", "~replays", "~a", "~all"]
REXOPS = ["~u", "bare", "~d", "~m", "~h", "~hq", "~hs", "~t", "~tq", "~ts", "~b", "~bq", "~bs", "~src", "~dst"]
REGEXES = [
    "foo", "FOO", "/foo$", "^http://example", "example\\.com", "e.ample", "com$", "^example", "ex", "other|example",
    "GET", "get", "^get$", "G.T", "po?st", "[p]ost",
    "x: y", "X: Y", "^x: y$", "y$", "x-tok: hval", "hval$", "^content-type", "text/css", "TEXT/", "css$", "^image/png$",
    "a", "abc", "^abc$", "reqbody", "REQ.*BODY", "^data$", "respbody$", "a b", "f(o|x)o", "nomatch",
    # parts that only one of two look-alikes has (see the flow http-host-header-differs)
    "^192\\.168\\.", "168", "spoof", "spoof\\.test/foo", "sval", "x-srv", "json", "^respbody$",
    "10\\.1\\.2", "50000", "address", "127\\.0", "^192\\.168\\.0\\.1:",
]
CODES = ["200", "404", "20", "2000", "0200"]


def quote_forms(rx):
    """the ways the documentation allows this regex to be written"""
    forms = []
    if not any(c in rx for c in "()~'\" \t\r\n"):
        forms.append(("unquoted", rx))
    if "\\" not in rx and '"' not in rx:
        forms.append(("double", '"%s"' % rx))
    if "\\" not in rx and "'" not in rx:
        forms.append(("single", "'%s'" % rx))
    return forms


def rx_kind(rx):
    if rx.endswith("$"):
        return "anchored-end"
    if rx.startswith("^"):
        return "anchored-start"
    if rx != rx.lower() and rx != rx.upper():
        return "mixed-case"
    if rx == rx.upper() and rx != rx.lower():
        return "upper-case"
    if any(c in rx for c in ".|?[(*\\"):
        return "metachar"
    return "plain"


def atom_cases():
    out = []
    for u in UNARY:
        out.append({"op": u, "arg": None, "text": u, "quoting": "none"})
        out.append({"op": u, "arg": None, "text": " " + u + "  ", "quoting": "none"})
    for op in REXOPS:
        for rx in REGEXES:
            for qname, q in quote_forms(rx):
                for sep in ([" "] if qname != "unquoted" else [" ", "\t", "  "]):
                    text = q if op == "bare" else op + sep + q
                    out.append({"op": op, "arg": rx, "text": text, "quoting": qname})
    for c in CODES:
        out.append({"op": "~c", "arg": c, "text": "~c " + c, "quoting": "none"})
        out.append({"op": "~c", "arg": c, "text": "~c  " + c, "quoting": "none"})
    seen, uniq = set(), []
    for a in out:
        if a["text"] not in seen:
            seen.add(a["text"])
            uniq.append(a)
    return uniq


def call_filter(text, flows):
    """-> ("ok", [verdicts]) | ("rejected", msg) | ("exc", where, type, msg)"""
    try:
        flt = flowfilter.parse(text)
    except ValueError as e:
        return ["rejected", str(e)[:120]]
    except KeyboardInterrupt:
        raise
    except BaseException as e:
        return ["exc", "parse", type(e).__name__, str(e)[:120]]
    out = []
    for name, f in flows:
        try:
            v = flt(f)
        except KeyboardInterrupt:
            raise
        except BaseException as e:
            return ["exc", "call on " + name, type(e).__name__, str(e)[:120]]
        out.append(bool(v))
    return ["ok", out]


def run_atom(a, flows, descs, t: Tally):
    case = {"atom": a}
    feats = {"part": "atom", "op": a["op"], "rx_kind": rx_kind(a["arg"]) if a["op"] in REXOPS else "n/a", "quoting": a["quoting"]}
    res = call_filter(a["text"], flows)
    t.judge("accepted", res[0] == "ok", {"part": "atom", "op": a["op"], "quoting": a["quoting"], "juxt_in_parens": False,
                                         "code_touches_paren": False}, case, "parses", res)
    if res[0] != "ok":
        t.case(None, nontrivial=True, key=a["text"])
        return
    want = [ref_atom(a["op"], a["arg"], d) for d in descs]
    diff = {d["name"]: [w, g] for d, w, g in zip(descs, want, res[1]) if w is not None and w != g}
    t.judge("atom_matches_documented_part", not diff, feats, case, "[documented, observed] equal on every flow", diff)
    t.outcome(res[1])
    defined = [w for w in want if w is not None]
    t.case(case if len(t.samples) < 1 and a["quoting"] == "single" else None,
           nontrivial=len(set(defined)) > 1, key=a["text"])


# ---------------------------------------------------------------------------
# trees

TREE_ATOMS = [
    # (operator, argument, concrete text); order = DESIGN.md alphabet; the first entries form the reduced (core) sets
    ("~q", None, "~q"), ("bare", "foo", "foo"), ("~c", "200", "~c 200"), ("bare", "a b", '"a b"'), ("~m", "GET", "~m GET"),
    ("~e", None, "~e"), ("~s", None, "~s"), ("~http", None, "~http"), ("~tcp", None, "~tcp"), ("~dns", None, "~dns"),
    ("~u", "foo", "~u foo"), ("~h", "x: y", '~h "x: y"'), ("~b", "a", "~b a"), ("~d", "ex", "~d ex"), ("bare", "f(o|x)o", "'f(o|x)o'"),
]
UNARY_TEXTS = {t for op, arg, t in TREE_ATOMS if arg is None}
PREC = {"|": 1, "&": 2, "j": 2, "!": 3}
STYLES = ["min", "full", "wide", "tight"]


def trees(atom_ids, depth):
    """all trees of depth <= depth: atom | ["!", t] | [op, l, r] with op in & | j"""
    level = [i for i in atom_ids]
    allt = list(level)
    prev = list(level)
    for _ in range(depth - 1):
        new = [["!", x] for x in prev]
        for op in ("&", "|", "j"):
            for l in prev:
                for r in prev:
                    new.append([op, l, r])
        seen = {repr(x) for x in prev}
        prev = prev + [x for x in new if repr(x) not in seen]
        allt = prev
    return allt


def tokens(tree, style, parent=None, depth=0, info=None):
    """-> list of tokens; info collects juxt_in_parens / operators at paren depth 0"""
    if isinstance(tree, int):
        return [("atom", TREE_ATOMS[tree][2])]
    op = tree[0]
    if op == "!":
        inner = tree[1]
        need = not isinstance(inner, int) and (style == "full" or inner[0] != "!")
        toks = tokens(inner, style, "!", depth + (1 if need else 0), info)
        if need:
            toks = [("(", "(")] + toks + [(")", ")")]
        return [("!", "!")] + toks
    if op == "j" and depth > 0:
        info["juxt_in_parens"] = True
    if depth == 0:
        info["top_ops"].add(op)
    out = []
    for i, ch in enumerate(tree[1:]):
        if isinstance(ch, int):
            need = False
        elif style == "full":
            need = True
        elif ch[0] == "!":
            need = False
        else:
            need = PREC[ch[0]] < PREC[op]
        toks = tokens(ch, style, op, depth + (1 if need else 0), info)
        if need:
            toks = [("(", "(")] + toks + [(")", ")")]
        if i == 1 and op != "j":
            out.append((op, op))
        elif i == 1:
            out.append(("j", ""))
        out += toks
    return out


def render(tree, style):
    info = {"juxt_in_parens": False, "top_ops": set(), "code_touches_paren": False}
    toks = [t for t in tokens(tree, style, None, 0, info)]
    s = ""
    prev = None
    for kind, text in toks:
        if kind == "j":
            prev_j = True
            continue
        if prev is None:
            sep = ""
        elif prev[0] == "!":
            sep = " " if style == "wide" else ""
        elif style == "tight" and (prev[0] == "(" or kind == ")"):
            sep = ""
        elif style == "tight" and (prev[0] == ")" or kind == "(") and prev[0] not in "&|" and kind not in "&|":
            sep = ""
        elif style == "wide":
            sep = "  " if kind not in "&|" else " \t"
        else:
            sep = " "
        if sep == "" and prev is not None and prev[0] == "atom" and prev[1] in UNARY_TEXTS and kind in "()":
            info["code_touches_paren"] = True
        s += sep + text
        prev = (kind, text)
    return s, info


def ref_tree(tree, truth):
    if isinstance(tree, int):
        return truth[tree]
    if tree[0] == "!":
        return not ref_tree(tree[1], truth)
    l, r = ref_tree(tree[1], truth), ref_tree(tree[2], truth)
    return (l or r) if tree[0] == "|" else (l and r)


_ATOM_TRUTH = None


def atom_truth(flows, descs):
    """per flow: list of atom truth values (documented where defined, else the operator's own stand-alone verdict)"""
    global _ATOM_TRUTH
    if _ATOM_TRUTH is None:
        own = []
        for op, arg, text in TREE_ATOMS:
            res = call_filter(text, flows)
            own.append(res[1] if res[0] == "ok" else None)
        per_flow = []
        for fi, d in enumerate(descs):
            row = []
            for ai, (op, arg, text) in enumerate(TREE_ATOMS):
                w = ref_atom(op, arg, d)
                if w is None:
                    w = own[ai][fi] if own[ai] is not None else None
                row.append(w)
            per_flow.append(row)
        _ATOM_TRUTH = per_flow
    return _ATOM_TRUTH


def atoms_in(tree, acc):
    if isinstance(tree, int):
        acc.add(tree)
    else:
        for ch in tree[1:]:
            atoms_in(ch, acc)
    return acc


def run_tree(tree, style, flows, descs, t: Tally):
    text, info = render(tree, style)
    case = {"tree": tree, "style": style, "text": text}
    tops = info["top_ops"]
    res = call_filter(text, flows)
    t.judge("accepted", res[0] == "ok",
            {"part": "tree", "style": style, "juxt_in_parens": info["juxt_in_parens"], "code_touches_paren": info["code_touches_paren"]},
            case, "parses", res)
    compound = not isinstance(tree, int)
    if res[0] != "ok":
        t.outcome(res[:1])
        t.case(None, nontrivial=compound, key=text)
        return
    truth = atom_truth(flows, descs)
    used = atoms_in(tree, set())
    if any(truth[fi][a] is None for fi in range(len(descs)) for a in used):
        t.note("tree skipped: an atom is rejected stand-alone (reported by the atom sweep)")
        return
    want = [bool(ref_tree(tree, truth[fi])) for fi in range(len(descs))]
    diff = {d["name"]: [w, g] for d, w, g in zip(descs, want, res[1]) if w != g}
    t.judge("verdict_equals_reference", not diff,
            {"part": "tree", "style": style, "top_level_juxt_beside_or": ("j" in tops and "|" in tops)},
            case, "[documented, observed] equal on every flow", diff)
    t.outcome(res[1])
    t.case(case if len(t.samples) < 1 and style == "min" and "|" in text and "!" in text else None, nontrivial=compound, key=text)


_FLOWS = None


def flows_and_descs():
    global _FLOWS
    if _FLOWS is None:
        fl = make_flows()
        _FLOWS = (fl, [describe(n, f) for n, f in fl])
    return _FLOWS


def chunk(cases):
    t = Tally()
    flows, descs = flows_and_descs()
    for kind, payload in cases:
        if kind == "atom":
            run_atom(payload, flows, descs, t)
        else:
            run_tree(payload[0], payload[1], flows, descs, t)
    return t


def spine(atom_ids, depth):
    """trees of depth exactly `depth` with one deep branch: !T, op(T, atom), op(atom, T) for T of depth depth-1"""
    atom_ids = list(atom_ids)
    shallower = {repr(x) for x in trees(atom_ids, depth - 2)} if depth > 2 else set()
    deep = [x for x in trees(atom_ids, depth - 1) if repr(x) not in shallower]
    out = []
    for x in deep:
        out.append(["!", x])
        for op in ("&", "|", "j"):
            for a in atom_ids:
                out.append([op, x, a])
                out.append([op, a, x])
    return out


def equivalent(t1, t2):
    """truth-table equivalence under the documented semantics (used to validate the renderer: two trees may only
    share a rendering if they mean the same)"""
    ids = sorted(atoms_in(t1, set()) | atoms_in(t2, set()))
    for bits in range(1 << len(ids)):
        truth = {a: bool(bits >> i & 1) for i, a in enumerate(ids)}
        if ref_tree(t1, truth) != ref_tree(t2, truth):
            return False
    return True


def tree_cases(full_depth, core_sets, spines, adjacency=()):
    """-> [(tree, style)] with pairwise distinct rendered text, simplest first.
    full alphabet to depth full_depth in all styles, (n_atoms, depth, styles) extensions over the first n atoms,
    (n_atoms, depth, styles) one-deep-branch extensions"""
    seen = set()
    tl = []

    def add(ts, styles):
        for tr in ts:
            k = (repr(tr), styles)
            if k not in seen:
                seen.add(k)
                tl.append((tr, styles))
    add(trees(range(len(TREE_ATOMS)), full_depth), tuple(STYLES))
    for n, depth, styles in core_sets:
        add(trees(range(n), depth), tuple(styles))
    for n, depth, styles in spines:
        add(spine(range(n), depth), tuple(styles))
    if adjacency:
        # every kind of atom next to an opening and a closing parenthesis: !(A | B) for all pairs of atoms
        ids = range(len(TREE_ATOMS))
        add([["!", ["|", a, b]] for a in ids for b in ids], tuple(adjacency))
    by_text = {}
    out = []
    for tr, styles in tl:
        for st in styles:
            text, _ = render(tr, st)
            other = by_text.get(text)
            if other is None:
                by_text[text] = tr
                out.append((tr, st))
            elif other is not tr and repr(other) != repr(tr) and not equivalent(other, tr):
                raise HarnessError("renderer is ambiguous: %r stands for %r and %r" % (text, other, tr))
    return out, len({repr(tr) for tr, _ in tl})


def paren_depth(text):
    d = m = 0
    for c in text:
        if c == "(":
            d += 1
            m = max(m, d)
        elif c == ")":
            d -= 1
    return m


def run(ctx):
    # bounds follow the measured cost of a parse: ~0.6 ms without parentheses; with one level of parentheses ~10 ms on
    # an idle machine but 150-350 ms when the machine is busy (each parse maps/unmaps ~600 16 KB interpreter stack
    # chunks because pyparsing's recursion keeps crossing a chunk boundary); 4x that with two levels
    core = ctx.pick([(2, 3, ("min", "tight", "full"))], [(3, 3, ("min", "tight", "full")), (2, 3, ("wide",))])
    spines = ctx.pick([], [(1, 4, ("min",))])
    adjacency = ctx.pick(("tight",), tuple(STYLES))
    ctx.bounds = {
        "atoms_sweep": "%d unary operators, %d regex operators x %d regexes x allowed quoting forms, ~c x %d codes" % (
            len(UNARY), len(REXOPS), len(REGEXES), len(CODES)),
        "tree_operators": ["!", "&", "|", "juxtaposition", "( )"],
        "trees_full_alphabet": "all trees of depth <= 2 over %d atoms %r" % (len(TREE_ATOMS), [a[2] for a in TREE_ATOMS]),
        "trees_core": ["all trees of depth <= %d over the first %d atoms, renderings %s" % (d, n, list(st)) for n, d, st in core],
        "trees_paren_adjacency": "!(A | B) for all %d x %d atom pairs, renderings %s" % (len(TREE_ATOMS), len(TREE_ATOMS), list(adjacency)),
        "trees_one_deep_branch": ["depth %d over the first %d atoms (!T, T op atom, atom op T), renderings %s" % (d, n, list(st))
                                  for n, d, st in spines],
        "renderings": STYLES,
        "flows": [n for n, _ in make_flows()],
    }
    cases = [("atom", a) for a in atom_cases()]
    n_atoms = len(cases)
    tcases, ntrees = tree_cases(2, core, spines, adjacency)
    cases += [("tree", c) for c in tcases]
    ctx.log("cases: %d atoms, %d trees -> %d distinct rendered expressions" % (n_atoms, ntrees, len(tcases)))
    ctx.info["atom_cases"] = n_atoms
    ctx.info["trees"] = ntrees
    ctx.info["rendered_expressions"] = len(tcases)
    gc.collect()
    gc.freeze()  # keeps the forked workers from copying the parent's heap on every collection
    par.pmap_tally(chunk, cases, ctx.tally, nchunks=par.NPROC * 8)


def replay(case, t: Tally, verbose=False):
    flows, descs = flows_and_descs()
    if "atom" in case:
        run_atom(case["atom"], flows, descs, t)
        if verbose:
            print("  %r -> %s" % (case["atom"]["text"], call_filter(case["atom"]["text"], flows)))
        return
    run_tree(case["tree"], case["style"], flows, descs, t)
    if verbose:
        text, info = render(case["tree"], case["style"])
        print("  tree %r rendered (%s) as %r" % (case["tree"], case["style"], text))
        try:
            print("  parsed as:", flowfilter.parse(text))
        except ValueError as e:
            print("  rejected:", e)
        print("  flows:", [d["name"] for d in descs])
        print("  observed:", call_filter(text, flows))
