"""Breadth-first exploration with state merging that pays for few process pools.

`vmc.explore.bfs` forks a pool per level, which is fine for cheap systems with huge
levels but dominates the run time for World-based systems (a pool costs seconds on a
loaded machine).  Here the parent explores the first levels alone until the frontier is
wide enough, then deals the frontier to workers in a small number of *stages*; in every
stage each worker continues breadth-first for several levels with its own `seen` set
(seeded with everything seen so far), and the parent merges the workers' frontiers and
`seen` sets between stages.  A state reached by two workers within one stage is expanded
twice: sound, slightly wasteful.  States are counted through `Tally.state`
(de-duplicated across workers), transitions/executions as in explore.bfs.

Spec protocol (a state is the action history that reaches it, live objects are rebuilt):
    replay(hist) -> sys      fresh system with `hist` applied (the spec disposes older systems as needed;
                             at most one system is in use at any time)
    sys.actions() -> [action]   JSON-able, canonical order
    sys.apply(action)
    sys.fingerprint() -> JSON-able, everything that can influence the future or the oracle
    sys.check(tally)            step clauses / invariants, called after every transition
    sys.final(tally)            called on leaves (depth bound reached or no action enabled)
"""
from __future__ import annotations

import gc

from vmc import explore
from vmc import par
from vmc.tally import HarnessError, Tally, digest

_STATE = None


def _freeze():
    """move everything allocated so far out of the cyclic collector's reach: otherwise the first collection in every
    forked worker writes into each inherited object's GC header and copies the whole heap (seconds of page faults)"""
    gc.collect()
    gc.freeze()


def _expand_level(spec, frontier, depth, t: Tally, seen: set):
    nxt = []
    for hist, fp in frontier:
        s = spec.replay(hist)
        if fp is not None:
            got = digest(s.fingerprint())
            if got != fp:
                raise HarnessError("nondeterministic replay of %r: fingerprint differs" % (hist,))
        acts = s.actions()
        if len(hist) >= depth or not acts:
            s.final(t)
            t.executions += 1
            t.max_depth = max(t.max_depth, len(hist))
            continue
        for i, a in enumerate(acts):
            s2 = s if i == 0 else spec.replay(hist)
            s2.apply(a)
            t.transitions += 1
            s2.check(t)
            fp2 = digest(s2.fingerprint())
            t.state(fp2)
            if fp2 not in seen:
                seen.add(fp2)
                nxt.append((hist + (a,), fp2))
    return nxt


def _worker(chunk):
    spec, depth, seen0, stop = _STATE
    t = Tally()
    seen = set(seen0)
    frontier = list(chunk)
    while frontier and len(frontier[0][0]) < stop:
        frontier = _expand_level(spec, frontier, depth, t, seen)
    return t, frontier, seen - seen0


_DFS = None


def _dfs_worker(chunk):
    make_exec, bound = _DFS
    t = Tally()
    for key, prefix, used in chunk:
        explore._dev_rec(make_exec(key), prefix, used, bound(key) if callable(bound) else bound, t)
    return t


def dfs_dev_many(keys, make_exec, bound, tally: Tally, log=None, nchunks=None, selftest=2):
    """deviation-bounded DFS (explore._dev_rec) for many exec objects with ONE process pool:
    the parent runs every default execution, then deals (exec key, first deviation) subtrees to the workers.
    `make_exec(key)` builds the exec object (spec protocol of explore.dfs_dev); `bound` is an int or a function key -> int."""
    global _DFS
    tasks = []
    for n, key in enumerate(keys):
        ex = make_exec(key)
        b = bound(key) if callable(bound) else bound
        c1, w1, k1 = ex.run((), tally)
        if n < selftest:
            c2, w2, k2 = make_exec(key).run((), Tally())
            if (list(c1), list(w1)) != (list(c2), list(w2)):
                raise HarnessError("default execution of %r is not deterministic" % (key,))
        tally.executions += 1
        tally.max_depth = max(tally.max_depth, len(c1))
        for i in range(len(c1)):
            c = k1[i] if k1 else 1
            if c > b:
                continue
            for alt in range(1, w1[i]):
                tasks.append((key, tuple(c1[:i]) + (alt,), c))
    tally.transitions += len(tasks)
    if log:
        log("dfs_dev_many: %d default executions, %d first-level deviations" % (len(keys), len(tasks)))
    _DFS = (make_exec, bound)
    _freeze()
    try:
        par.pmap_tally(_dfs_worker, tasks, tally, nchunks=nchunks or par.NPROC * 8)
    finally:
        _DFS = None
    return tally


def bfs_once(spec, depth, tally: Tally, log=None, split=120, stages=2, nchunks=None):
    """explore all action sequences up to `depth` with fingerprint merging; returns the number of distinct states"""
    global _STATE
    s0 = spec.replay(())
    fp0 = digest(s0.fingerprint())
    s0.check(tally)
    if digest(spec.replay(()).fingerprint()) != fp0:
        raise HarnessError("initial state fingerprint is not deterministic")
    tally.state(fp0)
    seen = {fp0}
    frontier = [((), fp0)]
    level = 0
    while frontier and len(frontier) < split:
        frontier = _expand_level(spec, frontier, depth, tally, seen)
        level += 1
        if log:
            log("bfs level %d (parent): %d new states, %d total" % (level, len(frontier), len(seen)))
    # stage boundaries: leaves live at `depth`, so the last stage must run to depth + 1
    remaining = depth + 1 - level
    stops = []
    for k in range(1, stages + 1):
        stop = level + (remaining * k + stages - 1) // stages
        if stop > level and (not stops or stop > stops[-1]):
            stops.append(stop)
    for stop in stops:
        if not frontier:
            break
        _STATE = (spec, depth, seen, stop)
        _freeze()
        try:
            if log:
                log("dealing %d frontier states at depth %d to workers (until depth %d, bound %d)" % (len(frontier), len(frontier[0][0]), min(stop, depth), depth))
            results = par.pmap(_worker, frontier, nchunks=nchunks or par.NPROC * 4)
        finally:
            _STATE = None
        nxt = []
        for t, fr, new_seen in results:
            tally.merge(t)
            seen |= new_seen
        # a frontier state that another worker has already expanded (at the same or a shallower level) is done
        got = set()
        for t, fr, new_seen in results:
            got |= new_seen - {fp for _, fp in fr}
        for t, fr, new_seen in results:
            for hist, fp in fr:
                if fp not in got:
                    got.add(fp)
                    nxt.append((hist, fp))
        frontier = nxt
    return len(seen)
