"""C03 - HTTP hook lifecycle: requestheaders first, ..., exactly one of response/error.

Engine X + F on the real stack: for each base exchange x addon policy x hook
suspension mode, deviation-bounded DFS over schedules of the real
ProxyConnectionHandler on the virtual loop.  The default schedule is the
fault-free exchange; a deviation is any other enabled environment action at a
scheduling point: connect failure, client EOF / read error, server EOF / read error,
delivering the other side's segment first, leaving a suspended hook pending.  Every
execution is closed out (all sockets closed, all hooks completed) and the per-flow
monitor automaton plus the end-of-life clause are evaluated.
"""
from __future__ import annotations

from mitmproxy import http

from vmc import par
from vmc.drivers import h1
from vmc.drivers.world import World
from vmc.explore import _dev_rec
from vmc.refs import http1ref
from vmc.tally import HarnessError, Tally

META = {
    "level": "model_checking",
    "technique": "deviation-bounded DFS (fault injection at every scheduling point) over the real ConnectionHandler/HttpLayer on a virtual event loop, with a per-flow monitor automaton",
    "claim": "for every base exchange, addon policy and schedule with at most k faults/reorderings, every HTTP flow's hook sequence obeys the lifecycle order and, once all connections are closed, has fired exactly one of response/error and is not live",
    "rule": "an execution is (base exchange, policy, suspension mode, choice sequence); distinct = distinct tuple; non-trivial = at least one fault/deviation or a non-pass policy",
    "assumptions": [
        "HTTP/1 client and server sides, plus an HTTP/2 client with 2-3 concurrent GET streams over HTTP/1 upstream connections (further HTTP/2 stream lifecycles are exercised by C05/C11)",
        "faults are socket-level (EOF, read error, connect refusal) and protocol errors in the byte streams of the base exchanges",
    ],
}

GET = b"GET http://example.com/a HTTP/1.1\r\nHost: example.com\r\n\r\n"
GET2 = b"GET http://example.com/b HTTP/1.1\r\nHost: example.com\r\n\r\n"
HEAD = b"HEAD http://example.com/a HTTP/1.1\r\nHost: example.com\r\n\r\n"
POST_H = b"POST http://example.com/a HTTP/1.1\r\nHost: example.com\r\nContent-Length: 6\r\n\r\n"
POSTC_H = b"POST http://example.com/a HTTP/1.1\r\nHost: example.com\r\nTransfer-Encoding: chunked\r\n\r\n3\r\nabc\r\n"
R_CL_H = b"HTTP/1.1 200 OK\r\nContent-Length: 6\r\n\r\n"
R_CH_H = b"HTTP/1.1 200 OK\r\nTransfer-Encoding: chunked\r\n\r\n3\r\nabc\r\n"
R_EOF = b"HTTP/1.1 200 OK\r\n\r\nbody"
R_HEAD = b"HTTP/1.1 200 OK\r\nContent-Length: 6\r\n\r\n"
R_BAD = b"HTTP/1.1 200 OK\r\nContent-Length: x\r\n\r\n"
BADREQ = b"GET http://example.com/a HTTP/1.1\r\nHost: example.com\r\nContent-Length: 3\r\nTransfer-Encoding: chunked\r\n\r\n"

BASES = {
    "get": [("c", GET), ("s", R_CL_H + b"abcdef")],
    "post": [("c", POST_H), ("c", b"abcdef"), ("s", R_CL_H), ("s", b"abcdef")],
    "post-chunked": [("c", POSTC_H), ("c", b"0\r\n\r\n"), ("s", R_CH_H), ("s", b"0\r\n\r\n")],
    "head": [("c", HEAD), ("s", R_HEAD)],
    "resp-eof": [("c", GET), ("s", R_EOF), ("seof",)],
    "two": [("c", GET), ("s", R_CL_H + b"abcdef"), ("c", GET2), ("s", R_CL_H + b"ghijkl")],
    "bad-request": [("c", BADREQ)],
    "bad-response": [("c", GET), ("s", R_BAD)],
    "pipelined": [("c", GET + GET2), ("s", R_CL_H + b"abcdef"), ("s", R_CL_H + b"ghijkl")],
    # the server answers before the (streamed) request body is complete
    "early-response": [("c", POST_H), ("c", b"abc"), ("s", R_CL_H + b"abcdef"), ("c", b"def")],
    "early-response-chunked": [("c", POSTC_H), ("s", R_CH_H), ("s", b"0\r\n\r\n"), ("c", b"0\r\n\r\n")],
}

POLICIES = [
    ("pass", None),
    ("requestheaders", "kill"), ("requestheaders", "respond"), ("requestheaders", "stream"),
    ("request", "kill"), ("request", "respond"), ("request", "modify"),
    ("responseheaders", "kill"), ("responseheaders", "stream"),
    ("response", "kill"), ("response", "modify"),
    ("both", "stream"),
    # two cooperating addon actions: bodies are streamed and a later hook kills / answers / edits
    ("stream+request", "kill"), ("stream+request", "respond"), ("stream+responseheaders", "kill"), ("stream+response", "kill"),
]
SUSPEND = ["none", "request", "responseheaders", "response", "all"]
FLOW_HOOKS = ("requestheaders", "request", "responseheaders", "response", "error")


def make_policy(pol):
    hook, action = pol
    also_stream = hook.startswith("stream+")
    if also_stream:
        hook = hook[len("stream+"):]

    def policy(name, data, world):
        if not isinstance(data, http.HTTPFlow):
            return
        if also_stream:
            if name == "requestheaders":
                data.request.stream = True
            if name == "responseheaders" and data.response is not None:
                data.response.stream = True
        if action == "stream" and hook == "both":
            if name == "requestheaders":
                data.request.stream = True
            if name == "responseheaders":
                data.response.stream = True
            return
        if name != hook:
            return
        if action == "kill":
            data.kill()
        elif action == "respond":
            data.response = http.Response.make(418, b"teapot")
        elif action == "stream":
            if name == "requestheaders":
                data.request.stream = True
            else:
                data.response.stream = True
        elif action == "modify":
            if name == "request":
                data.request.headers["x-mod"] = "1"
            else:
                data.response.headers["x-mod"] = "1"

    return policy


def make_suspend(mode):
    def suspend(name, data, world):
        if not isinstance(data, http.HTTPFlow):
            return False
        if mode == "all":
            return name in FLOW_HOOKS
        return name == mode

    return suspend if mode != "none" else None


class Exec:
    def __init__(self, base, pol, susp):
        self.base, self.pol, self.susp = base, pol, susp

    def enabled(self, w: World, script):
        """canonical order: index 0 is the fault-free default"""
        acts = []
        if w.suspended:
            acts.append(("hook", 0))
        for e in w.pending_connects():
            acts.append(("connect_ok",))
            break
        # next scripted step
        while script and script[0][0] in ("s", "seof") and not any(e.state == "open" and not e.r.eof for e in w.servers) and not w.pending_connects() and not w.suspended:
            script.pop(0)  # a server step without any open server can never happen any more
        if script and not w.pending_connects():
            st = script[0]
            if st[0] == "c" and not w.client.r.eof:
                acts.append(("step",))
            elif st[0] in ("s", "seof"):
                tgt = self.target(w)
                if tgt is not None and self.request_arrived(tgt):
                    acts.append(("step",))
        # faults / alternatives
        if w.pending_connects():
            acts.append(("connect_fail",))
        if not w.client.r.eof:
            acts.append(("client_eof",))
            acts.append(("client_error",))
        tgt = self.target(w)
        if tgt is not None:
            acts.append(("server_eof",))
            acts.append(("server_error",))
        if len(w.suspended) > 1:
            acts.append(("hook", 1))
        # de-duplicate keeping order; the default must be a progress action
        seen, out = set(), []
        for a in acts:
            if a not in seen:
                seen.add(a)
                out.append(a)
        if out and out[0][0] in ("connect_fail", "client_eof", "client_error", "server_eof", "server_error"):
            return []  # only faults left: the exchange is over, close out
        return out

    def target(self, w):
        for e in reversed(w.servers):
            if e.state == "open" and not e.r.eof:
                return e
        return None

    def request_arrived(self, e):
        msgs, verdict = http1ref.parse_requests(e.w.data)
        streaming = self.pol[1] == "stream" or self.pol[0].startswith("stream+")
        return len(msgs) > getattr(e, "answered", 0) or (verdict == "incomplete" and streaming and len(e.w.data) > 0)

    def run(self, prefix, t: Tally, verbose=False):
        # the suspension mode may carry an option set: "<mode>+limit3" (body_size_limit=3), "<mode>+large3" (stream_large_bodies=3)
        susp, _, optname = self.susp.partition("+")
        opts = {"limit3": {"body_size_limit": "3"}, "large3": {"stream_large_bodies": "3"}, "": None}[optname]
        w = World(mode="regular", policy=make_policy(self.pol), suspend=make_suspend(susp), snap=h1.http_snap, opts=opts)
        script = [tuple(s) for s in BASES[self.base]]
        choices, widths, costs = [], [], []
        trace = []
        try:
            w.start()
            for _ in range(200):
                acts = self.enabled(w, script)
                if not acts:
                    break
                if len(acts) > 1:
                    k = prefix[len(choices)] if len(choices) < len(prefix) else 0
                    if k >= len(acts):
                        raise HarnessError("choice out of range while replaying %r" % (prefix,))
                    choices.append(k)
                    widths.append(len(acts))
                    costs.append(1)
                    a = acts[k]
                else:
                    a = acts[0]
                trace.append(a)
                self.apply(w, a, script)
                t.transitions += 1
                t.state([[n for n, _ in w.hooks], a, len(script)])
            else:
                raise HarnessError("schedule does not terminate")
            closed = w.close_out()
            self.judge(w, closed, trace, choices, t, verbose)
        finally:
            w.dispose()
        return choices, widths, costs

    def apply(self, w: World, a, script):
        kind = a[0]
        if kind == "hook":
            w.complete_hook(a[1])
        elif kind == "connect_ok":
            w.connect_ok(w.pending_connects()[0])
        elif kind == "connect_fail":
            w.connect_fail(w.pending_connects()[0])
        elif kind == "step":
            st = script.pop(0)
            if st[0] == "c":
                w.client_send(st[1])
            elif st[0] == "s":
                e = self.target(w)
                w.server_send(e, st[1])
                if not script or script[0][0] == "c" or _is_head(script[0]):
                    e.answered = getattr(e, "answered", 0) + 1
            else:
                e = self.target(w)
                e.r.eof = True
                w.server_eof(e)
        elif kind == "client_eof":
            w.client.r.eof = True
            w.client_eof()
        elif kind == "client_error":
            w.client.r.eof = True
            w.client_error()
        elif kind == "server_eof":
            e = self.target(w)
            e.r.eof = True
            w.server_eof(e)
        elif kind == "server_error":
            e = self.target(w)
            e.r.eof = True
            w.server_error(e)

    def judge(self, w: World, closed, trace, choices, t: Tally, verbose):
        feats = {"base": self.base, "policy": "%s:%s" % self.pol, "suspend": self.susp}
        case = {"base": self.base, "pol": list(self.pol), "susp": self.susp, "choices": list(choices)}
        faults = [a[0] for a in trace if a[0] in ("connect_fail", "client_eof", "client_error", "server_eof", "server_error")]
        feats["faults"] = "+".join(faults) or "-"
        nontrivial = bool(faults) or any(choices) or self.pol[0] != "pass"
        t.case(case if (len(t.samples) < 2 and len(faults) > 1) else None, nontrivial=nontrivial, key=case)
        per = {}
        objs = {}
        for (name, snap), (_, data) in zip(w.hooks, w.hook_objs):
            if isinstance(data, http.HTTPFlow) and name in FLOW_HOOKS:
                per.setdefault(data.id, []).append((name, snap))
                objs[data.id] = data
        t.outcome([[n for n, _ in seq] for seq in per.values()])
        if verbose:
            print("trace", trace)
            for fid, seq in per.items():
                print("flow", [n for n, _ in seq], "live", objs[fid].live, "error", objs[fid].error)
            print("closed", closed, "errors", w.errors, "client got", w.client.w.data[:80])
        t.judge("handler_terminates", closed, feats, case, "connection handler finished after close-out", {"pending": [repr(x)[:100] for x in w.loop.pending_tasks()][:4], "errors": w.errors[:2]})
        for fid, seq in per.items():
            names = [n for n, _ in seq]
            streamed = any(s and s.get("request", {}).get("stream") for n, s in seq if n == "requestheaders")
            t.judge("rh_first", names[0] == "requestheaders" and names.count("requestheaders") == 1, feats, case, None, names)
            t.judge("request_at_most_once", names.count("request") <= 1, feats, case, None, names)
            t.judge("respheaders_at_most_once_before_response",
                    names.count("responseheaders") <= 1 and ("response" not in names or "responseheaders" not in names or names.index("responseheaders") < names.index("response")),
                    feats, case, None, names)
            t.judge("not_both_response_and_error", not ("response" in names and "error" in names), feats, case, None, names)
            t.judge("response_error_at_most_once", names.count("response") <= 1 and names.count("error") <= 1, feats, case, None, names)
            if not streamed and "request" in names and "responseheaders" in names:
                t.judge("request_before_respheaders_unless_streamed", names.index("request") < names.index("responseheaders"), feats, case, None, names)
            if not streamed and "responseheaders" in names:
                t.judge("unstreamed_request_precedes_respheaders", "request" in names and names.index("request") < names.index("responseheaders"), feats, case, None, names)
            if closed:
                n_out = names.count("response") + names.count("error")
                t.judge("exactly_one_outcome", n_out == 1, feats, case, "exactly one of response/error", names)
                t.judge("not_live_at_end", objs[fid].live is False, feats, case, False, {"live": objs[fid].live, "hooks": names})
        if w.errors:
            t.note("server logged: " + w.errors[0][:70])


# HTTP/2 client, HTTP/1 upstream: several concurrent streams, which share one pending connection attempt (the
# "HTTP/2 client, non-h2 upstream" branch of HttpLayer.register_connection) and then get one connection each
H2_BASES = {"h2-2": 2, "h2-3": 3, "h2-post": 1, "h2-post-get": 2}  # h2-post*: the first stream is a POST whose body follows later
R_SMALL = R_CL_H + b"abcdef"


class H2Exec(Exec):
    def h2_enabled(self, w: World, tosend):
        acts = []
        if tosend:
            acts.append(("request",))  # default: all streams are opened before anything else happens
        if w.suspended:
            acts.append(("hook", 0))
        if w.pending_connects():
            acts.append(("connect_ok",))
        tgt = None
        for e in w.servers:
            if e.state == "open" and not e.r.eof and not getattr(e, "answered", 0):
                msgs, _ = http1ref.parse_requests(e.w.data)
                if msgs:
                    tgt = e
                    acts.append(("respond",))
                    break
        if w.pending_connects():
            acts.append(("connect_fail",))
        if not w.client.r.eof:
            acts.append(("client_eof",))
            if not self.goaway:
                acts.append(("client_goaway",))  # protocol-level goodbye (GOAWAY frame), the socket stays open
        openers = [e for e in w.servers if e.state == "open" and not e.r.eof]
        if openers:
            acts.append(("server_eof",))
        if len(w.suspended) > 1:
            acts.append(("hook", 1))
        if acts and acts[0][0] in ("connect_fail", "client_eof", "client_goaway", "server_eof"):
            return [], None
        return acts, tgt

    def run(self, prefix, t: Tally, verbose=False):
        from vmc.drivers.h2world import H2World

        hw = H2World(http_mode="regular", policy=make_policy(self.pol), suspend=make_suspend(self.susp), snap=h1.http_snap)
        w = hw.w
        tosend = [(b"GET", b"/s%d" % i, True) for i in range(H2_BASES[self.base])]
        if self.base.startswith("h2-post"):
            tosend[0] = (b"POST", b"/p", False)
        self.goaway = False
        choices, widths, costs, trace = [], [], [], []
        try:
            hw.start()
            for _ in range(200):
                acts, tgt = self.h2_enabled(w, tosend)
                if not acts:
                    break
                if len(acts) > 1:
                    k = prefix[len(choices)] if len(choices) < len(prefix) else 0
                    if k >= len(acts):
                        raise HarnessError("choice out of range while replaying %r" % (prefix,))
                    choices.append(k)
                    widths.append(len(acts))
                    costs.append(1)
                    a = acts[k]
                else:
                    a = acts[0]
                trace.append(a)
                if a[0] == "request":
                    meth, path, end = tosend.pop(0)
                    if meth == b"body":
                        hw.data(path, b"abcdef", end=True)
                    else:
                        sid = hw.request([(b":method", meth), (b":scheme", b"http"), (b":authority", b"example.com"), (b":path", path)], end=end)
                        if not end:
                            tosend.append((b"body", sid, True))  # after the other streams have been opened
                elif a[0] == "client_goaway":
                    self.goaway = True
                    del tosend[:]
                    hw.peer.conn.close_connection()
                    hw.send(hw.peer.conn.data_to_send())
                elif a[0] == "respond":
                    tgt.answered = 1
                    w.server_send(tgt, R_SMALL)
                elif a[0] == "server_eof":
                    e = [e for e in w.servers if e.state == "open" and not e.r.eof][0]
                    e.r.eof = True
                    w.server_eof(e)
                else:
                    self.apply(w, a, None)
                hw.sync()
                t.transitions += 1
                t.state([[n for n, _ in w.hooks], a, len(tosend)])
            else:
                raise HarnessError("schedule does not terminate")
            closed = hw.close_out()
            self.judge(w, closed, trace, choices, t, verbose)
        finally:
            hw.dispose()
        return choices, widths, costs


def _exec(base, pol, susp):
    return (H2Exec if base in H2_BASES else Exec)(base, pol, susp)


def _is_head(step):
    return step[0] == "s" and step[1].startswith(b"HTTP/")


def specs(tier):
    out = []
    for base in BASES:
        for pol in POLICIES:
            for susp in SUSPEND:
                if tier == "quick" and susp == "all" and pol[0] != "pass":
                    continue
                out.append((base, pol, susp))
    # HTTP/2 client with concurrent streams over HTTP/1 upstream connections
    for base in H2_BASES:
        for pol in POLICIES:
            for susp in ("none", "request", "all"):
                if tier == "quick" and susp == "all" and pol[0] != "pass":
                    continue
                out.append((base, pol, susp))
    # option-driven aborts and late switches to streaming, with hooks held at every position
    for base in BASES:
        for pol in [("pass", None), ("both", "stream"), ("response", "modify")]:
            for susp in ("none", "responseheaders", "all"):
                for optname in ("limit3", "large3"):
                    out.append((base, pol, susp + "+" + optname))
    return out


def chunk_fn(args):
    t = Tally()
    for base, pol, susp, bound in args:
        _dev_rec(_exec(base, pol, susp), (), 0, bound, t)
    return t


def run(ctx):
    bound = ctx.pick(1, 2)
    sp = [s + (bound,) for s in specs(ctx.tier)]
    ctx.bounds = {"bases": list(BASES) + list(H2_BASES), "policies": ["%s:%s" % p for p in POLICIES], "suspend_modes": SUSPEND, "deviation_bound": bound, "specs": len(sp)}
    ctx.log("%d specs, deviation bound %d" % (len(sp), bound))
    # determinism self-test
    a = Exec("post", ("pass", None), "none").run((), Tally())
    b = Exec("post", ("pass", None), "none").run((), Tally())
    if a != b:
        raise HarnessError("default execution not deterministic")
    par.pmap_tally(chunk_fn, sp, ctx.tally, nchunks=256)


def replay(case, t, verbose=False):
    _exec(case["base"], tuple(case["pol"]), case["susp"]).run(tuple(case["choices"]), t, verbose=verbose)
