#!/bin/bash
# tools/runall.sh [tier] [parallel] - run every claimed check's command from MANIFEST.json on /repo's working tree,
# print "<ID> exit=<rc> wall=<s>" per check; used before committing evidence and to look for flaky checks.
cd "$(dirname "$0")/.."
tier="${1:-quick}"; par="${2:-2}"
ids=$(/venv/bin/python -c "import json;print(' '.join(c['property_id'] for c in json.load(open('MANIFEST.json'))['checks']))")
run1(){ s=$(date +%s); ./check "$1" --tier "$tier" > "/dev/shm/runall-$1.log" 2>&1; rc=$?; e=$(date +%s); echo "$1 exit=$rc wall=$((e-s)) $(grep -c '^VIOLATION' /dev/shm/runall-$1.log) violations $(grep -c '^KNOWN-FINDING' /dev/shm/runall-$1.log) known"; }
export -f run1; export tier
echo $ids | tr ' ' '\n' | xargs -P "$par" -I{} bash -c 'run1 {}'
