"""h2world - a World whose client speaks HTTP/2 (used by C07, C08, C12).

The client connection's ALPN is preset to `h2` (what a TLS handshake that negotiated
h2 leaves behind; mitmproxy has no cleartext upgrade) and the real `HttpLayer` is
installed as the top layer in the requested HTTP mode:

    regular      - the "secure web proxy" situation: h2 requests carry :scheme/:authority
    transparent  - the situation after CONNECT+TLS or in reverse mode: destination = ctx.server.address
    upstream     - World(mode="upstream:http://p:8080")

Everything below HttpLayer (Http2Server, BufferedH2Connection, HttpStream, connection
management) is the real code; the client endpoint is `vmc.peers.h2peer.H2Peer`, i.e.
hyper-h2's stock H2Connection with inbound validation on.
"""
from __future__ import annotations

from mitmproxy.proxy.layers.http import HTTPMode, HttpLayer

from vmc.drivers.world import World
from vmc.peers.h2peer import H2Peer


class H2World:
    def __init__(self, http_mode="regular", mode=None, server_address=("example.com", 80), validate_inbound=True, peer_settings=None, auto_release=True, **kw):
        hm = {"regular": HTTPMode.regular, "transparent": HTTPMode.transparent, "upstream": HTTPMode.upstream}[http_mode]

        def factory(ctx):
            ctx.client.alpn = b"h2"
            if hm is HTTPMode.transparent:
                ctx.server.address = tuple(server_address)
            return HttpLayer(ctx, hm)

        if mode is None:
            mode = "regular" if http_mode != "upstream" else "upstream:http://proxy.test:8080"
        self.w = World(mode=mode, layer_factory=factory, **kw)
        # peer_settings: e.g. {INITIAL_WINDOW_SIZE: 2}; auto_release=False leaves flow control to the caller
        # (release_step), so that mitmproxy has to buffer what the peer's window does not admit yet
        self.peer = H2Peer(client_side=True, settings=peer_settings, validate_inbound=validate_inbound)
        self.auto_release = auto_release
        self._seen = 0

    def start(self):
        self.w.start()
        self.w.client_send(self.peer.start())
        self.sync()
        return self

    def release_step(self, sid, n):
        """the peer re-opens its window (stream and connection) by at most n of the bytes it has received; returns the grant"""
        k = min(n, self.peer.unacked.get(sid, 0))
        if k <= 0:
            return 0
        back = self.peer.release(sid, k)
        if back and not self.w.client.r.eof and not self.w.done:
            self.w.client_send(back)
        self.sync()
        return k

    def sync(self, release=None):
        """deliver what mitmproxy wrote to the client into the peer; send the peer's answers (ACKs, window updates)"""
        if release is None:
            release = self.auto_release
        for _ in range(50):
            out = self.w.client.w.out
            if self._seen >= len(out):
                break
            chunk = b"".join(out[self._seen:])
            self._seen = len(out)
            self.peer.receive(chunk)
            back = self.peer.out()
            if release:
                for sid in list(self.peer.unacked):
                    back += self.peer.release(sid)
            if back and not self.w.client.r.eof and not self.w.done:
                self.w.client_send(back)

    def send(self, data: bytes):
        if data and not self.w.client.r.eof and not self.w.done:
            self.w.client_send(data)
        self.sync()

    def request(self, fields, end=True):
        sid = self.peer.next_stream_id()
        self.send(self.peer.headers(sid, fields, end=end))
        return sid

    def data(self, sid, body, end=False):
        if self.peer.can_send(sid):
            self.send(self.peer.data(sid, body, end=end))
            return True
        return False

    def end(self, sid):
        if self.peer.can_send(sid):
            self.send(self.peer.end(sid))
            return True
        return False

    def stream(self, sid):
        return self.peer.streams.get(sid, {"headers": None, "data": [], "trailers": None, "ended": False, "reset": None, "info": []})

    def close_out(self):
        r = self.w.close_out()
        self.sync()
        return r

    def dispose(self):
        self.w.dispose()
