"""C40 - backup / revert / modified / copy behave exactly, for every flow type.

Engine X: breadth-first search over operation histories
{backup, revert, copy (continue on the copy), edit(field, value)} on real flows built
with mitmproxy.test.tflow (HTTP without/with response, HTTP+WebSocket, TCP, UDP, DNS
without/with response).  A reference model remembers the snapshot taken by the checker
immediately before the first un-reverted backup(); every transition and every distinct
reached state is judged against it:

  revert_restores_backup       after revert() the flow is exactly the snapshot
  revert_clears_backup         ... and no backup is left
  modified_iff_differs         modified() == (a backup exists and the state differs from it)
  copy_fresh_id / copy_equal_content / copy_not_live
  copy_independent             editing the copy never changes the original and editing the
                               original never changes the copy (every edit of the alphabet,
                               plus backup / edit / revert), in every distinct state; the
                               observation includes the backup slot and modified(), and after one
                               of the two was reverted the other's revert must still restore the
                               backup (both orders) - snapshots are deep copies, never aliases

State is observed through get_state() (the property's observation point) *and* through an
independent attribute-by-attribute view, so that a get_state/set_state pair that forgets
the same field on both sides cannot hide a lost edit.

Two alphabets: "full" (every field and value below) and "core" (one or two values of the
eight edit classes the design names); the core alphabet is explored one level deeper.
Transition clauses are judged on every transition; state clauses (modified, copy) exactly
once per distinct state (when the explorer expands it / closes it at the depth bound), on a
scratch replay of the state's history so that a sharing bug cannot corrupt the exploration.
"""
from __future__ import annotations

import copy as _copy

from mitmproxy import dns, flow, http, tcp, udp, websocket
from mitmproxy.test import tflow, tutils
from wsproto.frame_protocol import Opcode

from vmc import explore, par
from vmc.tally import HarnessError, Tally

META = {
    "level": "model_checking",
    "technique": "explicit-state BFS over operation histories (backup, revert, copy, field edits) on real HTTP/WebSocket/TCP/UDP/DNS "
    "flows against a snapshot-holding reference model; modified() and the copy clauses evaluated in every distinct reached state",
    "claim": "within the depth bound every history over the edit alphabet was executed on the real Flow classes with state de-duplication, "
    "so revert/modified/copy were decided (not sampled) for every reachable combination of edited fields, backup presence and copy-ness",
    "rule": "a case is a distinct reached state = (flow state incl. embedded backup, liveness, copy-ness, model snapshot) fingerprint, identified by the first "
    "operation history reaching it; non-trivial = that history contains at least one backup, revert or copy operation",
    "assumptions": [
        "a second backup() while a backup exists keeps the first one (how mitmproxy uses it: every edit path calls backup() first and revert() returns to the pre-edit state)",
        "whether a copy carries the original's backup is left open by the statement: the model follows the implementation on that one bit, "
        "and when carried it must be the same snapshot",
        "on a copy the flow id is excluded from state comparisons (the carried backup holds the original's id; the statement only demands a fresh id at copy time); "
        "when a copy's state differs from its backup in the id only, modified() is not judged",
        "with no backup, modified() is expected to be False (nothing to differ from)",
        "edits are restricted to the fields named by the property (request/response/messages/metadata/marker/comment/error); connection objects are observed but not edited",
        "timestamps, ids of the root flow and its connections are fixed constants so that histories are deterministic",
    ],
}

TS = 946681300.0
KINDS_FULL = ["http_resp", "http_ws", "tcp", "udp", "dns_resp", "http", "dns"]
KINDS_CORE = ["http_resp", "http_ws", "tcp", "udp", "dns_resp"]


# ---------------------------------------------------------------------------
# roots


def build_flow(kind):
    if kind == "http":
        f = tflow.tflow()
    elif kind == "http_resp":
        f = tflow.tflow(resp=True)
    elif kind == "http_ws":
        f = tflow.twebsocketflow()
    elif kind == "tcp":
        f = tflow.ttcpflow()
    elif kind == "udp":
        f = tflow.tudpflow()
    elif kind == "dns":
        f = tflow.tdnsflow()
    elif kind == "dns_resp":
        f = tflow.tdnsflow(resp=True)
    else:
        raise ValueError(kind)
    f.id = "root-id"
    f.client_conn.id = "client-id"
    f.server_conn.id = "server-id"
    f.timestamp_created = 946681200.0
    f.live = True
    return f


# ---------------------------------------------------------------------------
# edit alphabet.  An edit is (name, enabled(f), n_values, setter(f, i), n_core_values);
# value 0 restores the root's value so that "edited back to the backed-up state" is reachable.


def _hdr(msg_of):
    def set_(f, i):
        h = msg_of(f).headers
        if i == 0:
            h.pop("x-edit", None)
        elif i == 1:
            h["x-edit"] = "1"
        else:
            h.pop("x-edit", None)
            h.add("x-edit", "1")
            h.add("X-Edit", "2")
    return set_


def _meta(f, i):
    cur = f.metadata.get("k")
    nested = isinstance(cur, dict) and isinstance(cur.get("n"), list)
    if i == 0:
        f.metadata.pop("k", None)
    elif i == 1:
        if nested and len(cur["n"]) == 2:
            cur["n"].pop()  # in place, below the top level of the metadata dict
        else:
            f.metadata["k"] = {"n": [1]}
    elif i == 2:
        if nested and len(cur["n"]) == 1:
            cur["n"].append(2)  # in place
        else:
            f.metadata["k"] = {"n": [1, 2]}
    else:
        f.metadata["k"] = "v"


def _error(f, i):
    if i == 0:
        f.error = None
    elif i == 1:
        f.error = flow.Error("boom", TS)
    else:
        if f.error is not None:
            f.error.msg = "changed"  # in place
            f.error.timestamp = TS
        else:
            f.error = flow.Error("changed", TS)


def _set(attr, values):
    def set_(f, i):
        setattr(f, attr, values[i])
    return set_


def _ws_root(f):
    """was this flow built by twebsocketflow()?  (the host is never edited; the WebSocket data itself can be detached)"""
    return f.request.data.host == "example.com"


def _req_content(f, i):
    f.request.content = ([b"", b"edited body", b"x"] if _ws_root(f) else [b"content", b"edited body", b""])[i]


def _req_path(f, i):
    base = "/ws" if _ws_root(f) else "/path"
    f.request.path = [base, "/other?x=1"][i]


def _req_trailers(f, i):
    f.request.trailers = None if i == 0 else http.Headers([(b"t", b"1")])


def _resp_present(f, i):
    if i == 0:
        f.response = tutils.tresp()
    else:
        f.response = None


def _resp_absent(f, i):
    _resp_present(f, 1 - i)


def _resp_status(f, i):
    base = 101 if _ws_root(f) else 200
    f.response.status_code = [base, 404][i]


def _resp_content(f, i):
    base = b"" if _ws_root(f) else b"message"
    f.response.content = [base, b"changed"][i]


def _ws_attach(f, i):
    """whole optional sub-object: attach WebSocket data to a plain HTTP flow (the upgrade happens after the backup) / detach it"""
    f.websocket = tflow.twebsocket() if i == 1 else None


def _ws_detach(f, i):
    """on the WebSocket root: 0 = the root's WebSocket data, 1 = none"""
    if i == 1:
        f.websocket = None
    else:
        f.websocket = tflow.twebsocket()
        f.websocket.close_reason = ""


def _has_ws(f):
    return f.websocket is not None


def _ws_msg(f, i):
    f.websocket.messages[0].content = [b"hello binary", b"edited"][i]


def _ws_len(f, i):
    ms = f.websocket.messages
    if i == 0:
        del ms[3:]
    elif len(ms) == 3:
        ms.append(websocket.WebSocketMessage(Opcode.TEXT, False, b"extra", TS))


def _ws_drop(f, i):
    f.websocket.messages[1].dropped = bool(i)


def _ws_close(f, i):
    f.websocket.close_code = [1000, 1001][i]


def _msg_cls(f):
    return tcp.TCPMessage if isinstance(f, tcp.TCPFlow) else udp.UDPMessage


def _msg_content(f, i):
    f.messages[0].content = [b"hello", b"edited", b""][i]


def _msg_len(f, i):
    if i in (0, 1) and len(f.messages) == 1:
        f.messages.append(_msg_cls(f)(False, b"it's me", 946681204.5))
    if i == 0:
        del f.messages[2:]
    elif i == 1:
        if len(f.messages) == 2:
            f.messages.append(_msg_cls(f)(True, b"new", TS))
    else:
        del f.messages[1:]


def _msg_dir(f, i):
    f.messages[0].from_client = not bool(i)


def _q_name(f, i):
    f.request.questions[0].name = ["dns.google", "edited.example"][i]


def _dns_id(f, i):
    f.request.id = [42, 43][i]


def _dns_resp_present(f, i):
    f.response = tutils.tdnsresp() if i == 0 else None


def _dns_resp_absent(f, i):
    _dns_resp_present(f, 1 - i)


def _dns_rcode(f, i):
    f.response.response_code = [dns.response_codes.NOERROR, dns.response_codes.NXDOMAIN][i]


def _dns_ans(f, i):
    a = f.response.answers
    if i == 0:
        del a[2:]
        a[0].data = b"\x08\x08\x08\x08"
    elif i == 1:
        a[0].data = b"\x01\x02\x03\x04"
    else:
        if len(a) == 2:
            a.append(dns.ResourceRecord("dns.google", dns.types.A, dns.classes.IN, 32, b"\x09\x09\x09\x09"))


def _has_resp(f):
    return f.response is not None


def _always(f):
    return True


COMMON = [
    ("marked", _always, 2, _set("marked", ["", ":grapes:"]), 2),
    ("comment", _always, 2, _set("comment", ["", "note"]), 2),
    ("metadata", _always, 4, _meta, 3),
    ("error", _always, 3, _error, 2),
]
HTTP_EDITS = [
    ("req_header", _always, 3, _hdr(lambda f: f.request), 2),
    ("req_content", _always, 3, _req_content, 2),
    ("req_path", _always, 2, _req_path, 0),
    ("req_trailers", _always, 2, _req_trailers, 0),
    ("resp_status", _has_resp, 2, _resp_status, 2),
    ("resp_content", _has_resp, 2, _resp_content, 0),
    ("resp_header", _has_resp, 3, _hdr(lambda f: f.response), 0),
]
EDITS = {
    # whole optional sub-objects (response, WebSocket data, error) are attached and removed as single edits, so that
    # "backup before the response / the upgrade / the error existed, then revert" is part of every alphabet
    "http": HTTP_EDITS + [("resp_present", _always, 2, _resp_absent, 0)] + COMMON,
    "http_resp": HTTP_EDITS + [("resp_present", _always, 2, _resp_present, 2), ("ws_present", _always, 2, _ws_attach, 2)] + COMMON,
    "http_ws": [
        ("req_header", _always, 3, _hdr(lambda f: f.request), 0),
        ("req_content", _always, 2, _req_content, 0),
        ("resp_status", _has_resp, 2, _resp_status, 0),
        ("ws_present", _always, 2, _ws_detach, 2),
        ("ws_msg", _has_ws, 2, _ws_msg, 2),
        ("ws_len", _has_ws, 2, _ws_len, 2),
        ("ws_drop", _has_ws, 2, _ws_drop, 0),
        ("ws_close", _has_ws, 2, _ws_close, 2),
    ] + COMMON,
    "tcp": [
        ("msg_content", _always, 3, _msg_content, 2),
        ("msg_len", _always, 3, _msg_len, 2),
        ("msg_dir", _always, 2, _msg_dir, 0),
    ] + COMMON,
    "dns": [
        ("q_name", _always, 2, _q_name, 2),
        ("dns_id", _always, 2, _dns_id, 0),
        ("resp_present", _always, 2, _dns_resp_absent, 0),
        ("dns_rcode", _has_resp, 2, _dns_rcode, 0),
        ("dns_answers", _has_resp, 3, _dns_ans, 2),
    ] + COMMON,
}
EDITS["udp"] = EDITS["tcp"]
EDITS["dns_resp"] = [e if e[0] != "resp_present" else ("resp_present", _always, 2, _dns_resp_present, 2) for e in EDITS["dns"]]
EDIT_BY_NAME = {k: {e[0]: e for e in v} for k, v in EDITS.items()}


def alphabet(kind, which):
    """[(name, enabled, n_values, setter)] for the chosen alphabet"""
    out = []
    for name, enabled, n, fn, ncore in EDITS[kind]:
        k = n if which == "full" else ncore
        if k:
            out.append((name, enabled, k, fn))
    return out


# ---------------------------------------------------------------------------
# observation


def view(f):
    """independent, attribute-by-attribute reading of everything the edit alphabet touches"""
    v = {
        "marked": f.marked,
        "comment": f.comment,
        "metadata": _copy.deepcopy(f.metadata),
        "error": None if f.error is None else [f.error.msg, f.error.timestamp],
        "intercepted": f.intercepted,
    }
    if isinstance(f, http.HTTPFlow):
        r = f.request
        v["request"] = [r.data.method, r.data.scheme, r.data.host, r.data.port, r.data.path, r.data.http_version,
                        list(r.data.headers.fields), r.data.content,
                        None if r.data.trailers is None else list(r.data.trailers.fields)]
        p = f.response
        v["response"] = None if p is None else [p.data.status_code, p.data.reason, p.data.http_version,
                                                list(p.data.headers.fields), p.data.content]
        w = f.websocket
        v["websocket"] = None if w is None else [
            [[int(m.type), m.from_client, m.content, m.timestamp, m.dropped, m.injected] for m in w.messages],
            w.closed_by_client, w.close_code, w.close_reason, w.timestamp_end]
    elif isinstance(f, (tcp.TCPFlow, udp.UDPFlow)):
        v["messages"] = [[m.from_client, m.content, m.timestamp] for m in f.messages]
    elif isinstance(f, dns.DNSFlow):
        def msg(m):
            if m is None:
                return None
            return [m.id, m.query, m.response_code, [[q.name, q.type, q.class_] for q in m.questions],
                    [[a.name, a.type, a.class_, a.ttl, a.data] for a in m.answers]]
        v["request"] = msg(f.request)
        v["response"] = msg(f.response)
    return v


def strip(state, ignore_id):
    s = dict(state)
    s.pop("backup", None)
    if ignore_id:
        s.pop("id", None)
    return s


def snapshot(f, ignore_id):
    # deep copies: a snapshot must not alias anything the flow (or its backup, or a copy) still holds
    return [_copy.deepcopy(strip(f.get_state(), ignore_id)), view(f)]


def full(f):
    """everything observable incl. the backup slot, as an independent deep copy"""
    return [_copy.deepcopy(f.get_state()), view(f), f.live, bool(f._backup)]


def norm_ids(state):
    """ids of copies are random: keep only whether an id is the root's"""
    if not isinstance(state, dict):
        return state
    s = dict(state)
    if s.get("id") != "root-id":
        s["id"] = "fresh"
    if isinstance(s.get("backup"), dict):
        s["backup"] = norm_ids(s["backup"])
    return s


def diff_keys(a, b):
    """coarse description of where two [state, view] snapshots differ (top-level keys only)"""
    ks = []
    for part, (x, y) in (("state", (a[0], b[0])), ("view", (a[1], b[1]))):
        for k in sorted(set(x) | set(y)):
            if x.get(k, "<absent>") != y.get(k, "<absent>"):
                ks.append("%s.%s" % (part, k))
    return ks


def call(fn, *a):
    """call into mitmproxy; an exception is an observation, not a harness crash"""
    try:
        return fn(*a), None
    except KeyboardInterrupt:
        raise
    except BaseException as e:  # noqa
        return None, "%s: %s" % (type(e).__name__, e)


# ---------------------------------------------------------------------------


class Sys:
    def __init__(self, kind):
        self.kind = kind
        self.f = build_flow(kind)
        self.is_copy = False
        self.snap = None  # model: [state, view] at the first un-reverted backup
        self.hist = []
        self.pending = []  # judgements of the most recent transition, flushed by check()


# state clauses evaluated by actions() (which has no tally argument) wait here until the
# check() call that always follows within the same expansion
_SIDE = Tally()


class Spec:
    def __init__(self, kind, which, depth):
        self.kind = kind
        self.which = which
        self.depth = depth
        self.edits = alphabet(kind, which)
        self.by_name = {e[0]: e for e in self.edits}

    def build(self):
        return Sys(self.kind)

    def fingerprint(self, s):
        fp, exc = call(lambda: {"state": norm_ids(s.f.get_state()), "view": view(s.f), "live": s.f.live})
        if exc is not None:
            fp = {"broken": exc, "hist": s.hist}
        fp["copy"] = s.is_copy
        fp["snap"] = s.snap
        return fp

    def _acts(self, f):
        acts = [["backup"], ["revert"]]
        for name, enabled, n, _ in self.edits:
            if enabled(f):
                for i in range(n):
                    acts.append(["edit", name, i])
        acts.append(["copy"])
        return acts

    def actions(self, s):
        if len(s.hist) < self.depth:
            # the explorer expands every distinct state exactly once: evaluate the state clauses here
            self.state_clauses(s, _SIDE)
        return self._acts(s.f)

    def final(self, s, hist, t: Tally):
        if len(s.hist) >= self.depth:
            self.state_clauses(s, t)

    # -- transitions ---------------------------------------------------------
    def apply(self, s, a):
        f = s.f
        op = a[0]
        kind = s.kind
        P = s.pending = []
        s.hist.append(list(a))
        if op == "backup":
            pre, exc0 = call(snapshot, f, s.is_copy)
            _, exc = call(f.backup)
            P.append(("backup_no_exception", exc is None and exc0 is None, {"flow": kind, "op": "backup"}, None, exc or exc0))
            if s.snap is None:
                s.snap = pre
        elif op == "revert":
            had = s.snap
            _, exc = call(f.revert)
            if had is not None:
                post, exc2 = call(snapshot, f, s.is_copy)
                ok = exc is None and exc2 is None and post == had
                where = diff_keys(had, post) if (post is not None and post != had) else []
                P.append(("revert_restores_backup", ok,
                          {"flow": kind, "subject": "copy" if s.is_copy else "original",
                           "differs_in": ",".join(where) or ("" if ok else "exception")},
                          had, exc or exc2 or post))
                st, exc3 = call(f.get_state)
                cleared = exc3 is None and not f._backup and st.get("backup") is None
                P.append(("revert_clears_backup", cleared, {"flow": kind, "subject": "copy" if s.is_copy else "original"}, None,
                          exc3 or {"_backup": f._backup, "state.backup": st.get("backup")}))
                s.snap = None
            else:
                P.append(("revert_without_backup_no_exception", exc is None, {"flow": kind, "op": "revert"}, None, exc))
        elif op == "edit":
            name, i = a[1], a[2]
            _, exc = call(EDIT_BY_NAME[kind][name][3], f, i)
            P.append(("edit_no_exception", exc is None, {"flow": kind, "edit": name}, None, exc))
        elif op == "copy":
            c, exc = call(f.copy)
            if exc is None:
                carried = bool(c._backup)
                if s.snap is not None and carried and not s.is_copy:
                    s.snap = [strip(s.snap[0], True), s.snap[1]]
                elif not carried:
                    s.snap = None
                s.f = c
                s.is_copy = True
            # else: stay on the original; the state clauses report the failing copy()
        else:
            raise ValueError(a)

    def check(self, s, hist, t: Tally):
        global _SIDE
        if _SIDE.evaluations or _SIDE.clauses or _SIDE.violations:
            t.merge(_SIDE)
            _SIDE = Tally()
        case = {"kind": s.kind, "alphabet": self.which, "history": [list(a) for a in hist]}
        for clause, ok, feats, exp, obs in s.pending:
            t.judge(clause, ok, feats, case, exp, obs)
        s.pending = []

    # -- state clauses (once per distinct state, on a scratch replay) ----------------
    def scratch(self, s):
        g = Sys(self.kind)
        for a in s.hist:
            self.apply(g, a)
        g.pending = []
        return g

    def state_clauses(self, s, t: Tally):
        kind = s.kind
        hist = [list(a) for a in s.hist]
        case = {"kind": kind, "alphabet": self.which, "history": hist}
        t.add("state_evaluations")
        g = self.scratch(s)
        f = g.f
        nontrivial = any(a[0] in ("backup", "revert", "copy") for a in hist)

        # --- modified() ---
        cur, exc = call(snapshot, f, g.is_copy)
        if exc is not None:
            t.bad("get_state_no_exception", {"flow": kind}, case, None, exc)
            t.case(None, nontrivial=False)
            return
        if g.snap is None:
            situation, expected = "no_backup", False
        elif cur == g.snap:
            situation, expected = "backup_present_state_equal", False
        else:
            situation, expected = "backup_present_state_differs", True
        m, exc = call(f.modified)
        if g.is_copy and situation == "backup_present_state_equal":
            # the copy differs from the carried backup in its id: either answer satisfies the statement
            t.note("modified() not judged: copy equal to carried backup except for its id")
        else:
            t.judge("modified_iff_differs", exc is None and m is expected,
                    {"flow": kind, "situation": situation, "subject": "copy" if g.is_copy else "original"},
                    case, expected, exc or m)
        t.outcome([kind, situation, g.is_copy, repr(m), exc])

        # --- copy: fresh id, equal content, not live ---
        feats = {"flow": kind}
        full0 = full(f)
        c, exc = call(f.copy)
        if exc is not None:
            t.bad("copy_no_exception", feats, case, None, exc)
            t.case(None, nontrivial=nontrivial, key=[kind, self.fingerprint(g)])
            return
        t.ok("copy_no_exception")
        c2, exc = call(f.copy)
        ids = [f.id, c.id, getattr(c2, "id", None)]
        t.judge("copy_fresh_id", isinstance(c.id, str) and bool(c.id) and len(set(ids)) == 3 and type(c) is type(f),
                feats, case, "three distinct ids, same class", ids + [type(c).__name__])
        a = [strip(full0[0], True), full0[1]]
        b, exc = call(lambda: [strip(c.get_state(), True), view(c)])
        t.judge("copy_equal_content", exc is None and a == b,
                {"flow": kind, "differs_in": ",".join(diff_keys(a, b)) if exc is None else "exception"}, case, a, exc or b)
        t.judge("copy_not_live", c.live is False, {"flow": kind, "original_live": f.live}, case, False, c.live)

        # --- independence, direction 1: edit the copy, the original must not change ---
        # (edit_all ends with backup / edit / revert, so when a backup was carried over the copy is reverted here:
        #  the original's state, its backup slot and its modified() answer must all survive that)
        self.edit_all(c, t)
        full1, exc1 = call(full, f)
        m1, excm = call(f.modified)
        if exc1 is None and full1 == full0 and excm is None and m1 == m:
            t.ok("copy_independent")
        else:
            t.bad("copy_independent", {"flow": kind, "direction": "edit_copy", "edit": self.culprit(s, "edit_copy")},
                  case, [full0, m], exc1 or excm or [full1, m1])
        # --- direction 2: edit the original (the scratch one), a copy taken before must not change ---
        if c2 is not None:
            c20, exc = call(full, c2)
            mc0, _ = call(c2.modified)
            self.edit_all(f, t)
            if g.snap is not None:
                # the copy was reverted first (direction 1); the original's own revert must still restore its backup
                post, excp = call(snapshot, f, g.is_copy)
                ok = excp is None and post == g.snap
                t.judge("revert_restores_backup", ok,
                        {"flow": kind, "subject": "original_after_copy_reverted",
                         "differs_in": "" if ok else (",".join(diff_keys(g.snap, post)) if post is not None else "exception")},
                        case, g.snap, excp or post)
            c21, exc2 = call(full, c2)
            mc1, exc3 = call(c2.modified)
            if exc is None and exc2 is None and exc3 is None and c20 == c21 and mc0 == mc1:
                t.ok("copy_independent")
            else:
                t.bad("copy_independent", {"flow": kind, "direction": "edit_original", "edit": self.culprit(s, "edit_original")},
                      case, [c20, mc0], exc or exc2 or exc3 or [c21, mc1])
            if g.snap is not None and c2._backup:
                # ... and the other order: the original was reverted first, the copy's revert must still restore the carried backup
                want = [strip(g.snap[0], True), g.snap[1]]
                call(c2.revert)
                post, excp = call(snapshot, c2, True)
                ok = excp is None and post == want
                t.judge("revert_restores_backup", ok,
                        {"flow": kind, "subject": "copy_after_original_reverted",
                         "differs_in": "" if ok else (",".join(diff_keys(want, post)) if post is not None else "exception")},
                        case, want, excp or post)

        t.case(None, nontrivial=nontrivial, key=[kind, self.fingerprint(s)])
        if nontrivial and len(hist) >= 3 and len(t.samples) < 2:
            t.samples.append({"kind": kind, "history": hist, "situation": situation, "modified": m})

    def ops_for(self):
        for name, enabled, n, fn in self.edits:
            for i in range(n - 1, -1, -1):
                yield name, enabled, fn, i

    def edit_all(self, x, t: Tally):
        """every edit of the alphabet, then backup / edit / revert, on flow x"""
        for name, enabled, fn, i in self.ops_for():
            if enabled(x):
                _, exc = call(fn, x, i)
                if exc is not None:
                    t.note("edit raised while exercising independence: %s" % name)
        call(x.backup)
        for name, enabled, fn, i in self.ops_for():
            if enabled(x) and i == 1:
                call(fn, x, i)
        call(x.revert)

    def culprit(self, s, direction):
        """name the first single edit that shows the interference (fresh scratch state per edit)"""
        for name, enabled, fn, i in self.ops_for():
            g = self.scratch(s)
            c, exc = call(g.f.copy)
            if exc is not None:
                return "copy-failed"
            target, witness = (c, g.f) if direction == "edit_copy" else (g.f, c)
            if not enabled(target):
                continue
            before, _ = call(full, witness)
            call(fn, target, i)
            after, _ = call(full, witness)
            if before != after:
                return name
        return "backup-revert-sequence"


# ---------------------------------------------------------------------------


def run(ctx):
    full_depth = ctx.pick(3, 4)
    core_depth = ctx.pick(4, 5)
    ctx.bounds = {
        "ops": ["backup", "revert", "copy (continue on the copy)", "edit(field, value)"],
        "full_alphabet": {"bfs_depth": full_depth, "flow_kinds": KINDS_FULL,
                          "edits": {k: {e[0]: e[2] for e in alphabet(k, "full")} for k in KINDS_FULL}},
        "core_alphabet": {"bfs_depth": core_depth, "flow_kinds": KINDS_CORE,
                          "edits": {k: {e[0]: e[2] for e in alphabet(k, "core")} for k in KINDS_CORE}},
    }
    # one BFS per (alphabet, flow kind).  The BFSs are independent, so they are dealt to the worker
    # pool whole (one fork per BFS, explorer single-process inside the worker) instead of forking a
    # pool per BFS level: the levels are small and a fork costs more than it saves here.
    tasks = [(which, kind, depth)
             for which, depth, kinds in (("core", core_depth, KINDS_CORE), ("full", full_depth, KINDS_FULL))
             for kind in kinds]
    for r in par.pmap(bfs_tasks, tasks, nchunks=len(tasks)):
        for (which, kind, depth, nops, states, trans), t in r:
            ctx.tally.merge(t)
            ctx.log("%s alphabet (%2d ops) %-9s depth %d: %6d states %7d transitions" % (which, nops, kind, depth, states, trans))
    total = ctx.tally.states
    evals = ctx.tally.extra.get("state_evaluations", 0)
    ctx.log("total states %d, state evaluations %d, distinct outcomes %d" % (total, evals, len(ctx.tally.outcomes)))
    if evals != total:
        raise HarnessError("every distinct state must be evaluated exactly once: %d states, %d evaluations" % (total, evals))


def bfs_tasks(chunk):
    global _SIDE
    out = []
    for which, kind, depth in chunk:
        _SIDE = Tally()
        t = Tally()
        spec = Spec(kind, which, depth)
        states, capped = explore.bfs(spec, depth, t, log=None, nproc=1)
        if _SIDE.evaluations or capped:
            raise HarnessError("state clauses left unflushed / unexpected cap")
        out.append(((which, kind, depth, len(spec._acts(spec.build().f)), states, t.transitions), t))
    return out


def replay(case, t: Tally, verbose=False):
    hist = case["history"]
    spec = Spec(case["kind"], case.get("alphabet", "full"), len(hist))
    s = spec.build()
    side = Tally()
    for a in hist:
        spec.apply(s, a)
        spec.check(s, s.hist, t)
        if verbose:
            m, exc = call(s.f.modified)
            print("  after %-28s modified()=%s backup=%s model_has_backup=%s copy=%s id=%s" % (
                a, exc or m, bool(s.f._backup), s.snap is not None, s.is_copy, s.f.id))
    spec.state_clauses(s, side)
    t.merge(side)
