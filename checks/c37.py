"""C37 - flow files are crash-consistent.

Fault model: writing stops at an arbitrary byte => the file on disk is a prefix of what a
complete run would have written.  Every prefix (every truncation offset 0..len) of files holding
1-3 flows of every type is put on a real file under /dev/shm and loaded with the real
FlowReader (and, for a sub-space, through the real ReadFile.load_flows): the result must be
exactly the flows whose record ends at or before the cut, in order and with identical state,
followed by a clean end or a FlowReadException - never anything else, never a partial flow.

Files are produced by the real writers: the `save.file` command (Save.save -> FlowWriter),
FilteredFlowWriter, and stream saving (the real Save addon driven through fixed hook sequences
inside mitmproxy.test.taddons).  For stream saving the on-disk bytes are additionally read back
through a second file handle after *every* hook: they must be a sequence of complete records
holding exactly the flows finished so far - also when save_stream_file is a strftime pattern and
the (patched, deterministic) clock makes the expanded name change before any step of the sequence.
View.load_file is judged by what the view holds afterwards; ReadFile.load_flows by what reaches the master's addons (a recording addon and the real
View) through the real Master.load_flow.  Record boundaries and record ids are computed
with an independent tnetstring framer, not with mitmproxy's.
"""
from __future__ import annotations

import asyncio
import datetime
import glob
import itertools
import logging
import os
import shutil

from mitmproxy import ctx as mctx
from mitmproxy import exceptions
from mitmproxy import flowfilter
from mitmproxy.addons import readfile
from mitmproxy.addons import save
from mitmproxy.addons import view
from mitmproxy.io import FilteredFlowWriter
from mitmproxy.test import taddons

from vmc.refs import flowgen as G
from vmc.tally import HarnessError, Tally

META = {
    "level": "fault_enumeration",
    "technique": "every truncation offset of flow files written by the real writers (save.file, FilteredFlowWriter, stream-saving Save addon) is materialised "
                 "on a real file and loaded by the real FlowReader / ReadFile.load_flows; the on-disk stream file is re-read after every hook of fixed hook sequences",
    "claim": "for every enumerated crash point the loader returns exactly the completely written flows, in order, then ends cleanly or with FlowReadException; "
             "fault enumeration because the quantifier is over crash points (byte offsets and hook boundaries), each of which is executed on the implementation",
    "rule": "a case is (writer, flow sequence or hook scenario, truncation offset, loader) or (hook scenario, hook index); distinct = distinct case description; "
            "non-trivial = the cut lies strictly inside a record (a partially written flow exists), or a hook boundary after at least one hook",
    "assumptions": [
        "a crash leaves a prefix of the bytes handed to write(): torn/re-ordered sectors are not modelled (each record is one write+flush)",
        "the stream file is observed through a second file descriptor after each hook returns: what the OS has, not what a power loss would keep (no fsync in mitmproxy; out of scope)",
        "what Save should record (filters, which hooks complete a flow) is C39's subject; here the scenarios are fixed and the expectation is the list of flows whose completion hook has returned",
        "whether a cut inside a record ends with FlowReadException or cleanly is left open, as in the statement; a cut on a record boundary must end cleanly (that file is byte-identical to a complete save of fewer flows)",
    ],
}

SCRATCH = "/dev/shm/vmc-%d-c37" % os.getpid()

# flows files are made of: (flow type, deviations)
POOL = [("http", []), ("ws", []), ("tcp", []), ("udp", []), ("dns", []),
        ("http", ["response=none", "error=typical"]), ("dns", ["response=none"]), ("tcp", ["messages=empty", "metadata=nested"])]


def pool_flow(i, n):
    if i == "big":
        f = G.build("http", [], n=n)
        f.response.data.content = b"\x00\xffab" * 2250  # larger than a BufferedWriter buffer
        return f
    return G.build(POOL[i][0], POOL[i][1], n=n)


def _scratch(name):
    os.makedirs(SCRATCH, exist_ok=True)
    return os.path.join(SCRATCH, "%d-%s" % (os.getpid(), name))


# ---------------------------------------------------------------------------
# writers (real code)


def write_explicit(flows, path):
    """the `save.file` command"""
    sa = save.Save()
    with taddons.context(sa):
        sa.save(flows, path)


def write_filtered(flows, path, flt):
    with open(path, "wb") as fo:
        w = FilteredFlowWriter(fo, flowfilter.parse(flt) if flt else None)
        for f in flows:
            w.add(f)


# hook scenarios for stream saving.  step = (flow key, hook) | ("opt", {option: value})
# flow keys: a, b = HTTP, w = HTTP+WebSocket, t = TCP, u = UDP, d = DNS, B = HTTP with a 9 KB body
COMPLETES = {"response", "error", "websocket_end", "tcp_end", "tcp_error", "udp_end", "udp_error", "dns_response", "dns_error"}
SCENARIOS = {
    "sequential": [("a", "request"), ("a", "response"), ("t", "tcp_start"), ("t", "tcp_end"), ("d", "dns_request"), ("d", "dns_response"),
                   ("u", "udp_start"), ("u", "udp_end"), ("w", "request"), ("w", "response"), ("w", "websocket_end"), ("opt", {"save_stream_file": None})],
    "interleaved": [("a", "request"), ("b", "request"), ("t", "tcp_start"), ("b", "response"), ("d", "dns_request"), ("w", "request"), ("a", "error"),
                    ("u", "udp_start"), ("t", "tcp_error"), ("w", "response"), ("d", "dns_error"), ("w", "websocket_end"), ("u", "udp_error"),
                    ("opt", {"save_stream_file": None})],
    "open-at-stop": [("a", "request"), ("t", "tcp_start"), ("b", "request"), ("b", "response"), ("opt", {"save_stream_file": None})],
    "append-restart": [("a", "request"), ("a", "response"), ("opt", {"save_stream_file": None}), ("opt", {"save_stream_file": "+PATH"}),
                       ("b", "request"), ("b", "response"), ("t", "tcp_start"), ("t", "tcp_end"), ("opt", {"save_stream_file": None})],
    "filtered": [("opt", {"save_stream_filter": "~tcp | ~dns"}), ("a", "request"), ("a", "response"), ("t", "tcp_start"), ("t", "tcp_end"),
                 ("d", "dns_request"), ("d", "dns_response"), ("u", "udp_start"), ("u", "udp_end"), ("opt", {"save_stream_file": None})],
    "big-record": [("B", "request"), ("B", "response"), ("a", "request"), ("a", "response"), ("t", "tcp_start"), ("opt", {"save_stream_file": None})],
}
KEYS = {"a": (0, 1), "b": (0, 2), "w": (1, 3), "t": (2, 4), "u": (3, 5), "d": (4, 6), "B": ("big", 7)}

# time-based rotation: save_stream_file carries a strftime pattern and the (patched, deterministic) clock advances
# at a chosen point of the hook sequence, so that the expanded file name changes between hooks.
# "rotate@p" = the interleaved scenario with one clock tick before step p; "rotate@p,q" = two ticks.
ROTATE_BASE = "interleaved"
ROTATE_SUFFIX = "-%H%M"


def scenario_steps(name):
    if name in SCENARIOS:
        return SCENARIOS[name]
    if name.startswith("rotate"):
        kind, _, pos = name.partition("@")
        steps = list(SCENARIOS[ROTATE_BASE])
        if kind == "rotate-append":
            steps = [("opt", {"save_stream_file": None}), ("opt", {"save_stream_file": "+PATH"})] + steps
        for k, p in enumerate(sorted(int(x) for x in pos.split(","))):
            steps.insert(p + k, ("clock", 1))
        return steps
    raise ValueError(name)


def scenario_names(thorough):
    names = list(SCENARIOS)
    n = len(SCENARIOS[ROTATE_BASE])
    names += ["rotate@%d" % p for p in range(n)]
    names += ["rotate-append@%d" % p for p in (range(n + 2) if thorough else (3, 6, 11))]
    if thorough:
        names += ["rotate@%d,%d" % (p, q) for p in range(n) for q in range(p, n)]
    return names


class FakeDatetime(datetime.datetime):
    """the clock Save.maybe_rotate_to_new_file reads, owned by the scenario"""
    minutes = 0

    @classmethod
    def today(cls):
        return datetime.datetime(2000, 1, 1, 0, 0) + datetime.timedelta(minutes=cls.minutes)


def matches_filter(flt, key):
    if not flt:
        return True
    if flt == "~tcp | ~dns":
        return key in ("t", "d")
    raise HarnessError("scenario uses a filter the harness has no independent predicate for")


STARTS = {"request", "tcp_start", "udp_start", "dns_request"}


class StreamRun:
    """drives the real Save addon through a scenario and keeps the list of flows whose completion hook has
    returned (the expectation); `observe(run, step_index, step)` is called after every step"""

    def __init__(self, name, path):
        self.name, self.path = name, path
        self.spec = path + (ROTATE_SUFFIX if name.startswith("rotate") else "")  # value of save_stream_file
        self.flows = {k: pool_flow(i, n) for k, (i, n) in KEYS.items()}
        self.finished: list[str] = []  # flow ids in completion order (filter applied)
        self.snap: dict[str, tuple] = {}  # id -> canon(state) at the moment it was handed to the writer
        self.open: set[str] = set()  # keys of flows started while saving and not finished yet
        self.flt = None
        self.saving = False
        self.stopped_with = None  # ids that the stop performed in the current step must have written (any order)
        self.hook_exc = None  # exception that escaped the hook / option change of the current step

    def _finish(self, key):
        f = self.flows[key]
        self.snap[f.id] = G.canon(f.get_state())
        return f.id

    def files(self):
        """every file the stream has produced so far (one, unless the name pattern rotated)"""
        return sorted(p for p in glob.glob(glob.escape(self.path) + "*"))

    def _call(self, fn, *a, **kw):
        try:
            fn(*a, **kw)
        except KeyboardInterrupt:
            raise
        except BaseException as e:  # noqa: B036 - incl. the SystemExit Save raises when it cannot write
            self.hook_exc = "%s: %s" % (type(e).__name__, str(e)[:200])

    def run(self, observe):
        real_datetime = save.datetime
        FakeDatetime.minutes = 0
        save.datetime = FakeDatetime
        try:
            self._run(observe)
        finally:
            save.datetime = real_datetime

    def _run(self, observe):
        sa = save.Save()
        with taddons.context(sa) as tctx:
            tctx.configure(sa, save_stream_file=self.spec)
            self.saving = True
            observe(self, -1, None)
            for i, step in enumerate(scenario_steps(self.name)):
                self.stopped_with = None
                self.hook_exc = None
                if step[0] == "clock":
                    FakeDatetime.minutes += step[1]
                elif step[0] == "opt":
                    opts = dict(step[1])
                    if isinstance(opts.get("save_stream_file"), str):
                        opts["save_stream_file"] = opts["save_stream_file"].replace("PATH", self.spec)
                    if "save_stream_filter" in opts:
                        self.flt = opts["save_stream_filter"]
                    if "save_stream_file" in opts:
                        if opts["save_stream_file"] is None:
                            if self.saving:
                                self.stopped_with = [self._finish(k) for k in sorted(self.open) if matches_filter(self.flt, k)]
                                self.open.clear()
                            self.saving = False
                        else:
                            self.saving = True
                    self._call(tctx.configure, sa, **opts)
                else:
                    key, hook = step
                    f = self.flows[key]
                    is_ws = getattr(f, "websocket", None) is not None
                    completes = hook in COMPLETES and not (is_ws and hook in ("response", "error"))
                    if self.saving:
                        if completes:
                            if matches_filter(self.flt, key):
                                self.finished.append(self._finish(key))
                            self.open.discard(key)
                        elif hook in STARTS:
                            self.open.add(key)
                    self._call(getattr(sa, hook), f)
                observe(self, i, step)
            if self.saving:
                self._call(tctx.configure, sa, save_stream_file=None)


def disk_bytes(path):
    if not os.path.exists(path):
        return b""
    with open(path, "rb") as fo:
        return fo.read()


# ---------------------------------------------------------------------------
# file table (per worker cache): spec -> (data, record_ends, expected canon states, ids)

_FILES: dict = {}


def make_file(spec):
    """spec = {"w": writer, "s": [pool indices]} or {"w": "stream", "sc": scenario} -> (data, ends, canon states)"""
    key = repr(sorted(spec.items()))
    if key in _FILES:
        return _FILES[key]
    path = _scratch("w.mitm")
    if os.path.exists(path):
        os.unlink(path)
    _cleanup(path)
    if spec["w"] == "stream":
        run = StreamRun(spec["sc"], path)
        run.run(lambda *a: None)
        data = disk_bytes(path)
        ends = G.record_ends(data)
        ids = [G.tn_loads(data, s)[0]["id"] for s in ([0] + ends[:-1] if ends else [])]
        missing = [i for i in ids if i not in run.snap]
        if missing:
            raise HarnessError("stream file holds a record the scenario model does not know: %r" % missing)
        want = [run.snap[i] for i in ids]
    else:
        flows = [pool_flow(i, n + 1) for n, i in enumerate(spec["s"])]
        want = [G.canon(f.get_state()) for f in flows]
        if spec["w"] == "save.file":
            write_explicit(flows, path)
        elif spec["w"] == "filtered":
            write_filtered(flows, path, None)
        elif spec["w"] == "filtered-matchall":
            write_filtered(flows, path, "~all")
        else:
            raise ValueError(spec["w"])
        data = disk_bytes(path)
        ends = G.record_ends(data)
        if len(ends) != len(flows):
            raise HarnessError("writer %s produced %d records for %d flows" % (spec["w"], len(ends), len(flows)))
    os.unlink(path)
    types = [G.tn_loads(data, st)[0]["type"] for st in ([0] + ends[:-1] if ends else [])]  # independent decoding
    _FILES[key] = (data, ends, want, types)
    return _FILES[key]


# ---------------------------------------------------------------------------
# loaders (real code)

_RF: dict = {}
_FIRST_HOOKS = ["requestheaders", "request", "responseheaders", "response", "error", "tcp_start", "tcp_end", "tcp_error",
                "udp_start", "udp_end", "udp_error", "dns_request", "dns_response", "dns_error", "websocket_start", "websocket_end"]


class Recorder:
    """an addon that records every flow the master hands to its addons, in order of first appearance"""

    def __init__(self):
        self.flows = []

    def _seen(self, f):
        if not any(f is x for x in self.flows):
            self.flows.append(f)


for _h in _FIRST_HOOKS:
    setattr(Recorder, _h, lambda self, flow: self._seen(flow))


# loader name -> (readfile_filter option, independent predicate on the record's flow type)
READFILE_LOADERS = {
    "readfile": (None, lambda ty: True),
    "readfile-filter-all": ("~all", lambda ty: True),
    "readfile-filter-some": ("~http", lambda ty: ty == "http"),
    "readfile-filter-none": ("~http & ~tcp", lambda ty: False),
}


def load_readfile(path, loader="readfile"):
    """the real ReadFile.load_flows over a real file, with the loader's readfile_filter configured; the result is
    what reached the addons of the master (a recording addon and the real View) through the real Master.load_flow"""
    # one master per process (mitmproxy.ctx.master is a module global): the filter option is re-configured when it changes
    if "loop" not in _RF:
        _RF["loop"] = asyncio.new_event_loop()

        async def setup():
            rf, rec, vw = readfile.ReadFile(), Recorder(), view.View()
            _RF["ctx"] = (rf, rec, vw, taddons.context(rf, rec, vw))
            _RF["flt"] = None
        _RF["loop"].run_until_complete(setup())
    flt = READFILE_LOADERS[loader][0]
    if _RF["flt"] != flt:
        async def reconf():
            _RF["ctx"][3].configure(_RF["ctx"][0], readfile_filter=flt)
        _RF["loop"].run_until_complete(reconf())
        _RF["flt"] = flt
    r = G.ReadResult()
    G.reset_module_state()
    rf, rec, vw, _ = _RF["ctx"]
    rec.flows = []
    vw.clear()

    async def go():
        # other contexts created in this process (Save scenarios) re-point the module-global ctx: point it back at ours
        mctx.master, mctx.options = _RF["ctx"][3].master, _RF["ctx"][3].master.options
        with open(path, "rb") as fo:
            return await rf.load_flows(fo)

    cnt = None
    try:
        cnt = _RF["loop"].run_until_complete(go())
    except exceptions.FlowReadException as e:
        r.end, r.exc, r.msg = "flow_read_error", "FlowReadException", str(e)
    except KeyboardInterrupt:
        raise
    except BaseException as e:  # noqa: B036
        r.end, r.exc, r.msg = "other", type(e).__name__, str(e)[:200]
    r.flows = list(rec.flows)
    in_view = sorted(f.id for f in vw)
    if r.end != "other" and in_view != sorted(f.id for f in r.flows):
        r.end, r.exc, r.msg = "other", "ViewMismatch", "addons saw %d flows, the view holds %d" % (len(r.flows), len(in_view))
    elif cnt is not None and cnt != len(r.flows):
        r.end, r.exc, r.msg = "other", "WrongCount", "load_flows returned %r, %d flows reached the addons" % (cnt, len(r.flows))
    return r


class _ErrorLog:
    """stands in for the `logging` module inside addons/view.py while View.load_file runs: records what it reports"""

    def __init__(self):
        self.errors = []

    def error(self, msg, *a, **kw):
        self.errors.append(str(msg))

    def __getattr__(self, name):
        return getattr(logging, name)


def load_view(path):
    """the real View.load_file (command view.flows.load): the result is what the view holds afterwards, in load order.
    load_file reports a FlowReadException through logging.error instead of raising it."""
    # same single master/context as the ReadFile loader
    if "ctx" not in _RF:
        load_readfile(path)  # creates the context
    r = G.ReadResult()
    G.reset_module_state()
    vw = _RF["ctx"][2]
    vw.clear()
    log = _ErrorLog()
    real = view.logging
    view.logging = log
    try:
        vw.load_file(path)
    except KeyboardInterrupt:
        raise
    except BaseException as e:  # noqa: B036
        r.end, r.exc, r.msg = "other", type(e).__name__, str(e)[:200]
    finally:
        view.logging = real
    if r.end == "clean" and log.errors:
        r.end, r.exc, r.msg = "flow_read_error", "FlowReadException", log.errors[0]
    r.flows = list(vw._store.values())
    if sorted(f.id for f in vw) != sorted(f.id for f in r.flows):
        r.end, r.exc, r.msg = "other", "ViewMismatch", "store and view order disagree"
    return r


def _without_id(c):
    """canon(state) without the top-level id (View.load_file gives every loaded flow a fresh id)"""
    return ("d", tuple(p for p in c[1] if p[0] != ("s", "id")))


def load(path, loader):
    if loader == "view":
        return load_view(path)
    if loader in READFILE_LOADERS:
        return load_readfile(path, loader)
    with open(path, "rb") as fo:
        return G.read(fo)


def judge_prefix(r, data_len, ends, want, o, feats, case, t: Tally, keep=None):
    """the crash-consistency oracle for a file cut at offset o (`keep[i]`: record i passes the loader's filter)"""
    nrec = sum(1 for e in ends if e <= o)
    on_boundary = o == 0 or o in ends
    want = [w for i, w in enumerate(want[:nrec]) if keep is None or keep[i]]
    k = len(want)
    t.judge("ends_cleanly_or_with_flow_read_error", r.end in ("clean", "flow_read_error"), dict(feats, exc=r.exc or "-"), case,
            "clean end or FlowReadException", "%s: %s" % (r.exc, r.msg))
    t.judge("never_a_partial_flow", len(r.flows) <= k, feats, case, "at most %d flows" % k, "%d flows" % len(r.flows))
    got = []
    for f in r.flows:
        try:
            got.append(G.canon(f.get_state()))
        except KeyboardInterrupt:
            raise
        except BaseException as e:  # noqa: B036
            got.append(("get_state failed", type(e).__name__))
    if feats.get("loader") == "view":
        got, want = [_without_id(g) for g in got], [_without_id(w) for w in want]
    ok = got == want[:k]
    t.judge("prefix_of_complete_flows", ok, feats, case, "the first %d flows with their saved state" % k,
            None if ok else {"loaded": len(got), "first_difference": next((i for i, (a, b) in enumerate(zip(got, want)) if a != b), min(len(got), k))})
    if on_boundary:
        t.judge("record_boundary_ends_cleanly", r.end == "clean", feats, case, "clean end", "%s: %s" % (r.exc, r.msg))
    t.outcome((r.end, r.exc, on_boundary, len(r.flows) == k))
    return on_boundary


def trunc_case(case, t: Tally):
    data, ends, want, types = make_file(case["f"])
    o = case["o"]
    keep = [READFILE_LOADERS[case["r"]][1](ty) for ty in types] if case["r"] in READFILE_LOADERS else None
    path = _scratch("t.mitm")
    with open(path, "wb") as fo:
        fo.write(data[:o])
    r = load(path, case["r"])
    feats = {"writer": case["f"]["w"], "loader": case["r"], "cut": "boundary" if (o == 0 or o in ends) else ("length-prefix" if _in_prefix(data, ends, o) else "payload")}
    b = judge_prefix(r, len(data), ends, want, o, feats, case, t, keep)
    t.case(case if (o % 997 == 0 and not b) else None, nontrivial=not b, key=case)


def _in_prefix(data, ends, o):
    start = max([0] + [e for e in ends if e <= o])
    colon = data.index(b":", start)
    return o <= colon


def _cleanup(path):
    for p in glob.glob(glob.escape(path) + "*"):
        os.unlink(p)


def _subsequence(xs, ys):
    it = iter(ys)
    return all(x in it for x in xs)


def hooks_case(case, t: Tally):
    """one scenario: re-read every on-disk stream file after every step"""
    name = case["sc"]
    path = _scratch("s.mitm")
    _cleanup(path)
    kind = name.split("@")[0]

    def observe(run: StreamRun, i, step):
        feats = {"scenario": kind, "after": "start" if step is None else (step[1] if step[0] not in ("opt", "clock") else {"opt": "option-change", "clock": "clock-tick"}[step[0]])}
        sub = dict(case, i=i)
        t.judge("hook_returns_normally", run.hook_exc is None, feats, sub, "the hook returns", run.hook_exc)
        per_file = []  # [(path, [ids], clean?, [canon states])]
        complete = True
        for p in run.files():
            data = disk_bytes(p)
            try:
                ends = G.record_ends(data)
                ids = [G.tn_loads(data, s)[0].get("id") for s in ([0] + ends[:-1] if ends else [])]
            except ValueError:
                complete, ids = False, []
            with open(p, "rb") as fo:
                r = G.read(fo)
            states = []
            for f in r.flows:
                states.append(G.canon(f.get_state()))
            per_file.append((p, ids, r.end == "clean" and [f.id for f in r.flows] == ids, states, r))
        t.judge("stream_file_holds_only_complete_records", complete, feats, sub, "every stream file is a sequence of complete records", [len(disk_bytes(p)) for p in run.files()])
        on_disk = [i_ for _, ids, _, _, _ in per_file for i_ in ids]
        if run.stopped_with is not None:
            # records written at shutdown come in no particular order: take the order found on disk, require the same multiset
            tail = [i_ for i_ in on_disk if i_ not in run.finished]
            t.judge("open_flows_written_at_stop", sorted(tail) == sorted(run.stopped_with), feats, sub, sorted(run.stopped_with), sorted(tail))
            run.finished.extend(tail if sorted(tail) == sorted(run.stopped_with) else run.stopped_with)
        expect = list(run.finished)
        ok = sorted(on_disk) == sorted(expect) and len(set(on_disk)) == len(on_disk)
        ok = ok and all(clean and _subsequence(ids, expect) for _, ids, clean, _, _ in per_file)
        if ok:
            ok = all(st == [run.snap[i_] for i_ in ids] for _, ids, _, st, _ in per_file)
        t.judge("stream_file_complete_at_every_hook_boundary", ok, feats, sub, {"end": "clean", "ids": expect},
                [{"file": os.path.basename(p)[-12:], "end": r.end, "exc": r.exc, "ids": ids} for p, ids, _, _, r in per_file])
        t.case(sub if i in (2, 5) and kind != "rotate" else None, nontrivial=i >= 0, key=sub)

    try:
        StreamRun(name, path).run(observe)
    finally:
        _cleanup(path)


def one(case, t: Tally):
    if case["k"] == "trunc":
        trunc_case(case, t)
    elif case["k"] == "hooks":
        if "i" in case:
            case = {k: v for k, v in case.items() if k != "i"}
        hooks_case(case, t)
    else:
        raise ValueError(case["k"])


def chunk(cases):
    logging.disable(logging.CRITICAL)
    t = Tally()
    try:
        for c in cases:
            one(c, t)
    finally:
        logging.disable(logging.NOTSET)
    return t


# ---------------------------------------------------------------------------


def file_specs(thorough):
    """(spec, loaders) in canonical order"""
    out = []
    n = len(POOL)
    for i in range(n):
        out.append(({"w": "save.file", "s": [i]}, ["reader", "readfile"]))
    for i in range(n):
        out.append(({"w": "filtered", "s": [i]}, ["reader"]))
    for i in range(5):
        out.append(({"w": "filtered-matchall", "s": [i]}, ["reader"]))
    pair_pool = range(n) if thorough else [0, 1, 2, 4]  # quick: udp (same shape as tcp) only in single-flow files
    for s in itertools.product(pair_pool, repeat=2):
        both = (s[0] < 5 and s[1] < 5) if thorough else (s[0] in (0, 2, 4) and s[1] in (0, 2, 4))
        loaders = ["reader", "readfile"] if both else ["reader"]
        if both and (thorough or s[0] != s[1]):
            loaders.append("view")
        if both and (thorough or s[0] != s[1]):
            # readfile_filter set: matching every flow, some flows (HTTP only), none
            loaders += ["readfile-filter-all", "readfile-filter-some"] + (["readfile-filter-none"] if thorough else [])
        out.append(({"w": "save.file", "s": list(s)}, loaders))
    if thorough:
        # three flows: every ordered choice of three distinct types, and three flows of the same type
        for s in list(itertools.permutations(range(5), 3)) + [(i, i, i) for i in range(5)]:
            out.append(({"w": "save.file" if sum(s) % 2 else "filtered", "s": list(s)}, ["reader"]))
    for sc in SCENARIOS:  # (rotation scenarios produce several files; they are judged at the hook boundaries only)
        if sc == "big-record" and not thorough:
            continue
        out.append(({"w": "stream", "sc": sc}, (["reader", "readfile"] if thorough or sc in ("sequential", "interleaved", "open-at-stop") else ["reader"])
                    + (["view"] if thorough or sc == "interleaved" else [])))
    return out


def run(ctx):
    thorough = ctx.thorough
    logging.disable(logging.CRITICAL)
    names = scenario_names(thorough)
    cases = [{"k": "hooks", "sc": sc} for sc in names]
    nfiles = 0
    try:
        for spec, loaders in file_specs(thorough):
            data, ends, want, _ = make_file(spec)
            nfiles += 1
            for loader in loaders:
                for o in range(len(data) + 1):
                    cases.append({"k": "trunc", "f": spec, "o": o, "r": loader})
    finally:
        logging.disable(logging.NOTSET)
        shutil.rmtree(SCRATCH, ignore_errors=True)
    ctx.log("%d files (%d stream-saved), %d truncation cases, %d hook scenarios with %d hook boundaries" % (
        nfiles, len([s for s, _ in file_specs(thorough) if s["w"] == "stream"]), len(cases) - len(names), len(names),
        sum(len(scenario_steps(n)) + 1 for n in names)))
    ctx.bounds = {
        "flow_pool": ["%s%s" % (t, d or "") for t, d in POOL], "max_flows_per_file": 3 if thorough else 2,
        "pair_pool": 8 if thorough else 4, "triples": "ordered triples of distinct base types + homogeneous triples (65 files)" if thorough else "none",
        "writers": ["save.file", "FilteredFlowWriter(None)", "FilteredFlowWriter(~all)", "Save addon stream"],
        "loaders": ["FlowReader on a real file", "ReadFile.load_flows", "View.load_file (view.flows.load)"] + ["ReadFile.load_flows with readfile_filter=%s" % v[0] for v in READFILE_LOADERS.values() if v[0]], "truncation": "every offset 0..len",
        "hook_scenarios": {k: len(v) for k, v in SCENARIOS.items()}, "files": nfiles,
        "rotation_scenarios": "clock tick (strftime name change) before every step of the interleaved scenario%s; append mode at %s positions" % (
            " and every pair of positions" if thorough else "", "all" if thorough else "3"),
        "hook_scenarios_total": len(names),
    }
    ctx.info["files"] = nfiles
    try:
        G.run_cases(one, cases, ctx.tally, setup=lambda: logging.disable(logging.CRITICAL), teardown=lambda: logging.disable(logging.NOTSET))
    finally:
        shutil.rmtree(SCRATCH, ignore_errors=True)


def replay(case, t: Tally, verbose=False):
    logging.disable(logging.CRITICAL)
    try:
        one(case, t)
    finally:
        logging.disable(logging.NOTSET)
        shutil.rmtree(SCRATCH, ignore_errors=True)
