"""tlsref - an independent, strict reader (and writer) for TLS / DTLS ClientHello first flights.

Written from RFC 5246 / 8446 (record layer, handshake header, ClientHello), RFC 6066 (SNI),
RFC 7301 (ALPN) and RFC 6347 (DTLS record + handshake fragment headers).  It shares no code
with mitmproxy and does not use kaitai: plain slicing with explicit bounds.

The reader is *strict on purpose*: every length field must agree exactly with the bytes that
are there.  A check uses it in one direction only - "tlsref reads a ClientHello  =>  mitmproxy
must report the same values" - so being strict can never demand more of mitmproxy than the
property states (inputs tlsref rejects are only subject to the totality clause).

    read_tls(data)   -> Result    status in {"hello", "incomplete", "invalid"}
    read_dtls(data)  -> Result    (DTLS handshake fragments are reassembled, in order)
"""
from __future__ import annotations


class Invalid(Exception):
    pass


class Hello:
    __slots__ = ("version", "random", "session_id", "cookie", "ciphers", "compression", "extensions",
                 "sni_lists", "alpn_lists")

    def __init__(self):
        self.version = 0
        self.random = b""
        self.session_id = b""
        self.cookie = None
        self.ciphers = []
        self.compression = b""
        self.extensions = None  # None: no extension block at all
        self.sni_lists = []  # one list of (name_type, bytes) per server_name extension
        self.alpn_lists = []  # one list of bytes per ALPN extension

    def ext_list(self):
        return list(self.extensions or [])


class Result:
    __slots__ = ("status", "hello", "reason", "consumed")

    def __init__(self, status, hello=None, reason="", consumed=0):
        self.status = status
        self.hello = hello
        self.reason = reason
        self.consumed = consumed

    def __repr__(self):
        return "Result(%s %s)" % (self.status, self.reason)


def _u16(b, i):
    return (b[i] << 8) | b[i + 1]


def _u24(b, i):
    return (b[i] << 16) | (b[i + 1] << 8) | b[i + 2]


def read_body(body: bytes, dtls: bool) -> Hello:
    """ClientHello body (after the handshake header). Raises Invalid."""
    h = Hello()
    n = len(body)
    p = 0
    if n < 2 + 32 + 1:
        raise Invalid("body shorter than version+random+sid length")
    h.version = _u16(body, 0)
    h.random = bytes(body[2:34])
    p = 34
    sl = body[p]
    p += 1
    if sl > 32 or p + sl > n:
        raise Invalid("session id")
    h.session_id = bytes(body[p:p + sl])
    p += sl
    if dtls:
        if p + 1 > n:
            raise Invalid("cookie length missing")
        cl = body[p]
        p += 1
        if p + cl > n:
            raise Invalid("cookie")
        h.cookie = bytes(body[p:p + cl])
        p += cl
    if p + 2 > n:
        raise Invalid("cipher length missing")
    cl = _u16(body, p)
    p += 2
    if cl < 2 or cl % 2 or p + cl > n:
        raise Invalid("cipher suites length %d" % cl)
    h.ciphers = [_u16(body, p + i) for i in range(0, cl, 2)]
    p += cl
    if p + 1 > n:
        raise Invalid("compression length missing")
    ml = body[p]
    p += 1
    if ml < 1 or p + ml > n:
        raise Invalid("compression methods")
    h.compression = bytes(body[p:p + ml])
    p += ml
    if p == n:
        return h
    if p + 2 > n:
        raise Invalid("extension block length truncated")
    el = _u16(body, p)
    p += 2
    if p + el != n:
        raise Invalid("extension block length %d != remaining %d" % (el, n - p))
    exts = []
    while p < n:
        if p + 4 > n:
            raise Invalid("extension header truncated")
        et = _u16(body, p)
        ln = _u16(body, p + 2)
        p += 4
        if p + ln > n:
            raise Invalid("extension body overruns block")
        eb = bytes(body[p:p + ln])
        p += ln
        exts.append((et, eb))
        if et == 0:
            h.sni_lists.append(_read_sni(eb))
        elif et == 16:
            h.alpn_lists.append(_read_alpn(eb))
    h.extensions = exts
    return h


def _read_sni(eb: bytes):
    if len(eb) < 2:
        raise Invalid("server_name extension without list length")
    if _u16(eb, 0) != len(eb) - 2:
        raise Invalid("server_name list length")
    p = 2
    out = []
    while p < len(eb):
        if p + 3 > len(eb):
            raise Invalid("server_name entry header")
        nt = eb[p]
        ln = _u16(eb, p + 1)
        p += 3
        if p + ln > len(eb):
            raise Invalid("server_name entry overruns")
        out.append((nt, bytes(eb[p:p + ln])))
        p += ln
    if not out:
        raise Invalid("empty server_name list")
    return out


def _read_alpn(eb: bytes):
    if len(eb) < 2:
        raise Invalid("ALPN extension without list length")
    if _u16(eb, 0) != len(eb) - 2:
        raise Invalid("ALPN list length")
    p = 2
    out = []
    while p < len(eb):
        ln = eb[p]
        p += 1
        if ln == 0 or p + ln > len(eb):
            raise Invalid("ALPN protocol name")
        out.append(bytes(eb[p:p + ln]))
        p += ln
    return out


MAX_RECORD = 1 << 14


def read_tls(data: bytes) -> Result:
    data = bytes(data)
    p = 0
    acc = b""
    n = len(data)
    while True:
        rest = n - p
        if rest < 5:
            # a partial header must still look like the start of a handshake record
            if rest >= 1 and data[p] != 0x16:
                return Result("invalid", reason="record type")
            if rest >= 2 and data[p + 1] != 3:
                return Result("invalid", reason="record version major")
            if rest >= 3 and data[p + 2] > 3:
                return Result("invalid", reason="record version minor")
            return Result("incomplete", reason="record header")
        if data[p] != 0x16:
            return Result("invalid", reason="record content type")
        if data[p + 1] != 3 or data[p + 2] > 3:
            return Result("invalid", reason="record header")
        ln = _u16(data, p + 3)
        if ln == 0 or ln > MAX_RECORD:
            return Result("invalid", reason="record length %d" % ln)
        if rest < 5 + ln:
            # what is there of the fragment can already be checked
            part = acc + data[p + 5:]
            if len(part) >= 1 and part[0] != 1:
                return Result("invalid", reason="handshake type")
            return Result("incomplete", reason="record body")
        acc += data[p + 5:p + 5 + ln]
        p += 5 + ln
        if acc[0] != 1:
            return Result("invalid", reason="handshake type %d" % acc[0])
        if len(acc) >= 4:
            L = _u24(acc, 1)
            if len(acc) >= 4 + L:
                try:
                    h = read_body(acc[4:4 + L], False)
                except Invalid as e:
                    return Result("invalid", reason=str(e))
                return Result("hello", h, consumed=p)


DTLS_VERSIONS = (0xFEFF, 0xFEFD)


def read_dtls(data: bytes) -> Result:
    """records of one or more datagrams concatenated; handshake fragments must arrive in order"""
    data = bytes(data)
    p = 0
    n = len(data)
    total = None
    seq = None
    got = b""
    while True:
        rest = n - p
        if rest < 13:
            if rest >= 1 and data[p] != 0x16:
                return Result("invalid", reason="record type")
            if rest >= 3 and _u16(data, p + 1) not in DTLS_VERSIONS:
                return Result("invalid", reason="record version")
            return Result("incomplete", reason="record header")
        if data[p] != 0x16:
            return Result("invalid", reason="record content type")
        if _u16(data, p + 1) not in DTLS_VERSIONS:
            return Result("invalid", reason="record header")
        if _u16(data, p + 3) != 0:
            return Result("invalid", reason="epoch of a first flight must be 0")
        ln = _u16(data, p + 11)
        if ln == 0 or ln > MAX_RECORD:
            return Result("invalid", reason="record length")
        if rest < 13 + ln:
            return Result("incomplete", reason="record body")
        rec = data[p + 13:p + 13 + ln]
        p += 13 + ln
        q = 0
        while q < len(rec):
            if q + 12 > len(rec):
                return Result("invalid", reason="handshake fragment header does not fit the record")
            if rec[q] != 1:
                return Result("invalid", reason="handshake type")
            L = _u24(rec, q + 1)
            ms = _u16(rec, q + 4)
            fo = _u24(rec, q + 6)
            fl = _u24(rec, q + 9)
            q += 12
            if q + fl > len(rec):
                return Result("invalid", reason="fragment overruns record")
            if total is None:
                total, seq = L, ms
            if L != total or ms != seq:
                return Result("invalid", reason="fragment of another message")
            if fo != len(got) or fo + fl > total:
                return Result("invalid", reason="fragment out of order / overlapping (not reassembled by tlsref)")
            if fl == 0 and total != 0:
                return Result("invalid", reason="empty fragment")
            got += rec[q:q + fl]
            q += fl
            if len(got) == total:
                try:
                    h = read_body(got, True)
                except Invalid as e:
                    return Result("invalid", reason=str(e))
                return Result("hello", h, consumed=p)


# ---------------------------------------------------------------------------
# host name classes (only what the SNI comparison needs)

_LDH = frozenset(b"abcdefghijklmnopqrstuvwxyzABCDEFGHIJKLMNOPQRSTUVWXYZ0123456789-")


def plainly_valid_hostname(name: bytes) -> bool:
    """an uncontroversial DNS host name: LDH labels, no punycode-looking labels, not numeric-only TLD"""
    if not 1 <= len(name) <= 253:
        return False
    labels = name.split(b".")
    for lab in labels:
        if not 1 <= len(lab) <= 63:
            return False
        if any(c not in _LDH for c in lab):
            return False
        if lab[:1] == b"-" or lab[-1:] == b"-" or lab[2:4] == b"--":
            return False
    if labels[-1].isdigit():
        return False
    return True


def sni_expectation(h: Hello):
    """(must, allowed): `must` is the name every reader has to report (or None when there is room for
    judgement); `allowed` is the set of values that are consistent with the bytes on the wire."""
    allowed = {None}
    for lst in h.sni_lists:
        for nt, nm in lst:
            if nt == 0:
                try:
                    allowed.add(nm.decode("ascii"))
                except UnicodeDecodeError:
                    pass
    must = None
    if len(h.sni_lists) == 1 and len(h.sni_lists[0]) == 1:
        nt, nm = h.sni_lists[0][0]
        if nt == 0 and plainly_valid_hostname(nm):
            must = nm.decode("ascii")
    return must, allowed


def alpn_expectation(h: Hello):
    """list of acceptable ALPN offer lists (more than one only with duplicate ALPN extensions)"""
    if not h.alpn_lists:
        return [[]]
    return [list(x) for x in h.alpn_lists]


# ---------------------------------------------------------------------------
# writer

def u16(x):
    return bytes([(x >> 8) & 255, x & 255])


def u24(x):
    return bytes([(x >> 16) & 255, (x >> 8) & 255, x & 255])


def ext(t, body):
    return u16(t) + u16(len(body)) + body


def ext_sni(entries):
    lst = b"".join(bytes([nt]) + u16(len(nm)) + nm for nt, nm in entries)
    return ext(0, u16(len(lst)) + lst)


def ext_alpn(protos):
    lst = b"".join(bytes([len(x)]) + x for x in protos)
    return ext(16, u16(len(lst)) + lst)


def body(version=0x0303, random=None, sid=b"", cookie=None, ciphers=(0x1301,), comp=b"\x00", exts=None):
    """exts: None (no block) or a list of already encoded extensions"""
    random = random if random is not None else bytes(range(32))
    out = u16(version) + random + bytes([len(sid)]) + sid
    if cookie is not None:
        out += bytes([len(cookie)]) + cookie
    cs = b"".join(u16(c) for c in ciphers)
    out += u16(len(cs)) + cs + bytes([len(comp)]) + comp
    if exts is not None:
        eb = b"".join(exts)
        out += u16(len(eb)) + eb
    return out


def hs_tls(b, hs_type=1):
    return bytes([hs_type]) + u24(len(b)) + b


def tls_records(msg, cuts=(), recver=0x0301):
    """msg (handshake header + body) cut at the given offsets into handshake records"""
    pts = [0] + sorted(cuts) + [len(msg)]
    out = b""
    for a, b_ in zip(pts, pts[1:]):
        out += b"\x16" + u16(recver) + u16(b_ - a) + msg[a:b_]
    return out


def dtls_record(payload, recver=0xFEFD, seqno=0, epoch=0):
    return b"\x16" + u16(recver) + u16(epoch) + seqno.to_bytes(6, "big") + u16(len(payload)) + payload


def hs_dtls(b, msg_seq=0, frag_off=0, frag_len=None, total=None):
    total = len(b) if total is None else total
    frag_len = len(b) if frag_len is None else frag_len
    return b"\x01" + u24(total) + u16(msg_seq) + u24(frag_off) + u24(frag_len) + b


def dtls_single(b, recver=0xFEFD):
    return dtls_record(hs_dtls(b), recver)


def dtls_fragments(b, cuts, recver=0xFEFD, msg_seq=0):
    """proper RFC 6347 fragmentation: one record per fragment, each with its own handshake header"""
    pts = [0] + sorted(cuts) + [len(b)]
    recs = []
    for i, (a, e) in enumerate(zip(pts, pts[1:])):
        recs.append(dtls_record(hs_dtls(b[a:e], msg_seq, a, e - a, len(b)), recver, seqno=i))
    return recs


def dtls_raw_split(b, cuts, recver=0xFEFD):
    """TLS-style continuation records (what mitmproxy's own tests call 'split over two records')"""
    msg = hs_dtls(b)
    pts = [0] + sorted(cuts) + [len(msg)]
    return [dtls_record(msg[a:e], recver, seqno=i) for i, (a, e) in enumerate(zip(pts, pts[1:]))]
