"""C01 - HTTP/1 forwarding is framing-consistent (no request / response desync).

Engine E on the real stack: every word of a framing grammar (method x version x
framing-header subsets x line ending x body form x pipelined follower x addon edit)
is sent by a mock client through the real ProxyConnectionHandler / HttpLayer /
Http1Server / Http1Client; the bytes that reach the mock upstream socket are read by
the independent RFC 9112 reader `http1ref` and compared with the flows captured at the
`request` hook (after the addon edit).  Same for responses towards the client.
"""
from __future__ import annotations

import itertools

from vmc import par
from vmc.drivers import h1
from vmc.drivers.world import World
from vmc.refs import http1ref
from vmc.tally import Tally

META = {
    "level": "exploration",
    "technique": "bounded-exhaustive enumeration of an HTTP/1 framing grammar, each word executed on the real proxy stack (virtual event loop) and judged by an independent RFC 9112 reader",
    "claim": "every request/response byte stream of the stated grammar is forwarded so that an independent strict HTTP/1 reader sees exactly the flows recorded at the request/response hook, and messages with conflicting or malformed CL/TE or invalid field names are never forwarded",
    "rule": "a case is one word of the grammar (see bounds); distinct = distinct byte stream + edit policy; non-trivial = at least one byte reached the HTTP layer and the request/response line was syntactically valid",
    "assumptions": [
        "mock sockets deliver the client stream as one segment (segmentation is C02's subject)",
        "addon edits are restricted to the documented API (content, non-framing headers, method/path)",
        "rejecting a valid message is always allowed; only forwarding is judged",
    ],
}

POOL = {
    "cl3": b"Content-Length: 3",
    "cl3dup": b"Content-Length: 3",
    "cl4": b"Content-Length: 4",
    "cl0": b"Content-Length: 0",
    "clplus": b"Content-Length: +3",
    "cllist": b"Content-Length: 3, 3",
    "clows": b"Content-Length:  3 ",
    "clempty": b"Content-Length: ",
    "clhex": b"Content-Length: 0x3",
    "te": b"Transfer-Encoding: chunked",
    "teC": b"Transfer-Encoding: Chunked",
    "te2": b"Transfer-Encoding: chunked, chunked",
    "tedup": b"Transfer-Encoding: chunked",
    "tegz": b"Transfer-Encoding: gzip, chunked",
    "teid": b"Transfer-Encoding: identity",
    "tex": b"Transfer-Encoding: xchunked",
    "tefold": b"Transfer-Encoding:\r\n chunked",
    "tesp": b"Transfer-Encoding : chunked",
    "tetab": b"Transfer-Encoding:\tchunked",
    "tevt": b"Transfer-Encoding: \x0bchunked",
    "close": b"Connection: close",
    "ka": b"Connection: keep-alive",
    "expect": b"Expect: 100-continue",
    "badname": b"X Bad: 1",
    "nulname": b"X\x00Y: 1",
    "plain": b"X-Plain: v",
}
POOL_ORDER = list(POOL)
# every byte value inside a field name (":" CR LF excluded: they change the line structure instead);
# used as single-header cases only, not in the subset product
NAME_BYTES = ["nb%02x" % b for b in range(256) if b not in (0x3A, 0x0A, 0x0D)]
for _n in NAME_BYTES:
    POOL[_n] = b"X" + bytes([int(_n[2:], 16)]) + b"Y: 1"

BODIES = {
    "none": b"",
    "abc": b"abc",
    "ab_close": b"ab",
    "abcd": b"abcd",
    "chunked": b"3\r\nabc\r\n0\r\n\r\n",
    "chunkext": b"3;x=y\r\nabc\r\n0\r\n\r\n",
    "chunktrail": b"3\r\nabc\r\n0\r\nX-T: 1\r\n\r\n",
    "chunkbad": b"zz\r\nabc\r\n0\r\n\r\n",
    "chunknolast": b"3\r\nabc\r\n",
    "chunkspace": b"3 \r\nabc\r\n0\r\n\r\n",
    "chunk3x3": b"3\r\nabc\r\n3\r\ndef\r\n3\r\nghi\r\n0\r\n\r\n",
    "abcdefghi": b"abcdefghi",
}
POOL["cl9"] = b"Content-Length: 9"
OPTSETS = [
    {"stream_large_bodies": "5", "store_streamed_bodies": True},
    {"stream_large_bodies": "5"},
    {"body_size_limit": "5"},
    {"stream_large_bodies": "3", "body_size_limit": "7", "store_streamed_bodies": True},
]
SECOND = b"GET /second HTTP/1.1\r\nHost: example.com\r\n\r\n"

EDITS = ["none", "header", "content", "method_path"]
MUST_REJECT = ("ambiguous:", "invalid:field-name", "invalid:te-without-chunked-in-request", "invalid:te-empty-coding")


def header_sets(maxk):
    yield ()
    for k in range(1, maxk + 1):
        for c in itertools.combinations(POOL_ORDER, k):
            yield c
            if k == 2:
                yield (c[1], c[0])


def build_request(method, form, version, hs, le, body, second):
    target = {"origin": b"/first", "absolute": b"http://example.com/first", "star": b"*"}[form]
    lines = [method + b" " + target + b" " + version, b"Host: example.com"] + [POOL[h] for h in hs]
    head = le.join(lines) + le + le
    if le == b"\n":
        head = head.replace(b"\r\n ", b"\n ")
    return head + BODIES[body] + (SECOND if second else b"")


def request_cases(maxk, full):
    methods = [b"GET", b"POST"] if not full else [b"GET", b"POST", b"HEAD", b"OPTIONS"]
    for hs in header_sets(maxk):
        reduced = len(hs) >= (3 if full else 2)  # largest subsets: framing-relevant dimensions only
        for method in ([b"POST"] if reduced else methods):
            for body in BODIES:
                for second in ((True,) if reduced else (False, True)):
                    for le in ((b"\r\n",) if reduced else (b"\r\n", b"\n")):
                        yield {"dir": "req", "mode": "regular", "method": method, "form": "absolute", "version": b"HTTP/1.1", "hs": list(hs), "le": le, "body": body, "second": second, "edit": "none"}
    base = dict(dir="req", mode="regular", method=b"POST", form="absolute", version=b"HTTP/1.1", le=b"\r\n", second=True)
    for hs in header_sets(2 if full else 1):
        for body in BODIES:
            for edit in EDITS[1:]:
                yield {**base, "hs": list(hs), "body": body, "edit": edit}
            yield {**base, "hs": list(hs), "body": body, "edit": "none", "version": b"HTTP/1.0"}
            yield {**base, "hs": list(hs), "body": body, "edit": "none", "mode": "reverse:http://example.com:80/", "form": "origin"}
            yield {**base, "hs": list(hs), "body": body, "edit": "stream"}
    yield {**base, "hs": [], "body": "none", "edit": "none", "method": b"OPTIONS", "form": "star", "mode": "reverse:http://example.com:80/"}
    for nb in NAME_BYTES:
        yield {**base, "hs": [nb], "body": "none", "edit": "none", "method": b"GET"}
        yield {**base, "hs": [nb, "cl3"], "body": "abc", "edit": "none"}
    # body-size options (late switch to streaming with or without storing, size limit) x bodies around the thresholds
    for opts in OPTSETS:
        for hs, body in ((["te"], "chunk3x3"), (["cl9"], "abcdefghi"), (["te"], "chunked"), (["cl3"], "abc"), (["expect", "te"], "chunk3x3")):
            # (no header edit at the request hook here: once a body is streamed its head has already been forwarded,
            # so such an edit is documented to be too late)
            for edit in ("none", "stream"):
                yield {**base, "hs": hs, "body": body, "edit": edit, "opts": opts}
    # well-framed bodies x every addon edit x the headers mitmproxy itself acts on (Expect, Connection)
    for special in ("expect", "close", "ka", "plain"):
        for framing, body in (("cl3", "abc"), ("te", "chunked"), ("te", "chunktrail"), ("tegz", "chunked"), ("cl0", "none")):
            for edit in EDITS + ["stream"]:
                for hs in ([special, framing], [framing, special]):
                    for second in (False, True):
                        yield {**base, "hs": hs, "body": body, "edit": edit, "second": second}


RESP_STATUS = {"200": b"200 OK", "204": b"204 No Content", "304": b"304 Not Modified", "100+200": b"100 Continue", "404": b"404 Not Found", "101": b"101 Switching Protocols"}
RESP_BODIES = dict(BODIES, eof_body=b"until-eof")


def build_response(status, hs, le, body):
    def head(st):
        lines = [b"HTTP/1.1 " + st] + [POOL[h] for h in hs]
        out = le.join(lines) + le + le
        if le == b"\n":
            out = out.replace(b"\r\n ", b"\n ")
        return out

    if status == "100+200":
        return b"HTTP/1.1 100 Continue" + le + le + head(b"200 OK") + RESP_BODIES[body]
    return head(RESP_STATUS[status]) + RESP_BODIES[body]


def response_cases(maxk, full):
    for hs in header_sets(maxk):
        if "expect" in hs or "ka" in hs:
            continue
        reduced = len(hs) >= (3 if full else 2)
        for method in ((b"GET",) if reduced else (b"GET", b"HEAD")):
            for status in (("200", "304") if reduced else RESP_STATUS):
                if status == "101":
                    continue
                for body in RESP_BODIES:
                    for eof in ((True,) if reduced else (False, True)):
                        yield {"dir": "resp", "method": method, "status": status, "hs": list(hs), "le": b"\r\n", "body": body, "eof": eof, "edit": "none"}
    for hs in header_sets(min(maxk, 1)):
        for body in RESP_BODIES:
            for edit in ("header", "content", "status", "stream"):
                yield {"dir": "resp", "method": b"GET", "status": "200", "hs": list(hs), "le": b"\r\n", "body": body, "eof": True, "edit": edit}
            yield {"dir": "resp", "method": b"GET", "status": "200", "hs": list(hs), "le": b"\n", "body": body, "eof": True, "edit": "none"}
    for nb in NAME_BYTES:
        yield {"dir": "resp", "method": b"GET", "status": "200", "hs": [nb, "cl3"], "le": b"\r\n", "body": "abc", "eof": True, "edit": "none"}
    for opts in OPTSETS:
        for hs, body in ((["te"], "chunk3x3"), (["cl9"], "abcdefghi"), ([], "eof_body"), (["cl3"], "abc")):
            for edit in ("none", "stream"):
                yield {"dir": "resp", "method": b"GET", "status": "200", "hs": hs, "le": b"\r\n", "body": body, "eof": True, "edit": edit, "opts": opts}


def make_policy(case):
    edit = case["edit"]
    d = case["dir"]

    def policy(name, data, world):
        if d == "req":
            if name == "requestheaders" and edit == "stream":
                data.request.stream = True
            if name == "request":
                if edit == "header":
                    data.request.headers["X-Added"] = "1"
                elif edit == "content":
                    data.request.content = b"EDITED-BODY"
                elif edit == "method_path":
                    data.request.method = "PUT"
                    data.request.path = "/edited"
        else:
            if name == "responseheaders" and edit == "stream":
                data.response.stream = True
            if name == "response":
                if edit == "header":
                    data.response.headers["X-Added"] = "1"
                elif edit == "content":
                    data.response.content = b"EDITED-BODY"
                elif edit == "status":
                    data.response.status_code = 404
                    data.response.reason = "Not Found"

    return policy


def features(case):
    f = {"dir": case["dir"], "hs": "+".join(case["hs"]) or "-", "body": case["body"], "edit": case["edit"],
         "le": "lf" if case["le"] == b"\n" else "crlf"}
    if case.get("opts"):
        f["opts"] = "+".join(sorted(case["opts"]))
    if case["dir"] == "resp":
        f["status"] = case["status"]
        f["method"] = case["method"].decode()
    return f


def dechunk_equal(msg, flow_part, stored=False):
    """compare one http1ref message with a flow snapshot (request or response part);
    stored: store_streamed_bodies is on, so even a streamed message's recorded body must equal what was forwarded"""
    diffs = []
    if [tuple(f) for f in msg["fields"]] != [tuple(f) for f in flow_part["fields"]]:
        diffs.append(("fields", msg["fields"], flow_part["fields"]))
    if (stored or not flow_part.get("stream")) and flow_part["content"] is not None and msg["body"] != flow_part["content"]:
        diffs.append(("body", msg["body"], flow_part["content"]))
    if [tuple(f) for f in msg["trailers"]] != [tuple(f) for f in flow_part["trailers"]]:
        diffs.append(("trailers", msg["trailers"], flow_part["trailers"]))
    return diffs


def run_case(case, t: Tally, verbose=False):
    feats = features(case)
    w = World(mode=case.get("mode", "regular"), policy=make_policy(case), snap=h1.http_snap, auto_connect=True, opts=case.get("opts"))
    try:
        w.start()
        if case["dir"] == "req":
            stream = build_request(case["method"], case["form"], case["version"], case["hs"], case["le"], case["body"], case["second"])
            w.client_send(stream)
            h1.pump(w)
            if case["body"] in ("ab_close", "chunknolast"):
                pass  # the client closes below
            w.client.r.eof = True
            w.client_eof()
            h1.pump(w)
            w.close_out()
            judge_request(case, feats, stream, w, t, verbose)
        else:
            req = case["method"] + b" http://example.com/r HTTP/1.1\r\nHost: example.com\r\n\r\n"
            resp = build_response(case["status"], case["hs"], case["le"], case["body"])
            w.client_send(req)

            def responder(k, msg, end):
                return [resp, b""] if case["eof"] else [resp]

            h1.pump(w, responder)
            w.close_out()
            judge_response(case, feats, resp, w, t, verbose)
    finally:
        w.dispose()


def judge_request(case, feats, stream, w, t, verbose):
    in_msgs, in_verdict = http1ref.parse_requests(stream)
    flows = [f["request"] for f in h1.flows_at(w, "request")]
    up = b"".join(s.w.data for s in w.servers)  # one upstream host in this grammar: a single connection
    up_msgs, up_verdict = http1ref.parse_requests(up)
    nontrivial = bool(flows) or bool(w.client.w.data)
    t.case({k: v for k, v in case.items()} if case["hs"] and len(case["hs"]) == 2 and case["body"] == "chunked" else None,
           nontrivial=nontrivial, key=[stream, case["edit"], case.get("mode")])
    t.outcome([len(flows), len(up_msgs), up_verdict, w.client.w.data[:12]])
    if verbose:
        print("input verdict", in_verdict, len(in_msgs), "\nflows", flows, "\nupstream", up, up_verdict, "\nclient got", w.client.w.data, "\nerrors", w.errors)

    # 1. what upstream reads == what was recorded
    ok = up_verdict in ("ok",) or (up_verdict == "incomplete" and False)
    problems = []
    if up_verdict != "ok":
        problems.append(("upstream_bytes_not_well_formed", up_verdict))
    if len(up_msgs) != len(flows):
        # a flow whose connection was refused/closed is not forwarded; here every connect succeeds, so counts must agree
        problems.append(("count", len(up_msgs), len(flows)))
    for m, f in zip(up_msgs, flows):
        if m["start"][0] != f["method"]:
            problems.append(("method", m["start"][0], f["method"]))
        want_target = f["path"]
        if m["start"][1] != want_target:
            problems.append(("target", m["start"][1], want_target))
        problems += dechunk_equal(m, f, stored=bool((case.get("opts") or {}).get("store_streamed_bodies")))
    t.judge("fwd_equals_flows", not problems, feats, case, None, {"problems": problems[:4], "upstream": up[:300]})

    # 2. ambiguous / malformed framing or invalid field names are never forwarded
    if any(in_verdict.startswith(p) for p in MUST_REJECT):
        n_ok = len(in_msgs)
        # the offending message is number n_ok (0-based): at most n_ok messages may reach upstream
        t.judge("ambiguous_rejected", _no_extra_bytes(up, n_ok),
                dict(feats, why=in_verdict), case, "at most %d forwarded" % n_ok, {"forwarded": len(up_msgs), "upstream": up[:300]})
    if w.errors:
        t.note("server logged error: " + w.errors[0][:80])


def _no_extra_bytes(up, n_ok):
    msgs, verdict = http1ref.parse_requests(up)
    if len(msgs) > n_ok:
        return False
    if len(msgs) == n_ok and verdict != "ok":
        return False  # bytes of a further (partial / malformed) message were forwarded
    return True


def judge_response(case, feats, resp, w, t, verbose):
    methods = [case["method"]]
    in_msgs, in_verdict = http1ref.parse_responses(resp, methods, eof=case["eof"])
    hooks = h1.flows_at(w, "response")
    flows = [f["response"] for f in hooks if "response" in f]
    down = w.client.w.data
    closed = w.client.w.closed
    down_msgs, down_verdict = http1ref.parse_responses(down, methods, eof=closed)
    t.case(case if case["hs"] and case["body"] == "chunked" and case["status"] == "200" else None, nontrivial=bool(down), key=[resp, case["edit"], case["method"], case["eof"]])
    t.outcome([len(flows), len(down_msgs), down_verdict])
    if verbose:
        print("input verdict", in_verdict, "\nflows", flows, "\nto client", down, down_verdict, "closed", closed, "\nerrors", w.errors)
    # mitmproxy's own error pages (502 on a rejected upstream response) are responses without a `response` hook;
    # they must still be well-formed, and they are not compared to a flow.
    final = [m for m in down_msgs if not (100 <= int(m["start"][1]) < 200)]
    problems = []
    truncated_stream = (down_verdict == "incomplete" and closed and in_verdict != "ok"
                        and any(f.get("stream") for f in flows + [h.get("response", {}) for n, h in w.hooks if n == "responseheaders" and h]))
    if truncated_stream:
        # a streamed response whose upstream was cut short / malformed mid-body: the client sees the same
        # truncation followed by connection close, which it cannot mistake for a complete message
        t.ok("streamed_truncation_propagates_as_truncation")
        return
    if down_verdict != "ok":
        problems.append(("client_bytes_not_well_formed", down_verdict))
    # mitmproxy's own error page (no response flow exists): not a relayed response, C12's subject
    own_error = (not flows) and down_msgs and any(n.lower() == b"server" and v.startswith(b"mitmproxy") for n, v in down_msgs[0]["fields"])
    if own_error:
        problems = []
        t.note("own error page instead of relaying")
    else:
        if len(final) != len(flows):
            problems.append(("count", len(final), len(flows)))
        for m, f in zip(final, flows):
            if int(m["start"][1]) != f["status"]:
                problems.append(("status", m["start"][1], f["status"]))
            if case["method"] != b"HEAD":
                problems += dechunk_equal(m, f, stored=bool((case.get("opts") or {}).get("store_streamed_bodies")))
            else:
                if [tuple(x) for x in m["fields"]] != [tuple(x) for x in f["fields"]]:
                    problems.append(("fields", m["fields"], f["fields"]))
    t.judge("resp_equals_flows", not problems, feats, case, None, {"problems": problems[:4], "to_client": down[:300]})
    if any(in_verdict.startswith(p) for p in MUST_REJECT):
        t.judge("ambiguous_response_rejected", not flows or own_error, dict(feats, why=in_verdict), case, "no response flow forwarded", {"to_client": down[:300]})


def chunk_fn(chunk):
    t = Tally()
    for case in chunk:
        run_case(case, t)
    return t


def run(ctx):
    maxk = ctx.pick(2, 3)
    full = ctx.thorough
    cases = list(request_cases(maxk, full)) + list(response_cases(maxk, full))
    ctx.bounds = {"header_subset_size": maxk, "pool": POOL_ORDER, "bodies": list(BODIES), "edits": EDITS + ["stream"], "cases": len(cases)}
    ctx.log("%d cases" % len(cases))
    par.pmap_tally(chunk_fn, cases, ctx.tally, nchunks=64)


def replay(case, t, verbose=False):
    run_case(case, t, verbose=verbose)
