"""C44 - option updates are transactional and typed; config files round-trip.

Engine X: BFS over histories of update / set / setattr / toggler / reset / update_defer / add_option +
process_deferred on a real `OptManager` holding one option of every supported type, with recording and
rejecting listeners attached through both `subscribe` and `changed.connect` (one BFS per listener
configuration).  After every transition the real option values and everything the listeners observed
are compared with a small reference model (dict of values + "which listener rejects which state").

Engine E: every option type x hostile value domain is saved with the real `optmanager.serialize` /
`save` and loaded into a fresh OptManager with `optmanager.load` / `load_paths`.
"""
from __future__ import annotations

import gc
import io
import itertools
import os
import shutil
from collections.abc import Sequence
from typing import Optional

from mitmproxy import exceptions
from mitmproxy import optmanager

from vmc import explore, par
from vmc.tally import Tally

META = {
    "level": "model_checking",
    "technique": "explicit-state BFS over option-update histories on the real OptManager with recording/rejecting listeners, "
                 "every transition judged against a dict reference model; exhaustive save/load round trip of every option "
                 "type over a YAML-hostile value domain",
    "claim": "within the depth bound every history of updates (valid, wrong-typed, listener-rejected, unknown, deferred, "
             "set-spec strings, reset) keeps all options typed, leaves a rejected update without effect with listeners "
             "ending on the restored state, and notifies accepted updates with the assigned names; every value of the "
             "stated domain survives serialize/save -> load/load_paths; history-quantified over a small finite state "
             "space, so explicit-state model checking on the implementation is the fitting level",
    "rule": "a case is an operation history reaching a distinct (listener configuration, option values, deferred, late-option) "
            "state, non-trivial when some option differs from its default or something is deferred; for the round trip a "
            "case is a distinct (assignment of non-default values, previous file text, path) triple",
    "assumptions": [
        "an int option holding a bool is accepted as typed (Python: bool is an int); not reported",
        "the active (following) listener's rule is idempotent and holds in every reachable state, so it does not react to "
        "the re-announcement of a restored state; its reaction to an accepted update is part of the expected state",
        "a listener never rejects the default / the restored state itself, except in the reject-always configuration, where "
        "reset() and add_option() are only judged for typing and effect (they are not `updates` and have no rollback)",
        "whether the rejecting call raises, and what, is not asserted (the statement speaks of values and of what listeners observe)",
        "round trip: lone surrogates (not encodable as UTF-8 text) are outside the value domain; the option named `scripts` "
        "(path rewriting relative to the config file) is not used",
    ],
}

ALL = ["b", "i", "oi", "os", "q", "s"]
DEFAULTS = {"b": False, "s": "d", "i": 0, "os": None, "oi": None, "q": []}
TYPESPEC = {"b": bool, "s": str, "i": int, "os": Optional[str], "oi": Optional[int], "q": Sequence[str], "late": str}
TYPENAME = {"b": "bool", "s": "str", "i": "int", "os": "optional str", "oi": "optional int", "q": "sequence of str", "late": "str"}


def make_opts():
    o = optmanager.OptManager()
    for name in ["b", "s", "i", "os", "oi", "q"]:
        o.add_option(name, TYPESPEC[name], DEFAULTS[name] if name != "q" else [], "help for " + name)
    return o


# the config round trip uses a wider table: every option type once with a falsy / None default (above) and once with a
# default that is neither, so that "non-default" also means False, 0, None, "" and [] (written as false, 0, null, '', [])
RT_EXTRA = {"bt": (bool, True), "ip": (int, 8080), "ods": (Optional[str], "u"), "odi": (Optional[int], 7), "qd": (Sequence[str], ["a"])}
TYPENAME.update({"bt": "bool", "ip": "int", "ods": "optional str", "odi": "optional int", "qd": "sequence of str"})


def make_rt_opts():
    o = make_opts()
    for name, (ts, default) in RT_EXTRA.items():
        o.add_option(name, ts, list(default) if isinstance(default, list) else default, "help for " + name)
    return o


def type_ok(name, v):
    ts = TYPENAME[name]
    if ts == "bool":
        return type(v) is bool
    if ts == "str":
        return type(v) is str
    if ts == "int":
        return isinstance(v, int)
    if ts == "optional str":
        return v is None or type(v) is str
    if ts == "optional int":
        return v is None or isinstance(v, int)
    return isinstance(v, (list, tuple)) and all(type(x) is str for x in v)


def enc(v):
    """JSON-able encoding of an option value that keeps tuple / float / bool apart"""
    if isinstance(v, tuple):
        return {"$tuple": [enc(x) for x in v]}
    if isinstance(v, list):
        return [enc(x) for x in v]
    return v


def dec(v):
    if isinstance(v, dict) and "$tuple" in v:
        return tuple(dec(x) for x in v["$tuple"])
    if isinstance(v, list):
        return [dec(x) for x in v]
    return v


def snapshot(opts):
    return {k: getattr(opts, k) for k in sorted(opts.keys())}


def same(a, b):
    """equal values of equal types (1 == True and [] == () style coincidences do not count)"""
    return repr(a) == repr(b)


# ---------------------------------------------------------------------------
# listeners

LCONFIGS = {
    "none": [],
    "observers": [["sub", ALL, ["accept"]], ["sub", ["b"], ["accept"]], ["con", ["accept"]]],
    "sub-rejecter-first": [["sub", ["i", "s"], ["reject_if", "i", 2]], ["sub", ALL, ["accept"]], ["con", ["accept"]]],
    "sub-rejecter-last": [["sub", ALL, ["accept"]], ["sub", ["i", "s"], ["reject_if", "i", 2]], ["con", ["accept"]]],
    # several subscribe() callbacks around the rejecting one: those after it must still hear the restored state's
    # successors (every later accepted update), those before it must see the restoration
    "sub-rejecter-middle": [["sub", ALL, ["accept"]], ["sub", ["i", "s"], ["reject_if", "i", 2]], ["sub", ALL, ["accept"]],
                            ["sub", ["i"], ["accept"]], ["con", ["accept"]]],
    "con-rejecter": [["sub", ALL, ["accept"]], ["con", ["accept"]], ["con", ["reject_if", "s", "x"]], ["con", ["accept"]]],
    "reject-always": [["sub", ALL, ["accept"]], ["con", ["accept"]], ["con", ["reject_always"]]],
    # an *active* listener (like the intercept addon, which sets intercept_active when intercept changes): it reacts to an
    # update of s or b by assigning further options; real notification order is subscribers first, then connected receivers
    "follower-con-rejecter": [["con", ["follow"]], ["sub", ALL, ["accept"]], ["con", ["reject_if", "s", "x"]], ["con", ["accept"]]],
    "follower-sub-rejecter": [["sub", ["s", "b"], ["follow"]], ["sub", ["i", "s"], ["reject_if", "i", 2]], ["con", ["accept"]]],
}

# the follower's rule: whenever s or b was updated and s is not at its default, b must be on (and oi is set along with it).
# The rule is idempotent and holds in every reachable state, so re-announcing a restored state never triggers it.
FOLLOW_TRIGGER = {"s", "b"}
FOLLOW_ASSIGN = {"b": True, "oi": 1}


def follow_wants(snap, updated):
    return bool(set(updated) & FOLLOW_TRIGGER) and not same(snap["s"], "d") and snap["b"] is not True


def policy_rejects(policy, snap):
    if policy[0] == "reject_always":
        return True
    if policy[0] == "reject_if":
        return policy[1] in snap and same(snap[policy[1]], policy[2])
    return False


class Listener:
    def __init__(self, opts, kind, names, policy):
        self.opts, self.kind, self.names, self.policy = opts, kind, names, policy
        self.seen = []
        self.busy = False

    def on_sub(self, opts, updated):
        self._on(updated)

    def on_con(self, updated):
        self._on(updated)

    def _on(self, updated):
        snap = snapshot(self.opts)
        self.seen.append((sorted(updated), snap))
        if policy_rejects(self.policy, snap):
            raise exceptions.OptionsError("listener rejects this state")
        if self.policy[0] == "follow" and not self.busy and follow_wants(snap, updated):
            self.busy = True  # no reaction to the announcements of its own nested update (or of that update's rollback)
            try:
                self.opts.update(**FOLLOW_ASSIGN)  # an OptionsError from the nested update propagates like a rejection
            finally:
                self.busy = False


class Sys:
    def __init__(self, cfg):
        self.cfg = cfg
        self.opts = make_opts()
        self.listeners = []
        for d in LCONFIGS[cfg]:
            if d[0] == "sub":
                li = Listener(self.opts, "sub", list(d[1]), d[2])
                self.opts.subscribe(li.on_sub, li.names)
            else:
                li = Listener(self.opts, "con", None, d[1])
                self.opts.changed.connect(li.on_con)
            self.listeners.append(li)
        self.judged = []  # (clause, ok, features, expected, observed)
        self.last = None
        self.reacted = []

    def would_notify(self, names):
        return [li for li in self.listeners if li.kind == "con" or set(li.names) & set(names)]

    def listener_rejects(self, would, names):
        return any(policy_rejects(li.policy, would) for li in self.would_notify(names))

    def react(self, would, names):
        """reference for the active listener: (state after its reaction, names it assigns)"""
        if any(li.policy[0] == "follow" for li in self.would_notify(names)) and follow_wants(would, names):
            return dict(would, **FOLLOW_ASSIGN), sorted(FOLLOW_ASSIGN)
        return would, []


# ---------------------------------------------------------------------------
# the operation alphabet

VALID = {
    "b": [True],
    "s": ["a", "x"],
    "i": [1, 2],
    "os": ["a"],
    "oi": [1],
    "q": [["a"], ("a", "b")],
}
WRONG = {"b": [1], "s": [5, None], "i": ["1", 1.5], "os": [5], "oi": ["1"], "q": ["ab", [1]]}

UPDATE2 = [
    [["i", 1], ["s", "a"]],
    [["i", 2], ["s", "a"]], [["s", "a"], ["i", 2]],              # i == 2 is what the sub rejecter refuses
    [["s", "x"], ["b", True]], [["b", True], ["s", "x"]],        # s == "x" is what the con rejecter refuses
    [["i", 1], ["s", 5]], [["s", 5], ["i", 1]],                  # valid + wrong type, both orders
    [["b", True], ["q", "ab"]], [["q", ["z"]], ["oi", "1"]], [["os", "a"], ["oi", 1.5]], [["oi", 1], ["b", None]],
    [["i", 1], ["nosuch", 1]], [["nosuch", 1], ["i", 1]],        # valid + unknown option name
]
SETS = [
    ["b"], ["b=toggle"], ["b=false"], ["b=true"], ["b=maybe"], ["b="],
    ["i=1"], ["i=2"], ["i=x"], ["i="], ["i"], ["i=1", "i=2"],
    ["s=a"], ["s=x"], ["s="], ["s"], ["s=a=b"],
    ["os=a"], ["os"], ["oi=1"], ["oi="], ["oi=x"],
    ["q=a"], ["q=a", "q=b"], ["q"],
    ["i=1", "s=a"], ["i=2", "b=toggle"], ["s=x", "oi=1"], ["i=1", "nosuch=1"], ["nosuch"],
]


def actions_for(sys_):
    acts = []
    for k in ALL:
        for v in VALID[k] + [DEFAULTS[k]]:
            acts.append(["update", [[k, enc(v)]]])
        for v in WRONG[k]:
            acts.append(["update", [[k, enc(v)]]])
    for u in UPDATE2:
        acts.append(["update", [[k, enc(v)] for k, v in u]])
    for s in SETS:
        acts.append(["set", s, False])
    acts.append(["setattr", "i", 2])
    acts.append(["setattr", "s", 5])
    acts.append(["setter", "s", "x"])
    acts.append(["toggle", "b"])
    acts.append(["reset"])
    late = "late" in sys_.opts
    if not late:
        acts.append(["update_defer", [["late", "w"]]])
        acts.append(["update_defer", [["late", 5]]])
        acts.append(["update_defer", [["i", 1], ["late", "w"]]])
        acts.append(["update_defer", [["i", 2], ["late", "w"]]])
        acts.append(["set", ["late=v", "i=1"], True])
        acts.append(["set", ["late=v", "late=u"], True])
        acts.append(["add_late"])
    else:
        acts.append(["update", [["late", "z"]]])
        acts.append(["update", [["late", "z"], ["i", "1"]]])
    acts.append(["process_deferred"])
    return acts


# reference for the documented `option=value` spec strings --------------------------------------------

class BadSpec(Exception):
    pass


def ref_setval(name, values, current):
    ts = TYPENAME[name]
    if ts == "sequence of str":
        return list(values)
    if len(values) > 1:
        raise BadSpec("multiple values")
    v = values[0] if values else None
    if ts == "str":
        if v is None:
            raise BadSpec("required")
        return v
    if ts == "optional str":
        return v
    if ts in ("int", "optional int"):
        if v:
            try:
                return int(v)
            except ValueError:
                raise BadSpec("not an int")
        if ts == "int":
            raise BadSpec("required")
        return None
    if v == "toggle":
        return not current
    if not v or v == "true":
        return True
    if v == "false":
        return False
    raise BadSpec("not a bool")


def ref_specs(specs, pre, defer):
    """-> (assignments as ordered pairs, deferred names) or raises BadSpec"""
    grouped = {}
    for spec in specs:
        if "=" in spec:
            n, v = spec.split("=", 1)
            grouped.setdefault(n, []).append(v)
        else:
            grouped.setdefault(spec, [])
    pairs = []
    for n, vals in grouped.items():
        if n in pre:
            pairs.append([n, ref_setval(n, vals, pre[n])])
        elif not defer:
            raise BadSpec("unknown option")
    return pairs


def expect_update(sys_, pre, pairs, allow_unknown):
    """reference verdict for one transactional assignment: (verdict, reject_kind, would-be state, assigned names)"""
    known = [(k, v) for k, v in pairs if k in pre]
    unknown = [k for k, v in pairs if k not in pre]
    would = dict(pre)
    for k, v in known:
        would[k] = v
    names = sorted({k for k, _ in known})
    if any(not type_ok(k, v) for k, v in known):
        return "rejected", "type-error", would, names
    if names:
        would, sys_.reacted = sys_.react(would, names)
    if names and (sys_.listener_rejects(would, names) or (sys_.reacted and sys_.listener_rejects(would, sys_.reacted))):
        return "rejected", "listener", would, names
    if unknown and not allow_unknown:
        return "rejected", "unknown-name", would, names
    return "accepted", "none", would, names


def do_apply(sys_, a):
    opts = sys_.opts
    pre = snapshot(opts)
    for li in sys_.listeners:
        li.seen = []
    sys_.reacted = []
    op = a[0]
    opname = op
    verdict, rkind, would, names = "accepted", "none", dict(pre), []
    judge_effect = True
    call = None
    if op in ("update", "update_defer"):
        pairs = [(k, dec(v)) for k, v in a[1]]
        opname = op + ("2" if len(pairs) > 1 else "1")
        verdict, rkind, would, names = expect_update(sys_, pre, pairs, allow_unknown=(op == "update_defer"))
        kw = dict(pairs)
        call = (lambda: opts.update(**kw)) if op == "update" else (lambda: opts.update_defer(**kw))
    elif op in ("setattr", "setter"):
        verdict, rkind, would, names = expect_update(sys_, pre, [(a[1], dec(a[2]))], False)
        if op == "setattr":
            call = lambda: setattr(opts, a[1], dec(a[2]))
        else:
            call = lambda: opts.setter(a[1])(dec(a[2]))
    elif op == "toggle":
        verdict, rkind, would, names = expect_update(sys_, pre, [(a[1], not pre[a[1]])], False)
        call = lambda: opts.toggler(a[1])()
    elif op == "set":
        specs, defer = list(a[1]), bool(a[2])
        opname = "set" + ("_defer" if defer else "") + ("2" if len({s.split("=", 1)[0] for s in specs}) > 1 else "1")
        try:
            pairs = ref_specs(specs, pre, defer)
            verdict, rkind, would, names = expect_update(sys_, pre, pairs, True)
        except BadSpec:
            verdict, rkind = "rejected", "bad-spec"
        call = lambda: opts.set(*specs, defer=defer)
    elif op == "process_deferred":
        pairs = []
        try:
            for n, v in opts.deferred.items():
                if n in pre:
                    if type(v).__name__ == "_UnconvertedStrings":
                        v = ref_setval(n, list(v.val), pre[n])
                    pairs.append((n, v))
            verdict, rkind, would, names = expect_update(sys_, pre, pairs, True)
        except BadSpec:
            verdict, rkind = "rejected", "bad-spec"
        call = opts.process_deferred
    elif op == "reset":
        would = {k: (DEFAULTS[k] if k in DEFAULTS else "ld") for k in pre}
        names = sorted(pre)
        call = opts.reset
    elif op == "add_late":
        would = dict(pre)
        would["late"] = "ld"
        names = ["late"]
        call = lambda: opts.add_option("late", str, "ld", "added late")
    else:
        raise ValueError(a)
    exc = None
    try:
        call()
    except KeyboardInterrupt:
        raise
    except BaseException as e:
        exc = type(e).__name__
    post = snapshot(opts)
    feats = {"op": opname, "reject_kind": rkind, "listeners": sys_.cfg}
    J = sys_.judged
    bad_types = sorted(k for k, v in post.items() if not type_ok(k, v))
    J.append(("values_always_of_declared_type", not bad_types, feats, "every option typed", {k: repr(post[k]) for k in bad_types}))
    seen = {i: li.seen for i, li in enumerate(sys_.listeners) if li.seen}
    if verdict == "rejected":
        restored = all(k in post and same(post[k], pre[k]) for k in pre) and len(post) == len(pre)
        J.append(("rejected_update_restores_all", restored, feats, _r(pre), {"after": _r(post), "raised": exc}))
        if restored:  # "that restored state" only exists when the values were restored
            stale = {i: _r(s[-1][1]) for i, s in seen.items() if _r(s[-1][1]) != _r(pre)}
            J.append(("listeners_end_on_restored_state", not stale, feats, _r(pre), stale))
    else:
        tolerated = op in ("reset", "add_late") and sys_.listener_rejects(would, names)
        ok_eff = _r(post) == _r(would) and (exc is None or tolerated)
        J.append(("accepted_update_takes_effect", ok_eff, feats, _r(would), {"after": _r(post), "raised": exc}))
        if names and op not in ("reset", "add_late") and ok_eff:
            problems = {}
            expected = sys_.would_notify(names)
            nested = sys_.reacted  # names assigned by the active listener in reaction (its own, nested, update)
            also = sys_.would_notify(nested) if nested else []
            for i, li in enumerate(sys_.listeners):
                s = li.seen
                if li in expected:
                    if not any(u == names for u, _ in s):
                        problems[i] = "not notified with the assigned names"
                    elif any(u != names and u != nested for u, _ in s):
                        problems[i] = ["updated", [u for u, _ in s]]
                    elif _r(s[-1][1]) != _r(would):
                        problems[i] = ["last saw", _r(s[-1][1])]
                elif s and not (li in also and all(u == nested for u, _ in s)):
                    problems[i] = ["notified although not subscribed", [u for u, _ in s]]
            J.append(("accepted_update_notifies_assigned_names", not problems, feats, names, problems))
    sys_.last = [opname, verdict, rkind, exc]


def _r(snap):
    return {k: repr(v) for k, v in sorted(snap.items())}


def registrations(s):
    """which of the listeners the OptManager still holds, in its order (part of the state: it decides who hears the next
    update).  Read from the object graph: the subscription list and the receivers of the `changed` signal."""
    def who(ref):
        cb = ref()
        owner = getattr(cb, "__self__", None)
        return s.listeners.index(owner) if owner in s.listeners else ("other" if cb is not None else "dead")
    subs = [[who(ref), sorted(names)] for ref, names in getattr(s.opts, "_subscriptions", [])]
    cons = [who(ref) for ref in getattr(s.opts.changed, "receivers", [])]
    return [subs, cons]


class Spec:
    def __init__(self, cfg):
        self.cfg = cfg

    def build(self):
        return Sys(self.cfg)

    def fingerprint(self, s):
        d = []
        for k, v in sorted(s.opts.deferred.items()):
            d.append([k, repr(getattr(v, "val", v)), type(v).__name__])
        return [self.cfg, _r(snapshot(s.opts)), d, registrations(s)]

    def actions(self, s):
        return actions_for(s)

    def apply(self, s, a):
        do_apply(s, a)

    def check(self, s, hist, t: Tally):
        for clause, ok, feats, exp, obs in s.judged:
            t.judge(clause, ok, feats, [self.cfg, list(hist)], exp, obs)
        s.judged = []
        if s.last is not None:
            t.outcome(s.last)
        snap = snapshot(s.opts)
        nontrivial = bool(hist) and (bool(s.opts.deferred) or any(not same(snap[k], DEFAULTS.get(k, "ld")) for k in snap))
        t.case(None, nontrivial=nontrivial, key=self.fingerprint(s))
        if len(hist) == 3 and len(t.samples) < 1 and nontrivial:
            t.samples.append({"listeners": self.cfg, "history": list(hist), "values": _r(snap)})


# ---------------------------------------------------------------------------
# config file round trip (engine E)

HOSTILE = [
    "yes", "no", "null", "~", "true", "off", "1", "1e3", "0x10", "0o7", "1_000", "1:30", "2001-01-01", ".inf",
    ":", "- a", "-", "#c", "a #b", "a: b", "? a", "[a]", "{a}", "&a", "*a", "!!str x", "|", "> x", "%y", "@z", "`", "--- a", "...",
    "'", '"', "'\"", "\\", "\\n",
    " a", "a ", " ", "a\nb", "\n", "a\n", "\na", "a\tb", "\t", "a\rb", "a\r\nb",
    "\u00e9", "\U0001f600", "\u00a0", "\ufeff", "\u0085", "a\u0085b", "\u2028", "\u2029",
    "\x00", "\x1b", "\x7f", "",
]
YAML_WORDS = {"yes", "no", "null", "~", "true", "off", "1", "1e3", "0x10", "0o7", "1_000", "1:30", "2001-01-01", ".inf"}
INTS = [-1, 1, 8080, 2 ** 31, 2 ** 63, 10 ** 30]

PREV_TEXTS = {
    "empty": "",
    "older-file": "# mitmproxy config\ns: old value\nnosuch: 1\nq: [x, 'y']\nos: ~\ni: 7\nods: old\nodi: 3\nqd: [z]\n",
}


def sclass(s):
    if s == "":
        return "empty"
    if any(c in s for c in "\u0085\u2028\u2029"):
        return "unicode-line-break"
    if "\n" in s or "\r" in s:
        return "newline"
    if "\t" in s:
        return "tab"
    if any(ord(c) < 32 or ord(c) == 127 for c in s):
        return "control"
    if s != s.strip(" "):
        return "edge-space"
    if any(ord(c) > 127 for c in s):
        return "non-ascii"
    if s in YAML_WORDS:
        return "yaml-scalar-word"
    if any(c in s for c in ":-#?[]{}&*!|>%@`'\"\\."):
        return "yaml-indicator"
    return "plain"


CLASS_ORDER = ["unicode-line-break", "control", "newline", "tab", "edge-space", "empty", "non-ascii", "yaml-scalar-word",
               "yaml-indicator", "plain", "number", "bool", "none"]


def vclass(assign):
    cl = set()
    for k, v in assign:
        if isinstance(v, str):
            cl.add(sclass(v))
        elif isinstance(v, (list, tuple)):
            cl.update(sclass(x) for x in v)
            if not v:
                cl.add("empty")
        elif isinstance(v, bool):
            cl.add("bool")
        elif v is None:
            cl.add("none")
        else:
            cl.add("number")
    return [c for c in CLASS_ORDER if c in cl][0]


_SCRATCH = None  # set by rt_chunk for the duration of one chunk (pool workers do not run atexit handlers)


def scratch():
    assert _SCRATCH is not None
    return _SCRATCH


def rt_cases(tier):
    """yield (assignment pairs, prev-text name, path kind); every option's default is changed by at least one case"""
    singles = []
    for h in HOSTILE:
        if h != "d":
            singles.append([["s", h]])
        singles.append([["os", h]])
        singles.append([["q", [h]]])
        singles.append([["q", (h, "x")]])
    for n in INTS:
        singles.append([["i", n]])
        singles.append([["oi", n]])
    singles.append([["b", True]])
    singles.append([["q", ["a", "a", "b"]]])
    # options whose default is not falsy, set to every falsy value of their type (and a few others)
    for name, vals in (("bt", [False]), ("ip", [0, -1]), ("ods", [None, "", "null", "~", "None"]), ("odi", [None, 0, -1]),
                       ("qd", [[], [""], ["null"], ("a", "a")])):
        for v in vals:
            singles.append([[name, v]])
    singles.append([["ods", None], ["odi", None], ["qd", []], ["bt", False], ["ip", 0]])
    singles.append([["ods", None], ["os", "None"], ["oi", 0], ["odi", None], ["s", "~"]])
    cases = []
    for s in singles:
        for prev in PREV_TEXTS:
            for path in ("stringio", "file"):
                cases.append([s, prev, path])
    # pairs of hostile strings as a two-element sequence and as (s, os) together
    pool = HOSTILE if tier == "thorough" else HOSTILE[::2] + ["\u0085"]
    for a, b in itertools.product(pool, pool):
        cases.append([[["q", [a, b]]], "empty", "stringio"])
        if a != "d":
            cases.append([[["s", a], ["os", b], ["b", True], ["i", 5]], "older-file", "stringio"])
    for h in HOSTILE:
        if h != "u":
            cases.append([[["ods", h], ["odi", None]], "older-file", "stringio"])
    if tier == "thorough":
        small = HOSTILE[::4] + ["\u0085"]
        for c in itertools.product(small, repeat=3):
            cases.append([[["q", list(c)]], "empty", "file"])
    return cases


def rt_one(case, t: Tally):
    assign, prevname, pathkind = case
    assign = [(k, dec(v)) for k, v in assign]
    names = sorted({k for k, _ in assign})
    feats = {"op": "roundtrip", "opt_type": TYPENAME[names[0]] if len(names) == 1 else "several",
             "value_class": vclass(assign), "path": pathkind,
             "default_kind": "non-falsy" if any(k in RT_EXTRA for k in names) else "falsy"}
    jcase = {"roundtrip": [[k, enc(v)] for k, v in assign], "prev": prevname, "path": pathkind}
    src = make_rt_opts()
    src.update(**dict(assign))  # harness step: these are valid typed values; an exception here is a checker bug
    want = {k: getattr(src, k) for k in src.keys() if src.has_changed(k)}
    got = None
    text = None
    try:
        dst = make_rt_opts()
        if pathkind == "stringio":
            f = io.StringIO()
            optmanager.serialize(src, f, PREV_TEXTS[prevname])
            text = f.getvalue()
            optmanager.load(dst, text)
        else:
            p = os.path.join(scratch(), "config.yaml")
            with open(p, "w", encoding="utf8") as f:
                f.write(PREV_TEXTS[prevname])
            optmanager.save(src, p)
            with open(p, encoding="utf8", newline="") as f:
                text = f.read()
            optmanager.load_paths(dst, p)
            os.remove(p)
        got = {k: getattr(dst, k) for k in want}
        ok = all(_same_rt(got[k], want[k]) for k in want)
    except KeyboardInterrupt:
        raise
    except BaseException as e:
        ok = False
        got = "%s: %s" % (type(e).__name__, str(e)[:200])
    t.judge("save_load_reproduces_non_defaults", ok, feats, jcase, {k: repr(v) for k, v in want.items()},
            {"loaded": got if isinstance(got, str) else {k: repr(v) for k, v in (got or {}).items()}, "file": text})
    t.outcome(["roundtrip", feats["value_class"], ok])
    t.case(jcase if len(t.samples) < 1 and feats["value_class"] == "newline" else None, nontrivial=bool(want), key=jcase)


def _same_rt(got, want):
    if isinstance(want, (list, tuple)):
        return isinstance(got, (list, tuple)) and [repr(x) for x in got] == [repr(x) for x in want]
    return repr(got) == repr(want)


def rt_chunk(cases):
    global _SCRATCH
    t = Tally()
    d = "/dev/shm/vmc-%d-c44" % os.getpid()
    os.makedirs(d, exist_ok=True)
    _SCRATCH = d
    try:
        for c in cases:
            rt_one(c, t)
    finally:
        _SCRATCH = None
        shutil.rmtree(d, ignore_errors=True)
    return t


# ---------------------------------------------------------------------------


_DEPTH = 3


def bfs_chunk(cfgs):
    (cfg,) = cfgs
    t = Tally()
    states, capped = explore.bfs(Spec(cfg), _DEPTH, t, nproc=1)
    assert not capped
    return cfg, states, t


def run(ctx):
    depth = ctx.pick(3, 4)
    ctx.bounds = {
        "bfs_depth": depth,
        "listener_configurations": {k: v for k, v in LCONFIGS.items()},
        "options": TYPENAME,
        "valid_values": {k: [repr(x) for x in v] for k, v in VALID.items()},
        "wrong_type_values": {k: [repr(x) for x in v] for k, v in WRONG.items()},
        "two_option_updates": len(UPDATE2), "set_specs": len(SETS),
        "roundtrip_values": "%d hostile strings as str / optional str / 1-, 2- (and thorough: 3-) element sequences, %d ints, "
                            "2 previous file texts, StringIO and real file" % (len(HOSTILE), len(INTS)),
    }
    # one BFS per listener configuration; the configurations are dealt to the pool and each BFS runs inside its
    # worker (the state spaces are small: pool start-up per BFS level would cost more than the exploration)
    global _DEPTH
    _DEPTH = depth
    gc.collect()
    gc.freeze()  # forked workers then do not copy the parent's heap on every collection
    total = 0
    for cfg, states, t in par.pmap(bfs_chunk, list(LCONFIGS), nchunks=len(LCONFIGS)):
        ctx.tally.merge(t)
        ctx.log("listeners=%s: %d states, %d transitions" % (cfg, states, t.transitions))
        total += states
    ctx.info["bfs_states_total"] = total
    cases = rt_cases(ctx.tier)
    ctx.log("round trip: %d cases" % len(cases))
    ctx.info["roundtrip_cases"] = len(cases)
    par.pmap_tally(rt_chunk, cases, ctx.tally)


def replay(case, t: Tally, verbose=False):
    if isinstance(case, dict) and "roundtrip" in case:
        t.merge(rt_chunk([[case["roundtrip"], case["prev"], case["path"]]]))
        if verbose:
            for k, lst in t.violations.items():
                print("  file text:", repr(lst[0].observed.get("file")))
        return
    cfg, hist = case
    spec = Spec(cfg)
    s = spec.build()
    done = []
    for a in hist:
        spec.apply(s, a)
        done.append(a)
        if verbose:
            print("  %-60s -> %s  %s" % (a, s.last, _r(snapshot(s.opts))))
        if len(done) == len(hist):
            spec.check(s, done, t)
        else:
            s.judged = []
