"""C02 - HTTP/1 behaviour does not depend on TCP segmentation or pipelining.

Engine X (schedules) on the real stack: for every representative valid exchange
(one to three pipelined requests, bodies with CL / chunked, HEAD, Expect,
read-until-EOF and chunked responses, streamed bodies) every client segmentation
and every server segmentation up to a cut bound (plus 1-byte segmentation) is
crossed with every causally possible interleaving of "deliver next client segment" /
"deliver next server segment" (deviation-bounded DFS over the real
ProxyConnectionHandler on the virtual loop).  Differential oracle: the outcome of
every schedule equals the outcome of the unsplit, strictly alternating schedule.
"""
from __future__ import annotations

import itertools

from vmc import par
from vmc.drivers import h1
from vmc.drivers.world import World
from vmc.explore import _dev_rec
from vmc.refs import http1ref
from vmc.tally import HarnessError, Tally, digest

META = {
    "level": "model_checking",
    "technique": "deviation-bounded DFS over segment-delivery schedules on the real ConnectionHandler/HttpLayer (virtual event loop); differential oracle against the unsplit schedule",
    "claim": "for every base exchange, every segmentation within the cut bound and every interleaving within the deviation bound yields the same flows, hook sequence and peer-visible messages as whole-stream, alternating delivery; pipelined requests are answered in order",
    "rule": "an execution is (base exchange, client cut set, server cut set, interleaving); distinct = distinct tuple; non-trivial = at least one cut or one non-default interleaving choice",
    "assumptions": [
        "the upstream peer releases response k only after request k has completely arrived (causality)",
        "chunk boundaries of streamed bodies and the number of write calls are not compared (de-chunked bodies are)",
        "hooks complete immediately (held hooks are C11's subject)",
    ],
}

REQ = {
    "get": b"GET http://example.com/%s HTTP/1.1\r\nHost: example.com\r\n\r\n",
    "head": b"HEAD http://example.com/%s HTTP/1.1\r\nHost: example.com\r\n\r\n",
    "post_cl": b"POST http://example.com/%s HTTP/1.1\r\nHost: example.com\r\nContent-Length: 5\r\n\r\nhello",
    "post_ch": b"POST http://example.com/%s HTTP/1.1\r\nHost: example.com\r\nTransfer-Encoding: chunked\r\n\r\n3\r\nhel\r\n2\r\nlo\r\n0\r\n\r\n",
    "post_expect": b"POST http://example.com/%s HTTP/1.1\r\nHost: example.com\r\nExpect: 100-continue\r\nContent-Length: 5\r\n\r\nhello",
    "get10": b"GET http://example.com/%s HTTP/1.0\r\nHost: example.com\r\n\r\n",
    "get_b": b"GET http://other.example/%s HTTP/1.1\r\nHost: other.example\r\n\r\n",
    # a plain-HTTP tunnel: CONNECT, then (possibly in the same segment, before the 200) origin-form requests inside it
    "connect": b"CONNECT example.com:80 HTTP/1.1\r\nHost: example.com:80\r\nX-Conn: %s\r\n\r\n",
    "get_origin": b"GET /%s HTTP/1.1\r\nHost: example.com\r\n\r\n",
    "post_origin": b"POST /%s HTTP/1.1\r\nHost: example.com\r\nContent-Length: 7\r\n\r\nhello\r\n",
    # opaque (non-HTTP, non-TLS) tunnel payload whose last bytes are CR LF; it does not start with CR/LF, so the
    # "eat superfluous newlines after CONNECT" rule never applies to it
    "raw": b"*1 %s ping\r\n+ok\r\n",
}
RESP = {
    "cl": b"HTTP/1.1 200 OK\r\nContent-Length: 4\r\nX-Id: %s\r\n\r\nbody",
    "ch": b"HTTP/1.1 200 OK\r\nTransfer-Encoding: chunked\r\nX-Id: %s\r\n\r\n2\r\nbo\r\n2\r\ndy\r\n0\r\n\r\n",
    "eof": b"HTTP/1.1 200 OK\r\nX-Id: %s\r\n\r\nbody",
    "204": b"HTTP/1.1 204 No Content\r\nX-Id: %s\r\n\r\n",
    "304": b"HTTP/1.1 304 Not Modified\r\nX-Id: %s\r\nContent-Length: 4\r\n\r\n",
    "headcl": b"HTTP/1.1 200 OK\r\nContent-Length: 4\r\nX-Id: %s\r\n\r\n",
    "close": b"HTTP/1.1 200 OK\r\nContent-Length: 4\r\nConnection: close\r\nX-Id: %s\r\n\r\nbody",
    # an upstream HTTP proxy's answer to mitmproxy's own CONNECT (upstream mode)
    "established": b"HTTP/1.1 200 Connection established\r\nX-Id: %s\r\n\r\n",
    # a misbehaving upstream: a complete response followed by surplus bytes that look like another response
    "surplus": b"HTTP/1.1 200 OK\r\nContent-Length: 4\r\nX-Id: %s\r\n\r\nbodyHTTP/1.1 200 OK\r\nContent-Length: 5\r\nX-Id: stale\r\n\r\nstale",
    "surplus-junk": b"HTTP/1.1 200 OK\r\nContent-Length: 4\r\nX-Id: %s\r\n\r\nbody\r\n\r\njunk",
}

# (name, [(request kind, response kind)...], stream policy)
BASES = [
    ("get", [("get", "cl")], None),
    ("get-ch", [("get", "ch")], None),
    ("get-eof", [("get", "eof")], None),
    ("get-204", [("get", "204")], None),
    ("get-304", [("get", "304")], None),
    ("head", [("head", "headcl")], None),
    ("post-cl", [("post_cl", "cl")], None),
    ("post-ch", [("post_ch", "ch")], None),
    ("post-expect", [("post_expect", "cl")], None),
    ("get10", [("get10", "cl")], None),
    ("pipe2", [("get", "cl"), ("get", "cl")], None),
    ("pipe2-post", [("post_cl", "cl"), ("get", "ch")], None),
    ("pipe2-ch", [("post_ch", "ch"), ("post_cl", "cl")], None),
    ("pipe3", [("get", "cl"), ("head", "headcl"), ("get", "ch")], None),
    ("pipe2-hosts", [("get", "cl"), ("get_b", "cl")], None),
    ("pipe2-close", [("get", "close"), ("get", "cl")], None),
    # sequential keep-alive (request k+1 is only sent after response k has been received): with surplus
    # upstream bytes a *pipelined* follower would make the outcome depend on whether the surplus reaches the
    # proxy before or after it forwarded the follower, which no proxy can observe - so these are not pipelined.
    # sequential: a client must not send tunnel payload before it has received the 2xx to its CONNECT
    ("seq-tunnel-get", [("connect", None), ("get_origin", "cl")], None),
    ("seq-tunnel-post-get", [("connect", None), ("post_origin", "cl"), ("get_origin", "ch")], None),
    # optimistic tunnel payload (same segment as the CONNECT head, or any later split): whatever the proxy does with
    # early payload, it must do the same for every segmentation; the opaque payload must reach upstream byte-exact
    ("pipe-tunnel-get", [("connect", None), ("get_origin", "cl")], None),
    ("pipe-tunnel-raw", [("connect", None), ("raw", None)], None),
    # upstream mode (upstream:http://proxy.test:8080): the tunnel is re-established through the next proxy, whose reply
    # to mitmproxy's CONNECT is segmented like every other server byte stream
    ("seq-tunnel-upstream-get", [("connect", "established"), ("get_origin", "cl")], None),
    ("seq-tunnel-upstream-post-get", [("connect", "established"), ("post_origin", "ch"), ("get_origin", "cl")], None),
    ("seq2", [("get", "cl"), ("post_cl", "ch")], None),
    ("seq2-surplus", [("get", "surplus"), ("get", "cl")], None),
    ("seq3-surplus-junk", [("get", "cl"), ("get", "surplus-junk"), ("get", "cl")], None),
    ("stream-req", [("post_ch", "cl")], "req"),
    ("stream-req-cl", [("post_cl", "cl"), ("get", "cl")], "req"),
    ("stream-resp", [("get", "ch")], "resp"),
    ("stream-resp-cl", [("get", "cl"), ("get", "cl")], "resp"),
    ("stream-both", [("post_ch", "ch")], "both"),
]
BASE_BY_NAME = {b[0]: b for b in BASES}


def build(base):
    name, pairs, stream = base
    cs = b"".join(REQ[r] % (b"r%d" % i) for i, (r, _) in enumerate(pairs))
    # a CONNECT is answered by mitmproxy itself (response kind None): upstream responses are numbered without it
    rs = [RESP[s] % (b"%d" % i) for i, (_, s) in enumerate(p for p in pairs if p[1])]
    return cs, rs


def split(data, cuts):
    out, prev = [], 0
    for c in cuts:
        out.append(data[prev:c])
        prev = c
    out.append(data[prev:])
    return [x for x in out if x]


def policy_for(stream):
    def policy(name, data, world):
        if stream in ("req", "both") and name == "requestheaders":
            data.request.stream = True
        if stream in ("resp", "both") and name == "responseheaders":
            data.response.stream = True

    return policy


class Exec:
    """one execution: replays `prefix` of choices then default (index 0) everywhere"""

    def __init__(self, base, ccuts, scuts):
        self.base = base
        self.cs, self.rs = build(base)
        self.ccuts, self.scuts = ccuts, scuts

    def run(self, prefix, t: Tally, want_outcome=False):
        name, pairs, stream = self.base
        w = World(mode="upstream:http://proxy.test:8080" if "upstream" in name else "regular", policy=policy_for(stream), snap=h1.http_snap, auto_connect=True)
        choices, widths = [], []
        try:
            w.start()
            ccuts = "all" == self.ccuts and range(1, len(self.cs)) or self.ccuts
            if name.startswith("seq"):
                ccuts = sorted(set(ccuts) | set(_message_cuts(self.base)))  # a segment never spans two requests
            csegs = split(self.cs, ccuts)
            # response k becomes available for delivery once request k has fully arrived upstream
            pending = []  # [(end, [segments])] in release order
            released = 0
            per_end_seen = {}
            upstream_pairs = [p for p in pairs if p[1]]
            nreq = len(upstream_pairs)
            step = 0
            while True:
                # release responses for requests that have completely arrived at some upstream end
                total = 0
                for e in w.servers:
                    msgs, _ = http1ref.parse_requests(e.w.data)
                    seen = per_end_seen.get(id(e), 0)
                    for _m in msgs[seen:]:
                        if released < nreq:
                            r = self.rs[released]
                            segs = split(r, "all" == self.scuts and range(1, len(r)) or [c for c in self.scuts if c < len(r)])
                            eof = upstream_pairs[released][1] in ("eof", "close")
                            pending.append([e, segs, eof])
                            released += 1
                    per_end_seen[id(e)] = len(msgs)
                enabled = []
                # (sequential bases: the next request is also held back while released upstream bytes are still in
                # flight - whether surplus bytes overtake the next request is a network race, not a segmentation)
                if csegs and (not name.startswith("seq") or (not any(segs or eof for _e, segs, eof in pending)
                                                            and self._client_may_send(w, len(self.cs) - sum(map(len, csegs)), pairs))):
                    enabled.append(("c",))
                for i, (e, segs, eof) in enumerate(pending):
                    if segs or eof:
                        enabled.append(("s", i))
                        break  # responses on one connection are delivered in order
                if not enabled:
                    break
                if len(enabled) > 1:
                    k = prefix[len(choices)] if len(choices) < len(prefix) else 0
                    if k >= len(enabled):
                        raise HarnessError("choice out of range while replaying %r" % (prefix,))
                    choices.append(k)
                    widths.append(len(enabled))
                    act = enabled[k]
                else:
                    act = enabled[0]
                if act[0] == "c":
                    w.client_send(csegs.pop(0))
                else:
                    e, segs, eof = pending[act[1]]
                    if segs:
                        w.server_send(e, segs.pop(0))
                    elif eof:
                        pending[act[1]][2] = False
                        e.r.eof = True
                        w.server_eof(e)
                t.transitions += 1
                t.state([[n for n, _ in w.hooks], len(w.client.w.data), [len(s.w.data) for s in w.servers]])
                step += 1
                if step > 5000:
                    raise HarnessError("schedule does not terminate")
            w.close_out()
            out = outcome(w, [p[0] for p in pairs])
            if w.errors:
                out["errors"] = [x[:120] for x in w.errors]
        finally:
            w.dispose()
        if want_outcome:
            return out
        self.judge(out, prefix, choices, t)
        return choices, widths, None

    def _client_may_send(self, w, offset, pairs):
        """sequential clients: bytes of request k are only sent once k final responses have been received"""
        pos, k = 0, 0
        for i, (r, _) in enumerate(pairs):
            pos += len(REQ[r] % (b"r%d" % i))
            if offset < pos:
                k = i
                break
        else:
            k = len(pairs)
        msgs, _ = http1ref.parse_responses(w.client.w.data, _methods([p[0] for p in pairs]), eof=False)
        done = sum(1 for m in msgs if not m["start"][1].startswith(b"1"))
        return done >= k

    def judge(self, out, prefix, choices, t: Tally):
        base_out = baseline(self.base)
        name = self.base[0]
        ccls = "all" if self.ccuts == "all" else len(self.ccuts)
        scls = "all" if self.scuts == "all" else len(self.scuts)
        feats = {"base": name}
        if out.get("raw_hooks") and not base_out.get("raw_hooks"):
            feats["treated_as_raw_tcp"] = True  # the tunnelled HTTP was not recognised as HTTP in this schedule
        case = {"base": name, "ccuts": self.ccuts if self.ccuts == "all" else list(self.ccuts),
                "scuts": self.scuts if self.scuts == "all" else list(self.scuts), "choices": list(choices)}
        nontrivial = bool(self.ccuts) or bool(self.scuts) or any(choices)
        t.case(case if (len(t.samples) < 2 and nontrivial and len(choices) > 1) else None, nontrivial=nontrivial, key=case)
        t.outcome(out)
        for part in ("flows", "upstream", "client", "errors"):
            a, b = out.get(part), base_out.get(part)
            t.judge("same_outcome_" + part, a == b, dict(feats, part=part), case, b, a)
        # pipelined requests answered in order, each response matched to its own request
        # (interim 1xx responses are mitmproxy's own `100 Continue`; how many requests get answered at all is
        # fixed by same_outcome_client against the baseline, e.g. one when the first response says `Connection: close`)
        ids = [dict((n.lower(), v) for n, v in m["fields"]).get(b"x-id") for m in out["client_msgs"] if not m["start"][1].startswith(b"1")]
        if "tunnel" in name:
            ids = [x for x in ids if x is not None]  # mitmproxy's own `200 Connection established` carries no id
        first = 1 if "upstream" in name else 0  # id 0 is the next proxy's own 2xx to CONNECT, which is not relayed
        t.judge("pipelined_in_order", ids == [b"%d" % i for i in range(first, first + len(ids))],
                feats, case, list(range(len(ids))), ids)


def outcome(w: World, methods):
    flows = []
    order = {}
    for name, s in w.hooks:
        if s is None or "request" not in s:
            continue
        idx = order.setdefault(s["id"], len(order))
        rec = {"hook": name, "flow": idx, "req": _strip(s["request"]), "resp": _strip(s.get("response")), "error": s["error"]}
        flows.append(rec)
    up = []
    for e in w.servers:
        msgs, verdict = http1ref.parse_requests(e.w.data)
        up.append({"addr": e.address, "verdict": verdict, "msgs": [_msg(m) for m in msgs]})
        if "raw" in methods:
            up[-1]["bytes"] = bytes(e.w.data)  # opaque tunnel payload: compared byte for byte
    cm, cv = http1ref.parse_responses(w.client.w.data, _methods(methods), eof=w.client.w.closed)
    raw = sorted({n for n, _ in w.hooks if n.startswith(("tcp_", "udp_"))})
    return {"flows": flows, "upstream": up, "client": {"verdict": cv, "msgs": [_msg(m) for m in cm]}, "client_msgs": cm, "errors": [], "raw_hooks": raw}


def _methods(kinds):
    return [{"get": b"GET", "head": b"HEAD", "get10": b"GET", "get_b": b"GET", "get_origin": b"GET", "connect": b"CONNECT"}.get(k, b"POST") for k in kinds]


def _strip(part):
    if part is None:
        return None
    p = dict(part)
    if p.get("stream"):
        p["content"] = None
    return p


def _msg(m):
    return {"start": list(m["start"]), "fields": [list(f) for f in m["fields"]], "body": m["body"], "trailers": [list(f) for f in m["trailers"]]}


_BASELINES: dict = {}


def baseline(base):
    name = base[0]
    if name not in _BASELINES:
        # whole-stream delivery per message, strictly alternating: request k, then response k
        ex = Exec(base, _message_cuts(base), ())
        t = Tally()
        # alternate = prefer the server whenever it has something (choice index 1 when both enabled)
        out = ex.run(_Alternate(), t, want_outcome=True)
        out2 = ex.run(_Alternate(), t, want_outcome=True)
        if digest(out) != digest(out2):
            raise HarnessError("baseline execution of %s is not deterministic" % name)
        _BASELINES[name] = out
    return _BASELINES[name]


class _Alternate:
    """a 'prefix' that always answers: deliver the server segment if one is enabled"""

    def __len__(self):
        return 10 ** 9

    def __getitem__(self, i):
        return 1


def _message_cuts(base):
    name, pairs, stream = base
    cuts, pos = [], 0
    for i, (r, _) in enumerate(pairs[:-1]):
        pos += len(REQ[r] % (b"r%d" % i))
        cuts.append(pos)
    return tuple(cuts)


def specs(tier):
    out = []
    for base in BASES:
        cs, rs = build(base)
        n = len(cs)
        m = max([len(r) for r in rs] or [1])
        ccutsets = [()] + [(i,) for i in range(1, n)] + ["all"]
        scutsets = [()] + [(i,) for i in range(1, m)] + ["all"]
        if tier == "thorough":
            step = 1 if n <= 90 else 2
            ccutsets += [(i, j) for i in range(1, n, step) for j in range(i + 1, n, 7)]
            for cc in ccutsets:
                out.append((base[0], cc, (), 2))
            for sc in scutsets[1:]:
                out.append((base[0], (), sc, 2))
            for cc in [(i,) for i in range(1, n, 3)]:
                for sc in [(i,) for i in range(1, m, 5)]:
                    out.append((base[0], cc, sc, 2))
        else:
            for cc in ccutsets:
                out.append((base[0], cc, (), 1))
            for sc in scutsets[1:]:
                out.append((base[0], (), sc, 1))
            out.append((base[0], (n // 2,), (m // 2,), 2))
    return out


def chunk_fn(chunk):
    t = Tally()
    for name, cc, sc, bound in chunk:
        ex = Exec(BASE_BY_NAME[name], cc, sc)
        _dev_rec(ex, (), 0, bound, t)
    return t


def run(ctx):
    sp = specs(ctx.tier)
    ctx.bounds = {"bases": [b[0] for b in BASES], "client_cuts": ctx.pick("<=1 cut at every offset, and 1-byte segments", "<=2 cuts (second cut every 7th offset), and 1-byte segments"),
                  "server_cuts": "<=1 cut at every offset, and 1-byte segments", "interleaving_deviations": ctx.pick("1 (2 for the combined split)", 2), "specs": len(sp)}
    ctx.log("%d (base, segmentation) specs" % len(sp))
    # determinism self-test on the first spec
    for b in BASES[:2]:
        baseline(b)
    par.pmap_tally(chunk_fn, sp, ctx.tally, nchunks=128)


def replay(case, t, verbose=False):
    base = BASE_BY_NAME[case["base"]]
    cc = case["ccuts"] if case["ccuts"] == "all" else tuple(case["ccuts"])
    sc = case["scuts"] if case["scuts"] == "all" else tuple(case["scuts"])
    ex = Exec(base, cc, sc)
    if verbose:
        print("baseline:", baseline(base))
        print("this run:", ex.run(tuple(case["choices"]), Tally(), want_outcome=True))
    ex.run(tuple(case["choices"]), t)
