"""ianaref - hand-copied IANA special-purpose address registries (reference for C22).

Sources (copied by hand, not derived from any library table):
  * IANA IPv4 Special-Purpose Address Registry (RFC 6890 and updates)
  * IANA IPv6 Special-Purpose Address Registry (RFC 6890 and updates)
  * IANA IPv4 / IPv6 address space registries for what lies outside them
    (224.0.0.0/4 multicast, ff00::/8 multicast, 2000::/3 global unicast, the
    rest of IPv6 "reserved by IETF", fec0::/10 deprecated site-local)

Only integer arithmetic on the textual prefixes is used here; the stdlib
`ipaddress` *classification* predicates (is_private, is_global, ...) - which are what
mitmproxy's Block addon consults - are deliberately not used.

Every entry: (prefix, name, rfc, globally_reachable, cls, stdlib_varies)
  globally_reachable  True / False / None (registry says N/A or the block is not in
                      the special-purpose registry at all)
  cls   the class the C22 oracle uses for addresses whose most specific block is this one:
        "loopback"   127.0.0.0/8, ::1
        "private"    private-use, unique-local and link-local space: what block_private is about
                     (the repository's own tests treat fe80:: as private, too)
        "nonglobal"  other space the registry marks *not* globally reachable (this-network,
                     shared/CGNAT, documentation, benchmarking, protocol assignments,
                     reserved, broadcast, discard-only, translation-local, ...): certainly
                     not "globally routable"; whether it is "private" is left open
        "global"     marked globally reachable (anycast services, AMT, AS112, ORCHIDv2, ...)
        "undecided"  the registry itself says N/A (6to4, Teredo, deprecated blocks) or the
                     space is unallocated / reserved by the IETF: not judged
        "multicast"  not a unicast source address: not judged
  stdlib_varies  the classification of this block by CPython's ipaddress tables changed
        between patch releases of one minor version (gh-113171: 3.12.4 / 3.11.x / 3.10.x
        security releases re-wrote _private_networks), or the registry entry is newer than
        the table shipped with some supported 3.12 interpreter.  Such addresses are
        enumerated but reported as `skipped:stdlib-table`: a wrong answer there is the
        interpreter's table, not mitmproxy.
"""
from __future__ import annotations

# fmt: off
IPV4 = [
    # prefix               name                                      rfc        reach   cls          stdlib_varies
    ("0.0.0.0/8",          "this-network",                           "RFC791",  False,  "nonglobal", False),
    ("0.0.0.0/32",         "this-host-on-this-network",              "RFC1122", False,  "nonglobal", False),
    ("10.0.0.0/8",         "private-use",                            "RFC1918", False,  "private",   False),
    ("100.64.0.0/10",      "shared-address-space",                   "RFC6598", False,  "nonglobal", False),
    ("127.0.0.0/8",        "loopback",                               "RFC1122", False,  "loopback",  False),
    ("169.254.0.0/16",     "link-local",                             "RFC3927", False,  "private",   False),
    ("172.16.0.0/12",      "private-use",                            "RFC1918", False,  "private",   False),
    # 192.0.0.0/24 was not in CPython's table before gh-113171 (only /29 and .170/31 were)
    ("192.0.0.0/24",       "ietf-protocol-assignments",              "RFC6890", False,  "nonglobal", True),
    ("192.0.0.0/29",       "ipv4-service-continuity-prefix",         "RFC7335", False,  "nonglobal", False),
    ("192.0.0.8/32",       "ipv4-dummy-address",                     "RFC7600", False,  "nonglobal", True),
    ("192.0.0.9/32",       "port-control-protocol-anycast",          "RFC7723", True,   "global",    True),
    ("192.0.0.10/32",      "turn-anycast",                           "RFC8155", True,   "global",    True),
    ("192.0.0.170/32",     "nat64-dns64-discovery",                  "RFC8880", False,  "nonglobal", False),
    ("192.0.0.171/32",     "nat64-dns64-discovery",                  "RFC8880", False,  "nonglobal", False),
    ("192.0.2.0/24",       "documentation-test-net-1",               "RFC5737", False,  "nonglobal", False),
    ("192.31.196.0/24",    "as112-v4",                               "RFC7535", True,   "global",    False),
    ("192.52.193.0/24",    "amt",                                    "RFC7450", True,   "global",    False),
    ("192.88.99.0/24",     "deprecated-6to4-relay-anycast",          "RFC7526", None,   "undecided", False),
    ("192.88.99.2/32",     "6a44-relay-anycast",                     "RFC6751", False,  "nonglobal", True),
    ("192.168.0.0/16",     "private-use",                            "RFC1918", False,  "private",   False),
    ("192.175.48.0/24",    "direct-delegation-as112",                "RFC7534", True,   "global",    False),
    ("198.18.0.0/15",      "benchmarking",                           "RFC2544", False,  "nonglobal", False),
    ("198.51.100.0/24",    "documentation-test-net-2",               "RFC5737", False,  "nonglobal", False),
    ("203.0.113.0/24",     "documentation-test-net-3",               "RFC5737", False,  "nonglobal", False),
    ("240.0.0.0/4",        "reserved",                               "RFC1112", False,  "nonglobal", False),
    ("255.255.255.255/32", "limited-broadcast",                      "RFC8190", False,  "nonglobal", False),
    # outside the special-purpose registry (IPv4 address space registry)
    ("224.0.0.0/4",        "multicast",                              "RFC5771", None,   "multicast", False),
]

IPV6 = [
    ("::1/128",            "loopback",                               "RFC4291", False,  "loopback",  False),
    ("::/128",             "unspecified",                            "RFC4291", False,  "nonglobal", False),
    ("::ffff:0:0/96",      "ipv4-mapped",                            "RFC4291", False,  "nonglobal", False),
    ("64:ff9b::/96",       "ipv4-ipv6-translation",                  "RFC6052", True,   "global",    False),
    ("64:ff9b:1::/48",     "ipv4-ipv6-translation-local",            "RFC8215", False,  "nonglobal", True),
    ("100::/64",           "discard-only",                           "RFC6666", False,  "nonglobal", False),
    ("100:0:0:1::/64",     "dummy-ipv6-prefix",                      "RFC9780", False,  "nonglobal", True),
    ("2001::/23",          "ietf-protocol-assignments",              "RFC2928", False,  "nonglobal", False),
    ("2001::/32",          "teredo",                                 "RFC4380", None,   "undecided", False),
    ("2001:1::1/128",      "port-control-protocol-anycast",          "RFC7723", True,   "global",    True),
    ("2001:1::2/128",      "turn-anycast",                           "RFC8155", True,   "global",    True),
    ("2001:1::3/128",      "dns-sd-srp-anycast",                     "RFC9665", True,   "global",    True),
    ("2001:2::/48",        "benchmarking",                           "RFC5180", False,  "nonglobal", False),
    ("2001:3::/32",        "amt",                                    "RFC7450", True,   "global",    True),
    ("2001:4:112::/48",    "as112-v6",                               "RFC7535", True,   "global",    True),
    ("2001:10::/28",       "deprecated-orchid",                      "RFC4843", None,   "undecided", False),
    ("2001:20::/28",       "orchidv2",                               "RFC7343", True,   "global",    True),
    ("2001:30::/28",       "drone-remote-id",                        "RFC9374", True,   "global",    True),
    ("2001:db8::/32",      "documentation",                          "RFC3849", False,  "nonglobal", False),
    ("2002::/16",          "6to4",                                   "RFC3056", None,   "undecided", True),
    ("2620:4f:8000::/48",  "direct-delegation-as112",                "RFC7534", True,   "global",    False),
    ("3fff::/20",          "documentation",                          "RFC9637", False,  "nonglobal", True),
    ("5f00::/16",          "segment-routing-sids",                   "RFC9602", False,  "nonglobal", True),
    ("fc00::/7",           "unique-local",                           "RFC4193", False,  "private",   False),
    ("fe80::/10",          "link-local-unicast",                     "RFC4291", False,  "private",   False),
    # outside the special-purpose registry (IPv6 address space registry)
    ("fec0::/10",          "deprecated-site-local",                  "RFC3879", None,   "undecided", False),
    ("ff00::/8",           "multicast",                              "RFC4291", None,   "multicast", False),
    ("2000::/3",           "global-unicast",                         "RFC4291", True,   "global",    False),
]
# fmt: on

V4_ALL = ("0.0.0.0/0", "ordinary-unicast", "-", True, "global", False)
V6_ALL = ("::/0", "reserved-by-ietf", "RFC4291", None, "undecided", False)


class Block:
    __slots__ = ("prefix", "name", "rfc", "reach", "cls", "stdlib_varies", "family", "first", "last", "plen")

    def __init__(self, row, family):
        self.prefix, self.name, self.rfc, self.reach, self.cls, self.stdlib_varies = row
        self.family = family
        text, plen = self.prefix.split("/")
        self.plen = int(plen)
        bits = 32 if family == 4 else 128
        base = parse4(text) if family == 4 else parse6(text)
        size = 1 << (bits - self.plen)
        if base % size:
            raise ValueError("prefix %s has host bits set" % self.prefix)
        self.first = base
        self.last = base + size - 1

    def __contains__(self, n):
        return self.first <= n <= self.last

    def __repr__(self):
        return "<%s %s>" % (self.prefix, self.name)


# ---------------------------------------------------------------------------
# textual <-> integer, written out here so the reference does not lean on `ipaddress`


def parse4(text: str) -> int:
    parts = text.split(".")
    if len(parts) != 4:
        raise ValueError(text)
    n = 0
    for p in parts:
        if not p.isdigit() or (len(p) > 1 and p[0] == "0") or int(p) > 255:
            raise ValueError(text)
        n = (n << 8) | int(p)
    return n


def fmt4(n: int) -> str:
    return ".".join(str((n >> s) & 255) for s in (24, 16, 8, 0))


def parse6(text: str) -> int:
    if "." in text:  # trailing dotted quad
        head, _, quad = text.rpartition(":")
        v4 = parse4(quad)
        text = "%s:%x:%x" % (head, v4 >> 16, v4 & 0xFFFF)
    if text.count("::") > 1:
        raise ValueError(text)
    if "::" in text:
        l, r = text.split("::")
        lg = [g for g in l.split(":") if g]
        rg = [g for g in r.split(":") if g]
        if len(lg) + len(rg) > 7:
            raise ValueError(text)
        groups = lg + ["0"] * (8 - len(lg) - len(rg)) + rg
    else:
        groups = text.split(":")
    if len(groups) != 8:
        raise ValueError(text)
    n = 0
    for g in groups:
        if not (1 <= len(g) <= 4):
            raise ValueError(text)
        n = (n << 16) | int(g, 16)
    return n


def fmt6(n: int) -> str:
    """RFC 5952 compressed lower-case text (what inet_ntop prints, except for mapped addresses)"""
    groups = [(n >> s) & 0xFFFF for s in range(112, -1, -16)]
    best, blen, i = -1, 0, 0
    while i < 8:
        if groups[i] == 0:
            j = i
            while j < 8 and groups[j] == 0:
                j += 1
            if j - i > blen and j - i >= 2:
                best, blen = i, j - i
            i = j
        else:
            i += 1
    hexs = ["%x" % g for g in groups]
    if best < 0:
        return ":".join(hexs)
    return ":".join(hexs[:best]) + "::" + ":".join(hexs[best + blen:])


def fmt6_full(n: int) -> str:
    return ":".join("%04x" % ((n >> s) & 0xFFFF) for s in range(112, -1, -16))


def mapped_dotted(n4: int) -> str:
    return "::ffff:" + fmt4(n4)


def mapped_hex(n4: int) -> str:
    return "::ffff:%x:%x" % (n4 >> 16, n4 & 0xFFFF)


# ---------------------------------------------------------------------------

BLOCKS4 = [Block(r, 4) for r in IPV4]
BLOCKS6 = [Block(r, 6) for r in IPV6]
_ALL4 = Block(V4_ALL, 4)
_ALL6 = Block(V6_ALL, 6)


def lookup(family: int, n: int) -> Block:
    """most specific (longest prefix) block containing the address"""
    best = _ALL4 if family == 4 else _ALL6
    for b in BLOCKS4 if family == 4 else BLOCKS6:
        if n in b and b.plen > best.plen:
            best = b
    return best


def classify(family: int, n: int):
    """(cls, block) - cls as described in the module docstring"""
    b = lookup(family, n)
    return b.cls, b


def boundary_addresses(family: int, extra_inner=False):
    """for every block: first, last, and the addresses just outside; optionally second / middle /
    penultimate.  Returns sorted distinct integers."""
    top = (1 << (32 if family == 4 else 128)) - 1
    out = set()
    for b in BLOCKS4 if family == 4 else BLOCKS6:
        cand = [b.first, b.last, b.first - 1, b.last + 1]
        if extra_inner:
            cand += [b.first + 1, b.last - 1, (b.first + b.last) // 2, b.first - 2, b.last + 2]
        for c in cand:
            if 0 <= c <= top:
                out.add(c)
    return sorted(out)


# IPv6 addresses that *embed* an IPv4 address without being a notation of it (only ::ffff:a.b.c.d is): the class of such
# an address is that of its own IPv6 block, whatever IPv4 address is embedded.
EMBEDDED_V4 = ["127.0.0.1", "10.0.0.1", "192.168.1.1", "169.254.1.1", "100.64.0.1", "192.0.2.1", "8.8.8.8", "1.1.1.1"]


def embedding_addresses():
    """[(form, ipv6 integer)] for every embedding form x EMBEDDED_V4"""
    out = []
    for text in EMBEDDED_V4:
        v4 = parse4(text)
        out.append(("6to4", (0x2002 << 112) | (v4 << 80) | 1))  # 2002:V4ADDR::1 (RFC 3056)
        out.append(("teredo-server", (0x20010000 << 96) | (v4 << 64) | 1))  # 2001:0:V4ADDR::1 (RFC 4380)
        out.append(("teredo-client", (0x20010000 << 96) | (parse4("8.8.8.8") << 64) | (v4 ^ 0xFFFFFFFF)))  # obfuscated client address
        out.append(("nat64", (0x0064FF9B << 96) | v4))  # 64:ff9b::V4ADDR (RFC 6052)
        out.append(("nat64-local", (0x0064FF9B0001 << 80) | v4))  # 64:ff9b:1::V4ADDR (RFC 8215)
        out.append(("ipv4-compatible", v4))  # ::V4ADDR (deprecated, RFC 4291)
        out.append(("isatap", (0xFE80 << 112) | (0x00005EFE << 32) | v4))  # fe80::5efe:V4ADDR (RFC 5214)
    return out


# ordinary, well-known globally routed hosts (resolvers) and the extremes of ordinary space
ORDINARY4 = ["1.0.0.0", "1.1.1.1", "8.8.8.8", "9.9.9.9", "100.63.255.255", "100.128.0.0", "126.255.255.255", "128.0.0.0",
             "172.15.255.255", "172.32.0.0", "192.167.255.255", "192.169.0.0", "198.17.255.255", "198.20.0.0",
             "216.58.207.174", "223.255.255.255"]
ORDINARY6 = ["2000::", "2001:4860:4860::8888", "2606:4700:4700::1111", "2620:fe::fe", "2a00:1450:4001:81b::200e",
             "2001:200::", "2003::1", "3ffe:ffff:ffff:ffff:ffff:ffff:ffff:ffff"]
