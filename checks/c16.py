"""C16 - generated leaf certificates are valid for the identity the client asked for.

Engine E: the full product  client identity (SNI form, or no SNI -> local address) x upstream certificate shape x
`upstream_cert` x server address x CA (mitmproxy's generated CA / a custom chain file) x TLS version.  Every case is one
real handshake: a strict stdlib-`ssl` client (CERT_REQUIRED, check_hostname, VERIFY_X509_STRICT, trusting only the
root of mitmproxy's CA) against the real `ClientTLSLayer`, whose pyOpenSSL connection and leaf certificate come from
the real `TlsConfig.tls_clienthello / tls_start_client / get_cert`, `CertStore.get_cert` and `dummy_cert`.
"""
from __future__ import annotations

import ipaddress
import logging

from cryptography import x509
from cryptography.x509.oid import ExtendedKeyUsageOID
from cryptography.x509.oid import NameOID

from mitmproxy import certs as mcerts

from vmc import par
from vmc.peers import tlspeer as tp
from vmc.tally import Tally

META = {
    "level": "exploration",
    "technique": "full-product enumeration of (identity form, upstream certificate shape, upstream_cert, server address, CA, TLS version); one real in-memory handshake per case between a "
                 "strict stdlib-ssl verifier and the real ClientTLSLayer + TlsConfig.get_cert + CertStore + dummy_cert; the presented certificate is inspected with `cryptography`",
    "claim": "for every combination in the stated alphabet the leaf mitmproxy presents is issued by its CA, valid now, usable for server authentication, accepted by a strict verifier for "
             "the identity the client asked for, and names nothing but the SNI / local address, the server address and the upstream certificate's names; exploration because the certificate "
             "is a function of a finite configuration tuple",
    "rule": "a case is the tuple above; distinct = distinct tuple; non-trivial = a ClientHello reached tls_start_client and a certificate was presented",
    "assumptions": [
        "the verifier is stdlib ssl (system libssl) with VERIFY_X509_STRICT; it trusts only the self-signed root of mitmproxy's CA (for the custom chain: the root above the signing CA)",
        "stdlib ssl sends no SNI for IP literals, so the 'IP literal in the SNI' identities use an equally strict client built on pyOpenSSL (X509_V_FLAG_X509_STRICT, set1_ip, same trust root)",
        "'valid now' is judged against the clock at verification time; mitmproxy's window is -2 days .. +197 days, so the margin is days on both sides",
        "SNI values are host names (letters, digits, hyphen, underscore; IDNs as A-labels). A literal '*' label is not one: ClientHello.sni discards it (C13's subject) and no X.509 "
        "verifier can match it, so the 'wildcard-looking' form of the quantifier is represented on the upstream side (CN/SAN '*.upstream.example')",
        "names are compared case-insensitively; an upstream Common Name that is not a host name may be copied into the SAN in its IDNA form",
        "the CertStore is emptied between cases so that no verdict depends on the order of cases (cache behaviour is C17's subject)",
    ],
}

L63 = "a" * 63
IDENTITIES = {
    # name: (server_hostname given to the client, SNI on the wire or None, kind)
    "plain": ("example.com", "example.com", "dns"),
    "single-label": ("intranet", "intranet", "dns"),
    "label63": (L63 + ".example.com", L63 + ".example.com", "dns-long"),
    "name253": (".".join([L63, "b" * 63, "c" * 63, "d" * 61]), ".".join([L63, "b" * 63, "c" * 63, "d" * 61]), "dns-long"),
    "idn": ("münchen.example", "xn--mnchen-3ya.example", "idn"),
    "underscore": ("my_host._tcp.example.com", "my_host._tcp.example.com", "underscore"),
    "deep": ("a.b.example.com", "a.b.example.com", "dns-deep"),
    "ipv4-local": ("192.0.2.2", None, "ipv4"),
    "ipv6-local": ("2001:db8::2", None, "ipv6"),
    # IP literal *in the SNI* (clients that copy the URL host into server_name); the proxy's local address and the
    # server address are other addresses or names, so only the SNI can put this identity into the certificate
    "ipv4-sni": ("192.0.2.42", "192.0.2.42", "ipv4-sni"),
    "ipv6-sni": ("2001:db8::42", "2001:db8::42", "ipv6-sni"),
}
THOROUGH_IDENTITIES = {
    "upper": ("WWW.Example.COM", "WWW.Example.COM", "dns-upper"),
    "digits": ("1.2.3.4.example.com", "1.2.3.4.example.com", "dns"),
    "hyphens": ("a--b.x-y.example.com", "a--b.x-y.example.com", "dns"),
    "ipv4-mapped-local": ("::ffff:192.0.2.2", None, "ipv6"),
}
ALL_IDS = {**IDENTITIES, **THOROUGH_IDENTITIES}

# upstream certificate shapes: kwargs for tp.mint
UPSTREAMS = {
    "absent": None,
    "cn+san": dict(cn="upstream.example", sans=["dns:upstream.example", "dns:www.upstream.example"]),
    "cn-only": dict(cn="cnonly.upstream.example"),
    "cn-not-hostname": dict(cn="Example Upstream Service"),
    "org": dict(cn="upstream.example", o="Example Org, Inc.", sans=["dns:upstream.example"]),
    "crl": dict(cn="upstream.example", sans=["dns:upstream.example"], crl="http://crl.upstream.example/root.crl"),
    "san100": dict(cn="upstream.example", sans=["dns:h%d.upstream.example" % i for i in range(100)]),
    "ip-san": dict(cn="upstream.example", sans=["ip:203.0.113.5", "ip:2001:db8::5"]),
    "cn-is-ip": dict(cn="203.0.113.9"),
    # dNSName SANs whose *text* is an IP literal - the very addresses used as identities (local address, IP SNI) and as server address
    "dns-san-is-ip-text": dict(cn="upstream.example", sans=["dns:upstream.example", "dns:192.0.2.2", "dns:192.0.2.42", "dns:203.0.113.5", "dns:2001:db8::2", "dns:2001:db8::42"]),
    "wildcard": dict(cn="*.upstream.example", sans=["dns:*.upstream.example", "dns:upstream.example"]),
    # upstream wildcards in the SNI's own domain: zero, one or two labels above the identities *.example.com / a.b.example.com / my_host._tcp.example.com
    "wildcard-b.example.com": dict(cn="*.b.example.com", sans=["dns:*.b.example.com", "dns:b.example.com"]),
    "wildcard-example.com": dict(cn="*.example.com", sans=["dns:*.example.com", "dns:example.com"]),
    "wildcard-com": dict(cn="example.com", sans=["dns:example.com", "dns:*.com"]),
    "cn64": dict(cn="a" * 60 + ".com", sans=["dns:upstream.example"]),
    "cn-label64": dict(cn="a" * 64),
    "cn-nonascii": dict(cn="Müller Maschinenbau", sans=["dns:upstream.example"]),
    "cn-empty-label": dict(cn=".upstream.example", sans=["dns:upstream.example"]),
    "san-other-kinds": dict(cn="upstream.example", sans=["dns:upstream.example", "email:admin@upstream.example", "uri:https://upstream.example/id"]),
    "no-cn": dict(sans=["dns:upstream.example"]),
}
THOROUGH_UPSTREAMS = {
    "cn-trailing-dot": dict(cn="Example Inc.", sans=["dns:upstream.example"]),
    "cn-idn-ulabel": dict(cn="münchen.example", sans=["dns:xn--mnchen-3ya.example"]),
    "cn-double-dot": dict(cn="upstream..example", sans=["dns:upstream.example"]),
    "crl-bad-url": dict(cn="upstream.example", sans=["dns:upstream.example"], crl="http://[crl.upstream.example/root.crl"),
    "org-long": dict(cn="upstream.example", o="O" * 64, sans=["dns:upstream.example"]),
}
ALL_UPSTREAMS = {**UPSTREAMS, **THOROUGH_UPSTREAMS}

ADDRESSES = {"none": None, "name": ("origin.example.net", 443), "ip": ("203.0.113.5", 443)}
THOROUGH_ADDRESSES = {"ipv6": ("2001:db8::5", 443), "idn-name": ("bücher.example", 443)}
ALL_ADDRS = {**ADDRESSES, **THOROUGH_ADDRESSES}

_P: dict = {}
_CTX: dict = {}


def _prepare_chain(confdir):
    root = tp.mint(cn="vmc C16 custom root", o="vmc", key_name="rootA", ca=True)
    inter = tp.mint(cn="vmc C16 custom signing CA", o="vmc", key_name="mitmca", issuer=root, issuer_key="rootA", ca=True)
    tp.write(confdir + "/mitmproxy-ca.pem", tp.key_pem("mitmca") + tp.cert_pem(inter) + tp.cert_pem(root))
    tp.write(confdir + "/custom-root.pem", tp.cert_pem(root))
    _P["chain_ca"] = inter


def setup():
    if "envs" in _P:
        return _P
    logging.disable(logging.CRITICAL)
    envs = {"default": tp.tls_env("c16"), "chain": tp.tls_env("c16-chain", prepare=_prepare_chain)}
    with open(envs["default"]["confdir"] + "/mitmproxy-ca-cert.pem", "rb") as f:
        default_ca = x509.load_pem_x509_certificate(f.read())
    ups = {}
    root = tp.mint(cn="vmc C16 upstream root", key_name="rootB", ca=True)
    for name, kw in ALL_UPSTREAMS.items():
        ups[name] = None if kw is None else mcerts.Cert(tp.mint(key_name="leaf", issuer=root, issuer_key="rootB", **kw))
    _P.update(envs=envs, ca={"default": default_ca, "chain": _P["chain_ca"]}, upstream=ups,
              trust={"default": envs["default"]["confdir"] + "/mitmproxy-ca-cert.pem", "chain": envs["chain"]["confdir"] + "/custom-root.pem"})
    return _P


def client_peer(ca, tls, hostname, verify=True):
    p = setup()
    k = (ca, tls, verify)
    if k not in _CTX:
        _CTX[k] = tp.std_client_context(p["trust"][ca] if verify else None, tls, strict=True)
    return tp.StdPeer(_CTX[k], False, hostname)


# ---------------------------------------------------------------------------
# name handling of the oracle


def _u(label: str) -> str:
    if label.lower().startswith("xn--"):
        try:
            return label[4:].encode("ascii").decode("punycode").casefold()
        except (UnicodeError, ValueError):
            return label.casefold()
    return label.casefold()


def dns_key(name: str):
    """case- and IDNA-form-insensitive key of a DNS-ish name"""
    return ("dns", ".".join(_u(x) for x in name.split(".")))


def host_key(host: str):
    try:
        return ("ip", ipaddress.ip_address(host).packed)
    except ValueError:
        return dns_key(host)


def gn_key(gn):
    if isinstance(gn, x509.DNSName):
        return dns_key(gn.value)
    if isinstance(gn, x509.IPAddress):
        return ("ip", gn.value.packed)
    return (type(gn).__name__, str(gn.value))


def cn_class(upstream) -> str:
    """trigger class of the upstream Common Name, decided by the oracle's own rule (RFC 1035 label lengths)"""
    if upstream is None:
        return "no-certificate"
    cn = upstream.cn
    if cn is None:
        return "none"
    try:
        ipaddress.ip_address(cn)
        return "ip"
    except ValueError:
        pass
    labels = cn.split(".")
    if any(not x for x in labels[:-1]) or any(len(x.encode("utf-8")) > 63 for x in labels):
        return "empty-or-overlong-label"
    if all(ch.isascii() and (ch.isalnum() or ch in "-_*.") for ch in cn):
        return "hostname"
    return "text"


def cert_names(cert: x509.Certificate):
    out = []
    for a in cert.subject.get_attributes_for_oid(NameOID.COMMON_NAME):
        out.append(("cn", a.value, host_key(a.value)))
    try:
        san = cert.extensions.get_extension_for_class(x509.SubjectAlternativeName).value
    except x509.ExtensionNotFound:
        san = []
    for gn in san:
        out.append(("san", str(gn.value), gn_key(gn)))
    return out


# ---------------------------------------------------------------------------


def run_case(c, t: Tally, verbose=False):
    p = setup()
    ident, ups, ucopt, addr, ca, tls = c["id"], c["upstream"], c["upstream_cert"], c["addr"], c["ca"], c["tls"]
    hostname, sni, id_kind = ALL_IDS[ident]
    env = p["envs"][ca]
    tp.activate(env, upstream_cert=ucopt)
    store = env["tc"].certstore
    store.certs.clear()
    store.expire_queue.clear()
    upstream = p["upstream"][ups]
    if sni is None:
        sockname = (hostname, 8080, 0, 0) if ":" in hostname else (hostname, 8080)
    else:
        sockname = ("192.0.2.2", 8080)
    rig = tp.Rig("client", env, address=ALL_ADDRS[addr], sockname=sockname, server_certs=[upstream] if upstream is not None else None)
    verifiable = id_kind != "wildcard-looking"
    if id_kind.endswith("-sni"):
        # stdlib ssl never sends an IP literal as SNI: the equally strict pyOpenSSL-based client does
        peer = tp.StrictSniClient(p["trust"][ca], hostname, tls)
    else:
        peer = client_peer(ca, tls, hostname, verify=verifiable)
    rig.start()
    for _ in range(12):
        back = peer.step()
        if back and rig.tls_conn.state is not tp.ConnectionState.CLOSED:
            rig.data(back)
        out = rig.take()
        peer.feed(out)
        if not back and not out:
            break
    hooks = rig.hook_names()
    established = "tls_established_client" in hooks and peer.done and peer.error is None
    moved = False
    if established and rig.crash is None:
        rig.data(peer.write(b"ping"))
        rig.other_data(b"pong")
        peer.feed(rig.take())
        peer.step()
        moved = bytes(rig.child_rx) == b"ping" and (bytes(peer.plain) == b"pong" or ALL_ADDRS[addr] is None)
    cert = rig.presented_cert
    f = {"identity": id_kind, "upstream": ups if ucopt else "ignored", "upstream_cn": cn_class(upstream) if ucopt else "ignored", "addr": addr, "ca": ca}
    obs = {"hooks": hooks, "client_sni_seen": rig.ctx.client.sni, "verifier_error": repr(peer.error) if peer.error else None, "crash": rig.crash, "addon_errors": rig.addon_errors,
           "conn_error": rig.tls_conn.error, "names": [(k, v) for k, v, _ in cert_names(cert)][:8] if cert is not None else None}
    if verbose:
        print("  observed:", obs)
        if cert is not None:
            print("  subject=%s issuer=%s not_before=%s not_after=%s" % (cert.subject.rfc4514_string(), cert.issuer.rfc4514_string(), cert.not_valid_before_utc, cert.not_valid_after_utc))
            print("  extensions:", [(e.oid._name, e.critical) for e in cert.extensions])
    reached = "tls_start_client" in hooks
    t.case(c if len(t.samples) < 2 and ups != "absent" else None, nontrivial=reached and cert is not None, key=c)
    t.outcome([id_kind, ups if ucopt else "-", addr, ca, established, sorted(set(k for _, _, k in cert_names(cert)), key=repr)[:6] if cert is not None else None])
    if not t.judge("presents_certificate", reached and cert is not None and rig.crash is None and not rig.addon_errors, f, c, "tls_start_client supplies a connection with a leaf certificate", obs):
        return
    if verifiable:
        t.judge("verifies_for_identity", established and moved, f, c, "strict verifier completes the handshake for %r and data flows" % hostname, obs)
    # issued by mitmproxy's CA
    ca_cert = p["ca"][ca]
    try:
        cert.verify_directly_issued_by(ca_cert)
        issued = None
    except Exception as e:  # cryptography raises ValueError / TypeError / InvalidSignature
        issued = repr(e)
    t.judge("issued_by_mitmproxy_ca", issued is None, f, c, "issuer name and signature of %s" % ca_cert.subject.rfc4514_string(), {"error": issued, "issuer": cert.issuer.rfc4514_string()})
    now = tp.utcnow()
    t.judge("valid_now", cert.not_valid_before_utc <= now <= cert.not_valid_after_utc, f, c, "not_before <= now <= not_after",
            {"not_before": str(cert.not_valid_before_utc), "not_after": str(cert.not_valid_after_utc), "now": str(now)})
    try:
        eku = cert.extensions.get_extension_for_class(x509.ExtendedKeyUsage).value
        eku_ok = ExtendedKeyUsageOID.SERVER_AUTH in eku or ExtendedKeyUsageOID.ANY_EXTENDED_KEY_USAGE in eku
    except x509.ExtensionNotFound:
        eku, eku_ok = None, True
    try:
        ku = cert.extensions.get_extension_for_class(x509.KeyUsage).value
        eku_ok = eku_ok and (ku.digital_signature or ku.key_encipherment)
    except x509.ExtensionNotFound:
        pass
    try:
        bc = cert.extensions.get_extension_for_class(x509.BasicConstraints).value
        eku_ok = eku_ok and not bc.ca
    except x509.ExtensionNotFound:
        pass
    t.judge("server_auth_eku", eku_ok, f, c, "end-entity certificate usable for TLS server authentication", {"eku": [o.dotted_string for o in eku] if eku else None})
    # names: only from SNI / local address, server address, upstream certificate
    allowed = {host_key(sni if sni is not None else hostname)}
    if ALL_ADDRS[addr]:
        allowed.add(host_key(ALL_ADDRS[addr][0]))
    if upstream is not None:
        for _, _, k in cert_names(upstream.to_cryptography()):
            allowed.add(k)
    extra = [(kind, v) for kind, v, k in cert_names(cert) if k not in allowed]
    t.judge("names_subset", not extra, f, c, "every CN/SAN taken from SNI-or-local-address, server address, upstream certificate", {"foreign_names": extra[:5]})
    # the identity itself must be named (SAN), otherwise `verifies` could only hold by accident
    ident_key = host_key(sni if sni is not None else hostname)
    covering = {ident_key}
    if ident_key[0] == "dns" and "." in ident_key[1]:
        covering.add(("dns", "*." + ident_key[1].split(".", 1)[1]))  # a whole-label wildcard exactly one level up names it too
    t.judge("names_the_identity", any(kind == "san" and k in covering for kind, _, k in cert_names(cert)), f, c, "a SAN names the requested identity (exactly, or by a wildcard one label up)", obs["names"])


def chunk_fn(chunk):
    t = Tally()
    for c in chunk:
        run_case(c, t)
    return t


def cases(tier):
    thorough = tier == "thorough"
    ids = list(IDENTITIES) + (list(THOROUGH_IDENTITIES) if thorough else [])
    ups = list(UPSTREAMS) + (list(THOROUGH_UPSTREAMS) if thorough else [])
    addrs = list(ADDRESSES) + (list(THOROUGH_ADDRESSES) if thorough else [])
    out = []
    for ca in ("default", "chain"):
        for ucopt in (True, False):
            for u in ups:
                if not ucopt and u not in ("absent", "cn+san", "org") and not thorough:
                    continue  # with upstream_cert off the shape must not matter: three shapes in quick, all in thorough
                for ident in ids:
                    for addr in addrs:
                        for tls in ("1.3", "1.2"):
                            out.append({"id": ident, "upstream": u, "upstream_cert": ucopt, "addr": addr, "ca": ca, "tls": tls})
    return out


def run(ctx):
    setup()
    cs = cases(ctx.tier)
    thorough = ctx.thorough
    ctx.bounds = {
        "identities": {k: (v[0] if len(v[0]) < 40 else "%s...(%d chars)" % (v[0][:12], len(v[0]))) for k, v in ALL_IDS.items() if thorough or k in IDENTITIES},
        "upstream_certificates": list(UPSTREAMS) + (list(THOROUGH_UPSTREAMS) if thorough else []),
        "upstream_cert_option": [True, False], "server_address": list(ADDRESSES) + (list(THOROUGH_ADDRESSES) if thorough else []),
        "ca": ["generated by mitmproxy", "custom chain file (signing CA below a root)"], "tls_versions": ["1.3", "1.2"], "cases": len(cs),
        "product": ctx.pick("full product; with upstream_cert off only 3 upstream shapes", "full product"),
    }
    ctx.log("%d handshakes" % len(cs))
    par.pmap_tally(chunk_fn, cs, ctx.tally, nchunks=128)
    ctx.tally.add("real_handshakes", len(cs))


def replay(case, t: Tally, verbose=False):
    setup()
    run_case(case, t, verbose=verbose)
