"""C22 - client connections from blocked address classes are refused.

Engine E on the real stack: every boundary address of every block of the IANA IPv4/IPv6
special-purpose registries (hand-copied table `vmc/refs/ianaref.py`), in plain, IPv4-mapped,
zone-scoped and mapped+scoped notation, crossed with block_global x block_private x proxy
mode, is judged on two layers:

  direct   the full product, `Block.client_connected` called on a real `connection.Client`
           (options registered by `Block.load` on a real Master) - what the repository's tests do
           for ~40 addresses;
  handler  the address is the peer name of a mock client socket of the real
           ProxyConnectionHandler (World driver) with the real Block addon in the addon chain:
           every spelling x option pair (modes dealt round-robin), representatives x every mode,
           and in the thorough tier the full product over the quick address set.
           A first client message is already readable when the connection is accepted; a refused
           client must get the writer closed with no hook other than client_connected /
           client_disconnected, no upstream connection, nothing read and no byte written.
"""
from __future__ import annotations

from mitmproxy.addons.block import Block
from mitmproxy.proxy import mode_specs

from vmc import par
from vmc.drivers.world import World
from vmc.refs import ianaref
from vmc.tally import HarnessError, Tally

META = {
    "level": "exploration",
    "technique": "bounded-exhaustive enumeration of (registry boundary address x notation x block_global x block_private x proxy mode), "
    "each case run through the real ProxyConnectionHandler + AddonManager + Block on a virtual event loop and judged against a hand-copied IANA table",
    "claim": "for every first/last/adjacent address of every IANA special-purpose block (and ordinary space) in every stated notation, option "
    "combination and proxy mode, the connection is refused exactly when the statement says so, and a refused connection sees no protocol processing; "
    "exploration (not model checking) because the property is a pure input/configuration classification with no state or schedule",
    "rule": "a case is (peer address text, block_global, block_private, mode, transport); distinct = distinct tuple; non-trivial = at least one of the "
    "two options is enabled (otherwise Block has nothing to decide) and the address class is judged (not skipped:stdlib-table / undecided / multicast)",
    "assumptions": [
        "uniformity clause: the class of an address is that of its most specific registry block, so all enumerated addresses of one block (including 6to4, "
        "Teredo, NAT64, ISATAP and IPv4-compatible addresses embedding loopback / private / global IPv4 addresses) must get one verdict per option pair and mode; "
        "this is judged for every block, also those whose absolute class is left to the interpreter's table; only ::ffff:a.b.c.d is a notation of an IPv4 address",
        "classes: private = RFC1918 + unique-local + link-local (the repository's own tests treat fe80:: as private); "
        "other registry blocks that are not globally reachable (CGNAT 100.64/10, documentation, benchmarking, reserved, ...) must not be refused by "
        "block_global alone, but whether block_private refuses them is not judged (the statement does not say whether they are 'private')",
        "blocks for which the registry says N/A (6to4, Teredo, deprecated ORCHID / 6to4 relay), IETF-reserved IPv6 space outside 2000::/3 and multicast sources are enumerated but not judged",
        "sub-allocations whose classification by CPython's ipaddress tables changed between patch releases (192.0.0.0/24 outside /29 and .170/31, "
        "exceptions inside 2001::/23, 64:ff9b:1::/48, 2002::/16, 3fff::/20, 5f00::/16, ...) are enumerated and reported as skipped:stdlib-table",
        "wireguard / local / tun connections get their original destination the way ServerInstance.handle_stream sets it (server.address = client sockname); "
        "no mitmproxy_rs tunnel is started",
        "zone identifiers are only attached to IPv6-form addresses (the OS never reports a zone on an IPv4 peer name)",
    ],
}

HTTP_ABS = b"GET http://example.com/ HTTP/1.1\r\nHost: example.com\r\n\r\n"
HTTP_ORG = b"GET / HTTP/1.1\r\nHost: example.com\r\n\r\n"
DNSQ = bytes.fromhex("000201000001000000000000076578616d706c6503636f6d0000010001")
DNSQ_TCP = len(DNSQ).to_bytes(2, "big") + DNSQ

# (mode spec, transport, first client message)
MODES_QUICK = [
    ("regular", "tcp", HTTP_ABS),
    ("transparent", "tcp", HTTP_ORG),
    ("upstream:http://192.0.2.8:8080", "tcp", HTTP_ABS),
    ("reverse:http://example.com:80/", "tcp", HTTP_ORG),
    ("reverse:tcp://192.0.2.9:9", "tcp", b"x"),
    ("reverse:dns://192.0.2.53", "udp", DNSQ),
    ("socks5", "tcp", b"\x05\x01\x00"),
    ("dns", "udp", DNSQ),
    ("dns", "tcp", DNSQ_TCP),
    ("wireguard", "tcp", HTTP_ORG),
    ("local", "tcp", HTTP_ORG),
    ("local", "udp", DNSQ),
    ("tun", "tcp", HTTP_ORG),
]
MODES_THOROUGH = MODES_QUICK + [
    ("reverse:udp://192.0.2.53:99", "udp", b"x"),
    ("wireguard", "udp", DNSQ),
    ("tun", "udp", DNSQ),
    ("local:curl", "tcp", HTTP_ORG),
    ("regular@8081", "tcp", HTTP_ABS),
]
OPTS = [(True, False), (False, True), (True, True), (False, False)]
ZONES_QUICK = ["eth0"]
ZONES_THOROUGH = ["eth0", "1", "en0.100"]


def spellings(family, n, thorough):
    """[(notation, text)] for one address"""
    zones = ZONES_THOROUGH if thorough else ZONES_QUICK
    out = []
    if family == 4:
        out.append(("plain", ianaref.fmt4(n)))
        forms = [ianaref.mapped_dotted(n), ianaref.mapped_hex(n)]
        if thorough:
            forms += ["0000:0000:0000:0000:0000:ffff:%04x:%04x" % (n >> 16, n & 0xFFFF), "::FFFF:" + ianaref.fmt4(n)]
        for f in forms:
            out.append(("mapped", f))
        for z in zones:
            out.append(("mapped+scoped", forms[0] + "%" + z))
        if thorough:
            out.append(("mapped+scoped", forms[1] + "%" + zones[0]))
    else:
        forms = [ianaref.fmt6(n)]
        if thorough:
            forms += [ianaref.fmt6_full(n), ianaref.fmt6(n).upper()]
        for f in forms:
            out.append(("plain", f))
        for z in zones:
            out.append(("scoped", forms[0] + "%" + z))
    # de-duplicate (upper-casing "::" changes nothing)
    seen, res = set(), []
    for k, s in out:
        if s not in seen:
            seen.add(s)
            res.append((k, s))
    return res


def parse_peer(text):
    """reference-side reading of a peer address text: (family of the *denoted* address, integer, notation family)"""
    host = text.split("%", 1)[0]
    if ":" in host:
        n = ianaref.parse6(host)
        if (n >> 32) == 0xFFFF:  # ::ffff:0:0/96 - denotes the embedded IPv4 address
            return 4, n & 0xFFFFFFFF
        return 6, n
    return 4, ianaref.parse4(host)


def all_addresses(thorough):
    a4 = set(ianaref.boundary_addresses(4, extra_inner=thorough)) | {ianaref.parse4(x) for x in ianaref.ORDINARY4}
    a6 = set(ianaref.boundary_addresses(6, extra_inner=thorough)) | {ianaref.parse6(x) for x in ianaref.ORDINARY6}
    a6 |= {n for _, n in ianaref.embedding_addresses()}  # 6to4 / Teredo / NAT64 / ISATAP / IPv4-compatible forms of loopback, private, global IPv4
    # IPv6 texts inside ::ffff:0:0/96 are the mapped notation of IPv4 addresses: generated from the IPv4 side
    a6 = {n for n in a6 if (n >> 32) != 0xFFFF}
    return sorted(a4), sorted(a6)


def all_spellings(thorough):
    a4, a6 = all_addresses(thorough)
    out = []
    for family, addrs in ((4, a4), (6, a6)):
        for n in addrs:
            out += [text for _, text in spellings(family, n, thorough)]
    return out


# one representative per class / family / notation: crossed with every mode and option pair on the full handler
REPRESENTATIVES = ["127.0.0.1", "::1", "::ffff:127.0.0.1%eth0", "10.0.0.1", "::ffff:192.168.1.1%eth0", "169.254.0.1", "fe80::1%eth0", "fd00::1",
                   "8.8.8.8", "::ffff:8.8.8.8", "2001:4860:4860::8888%eth0", "100.64.0.1", "192.0.2.1", "2001:db8::1"]


def gen_direct_items(thorough):
    """full product, Block.client_connected called directly: one work item per spelling (options and modes inside)"""
    return [{"via": "direct", "addr": s} for s in all_spellings(thorough)]


def gen_world_cases(thorough):
    """cases run on the full ProxyConnectionHandler.
    quick: every spelling x option pair in one mode (modes dealt round-robin, so every mode sees every class),
           plus representatives x every mode x every option pair;
    thorough: additionally the full product spelling x options x mode over the quick address set."""
    modes = MODES_THOROUGH if thorough else MODES_QUICK
    cases = []
    seen = set()

    def add(text, bg, bp, mode, transport):
        k = (text, bg, bp, mode, transport)
        if k not in seen:
            seen.add(k)
            cases.append({"via": "world", "addr": text, "bg": bg, "bp": bp, "mode": mode, "transport": transport})

    for text in REPRESENTATIVES:
        for bg, bp in OPTS:
            for mode, transport, _ in modes:
                add(text, bg, bp, mode, transport)
    i = 0
    for text in all_spellings(thorough):
        for bg, bp in OPTS:
            mode, transport, _ = modes[i % len(modes)]
            i += 1
            add(text, bg, bp, mode, transport)
    if thorough:
        for text in all_spellings(False):
            for bg, bp in OPTS:
                for mode, transport, _ in modes:
                    if not (bg or bp) and mode not in ("regular", "local", "dns"):
                        continue  # both options off: Block has nothing to decide; three modes suffice
                    add(text, bg, bp, mode, transport)
    return cases


def first_message(mode, transport):
    for m, tr, data in MODES_THOROUGH:
        if m == mode and tr == transport:
            return data
    return HTTP_ABS


def observe(case):
    """run one connection on the real handler; returns the observation dict"""
    mode = mode_specs.ProxyMode.parse(case["mode"])
    # World resets the cached master's options before it re-points mitmproxy.ctx at that master; the direct layer
    # (same process in the quick tier) leaves ctx at its own master, so point it back first
    import mitmproxy.ctx as mctx
    from vmc.drivers import world as _world

    cached = _world._MASTERS.get("c22")
    if cached is not None:
        mctx.master = cached[0]
        mctx.options = cached[0].options
    w = World(mode=mode, addons=[Block()], master_key="c22", client_peer=(case["addr"], 51000),
              opts={"block_global": case["bg"], "block_private": case["bp"]}, transport=case["transport"], auto_connect=True)
    try:
        if isinstance(mode, (mode_specs.WireGuardMode, mode_specs.LocalMode, mode_specs.TunMode)):
            # what ServerInstance.handle_stream does for these modes
            c = w.handler.layer.context
            c.server.address = w.client.w.get_extra_info("remote_endpoint", c.client.sockname)
        w.client.send(first_message(case["mode"], case["transport"]))  # readable before the handler starts
        crashed = None
        try:
            w.start()
        except KeyboardInterrupt:
            raise
        except BaseException as e:  # the handler task itself never raises into us; a livelock would
            crashed = repr(e)
        names = [h[0] for h in w.hooks]
        err_at_hook = None
        for name, obj in w.hook_objs:
            if name == "client_connected":
                err_at_hook = obj.error
        obs = {
            "killed": any(m.endswith("client kill connection") for _, m in w.logs),
            "client_error": err_at_hook,
            "closed": w.client.w.closed,
            "done": w.done,
            "hooks": names,
            "upstream": len(w.servers),
            "to_client": len(w.client.w.data),
            "unread": len(w.client.r.buf),
            # errors of the decision itself: an exception escaping an addon hook, or a crash of the handler
            # (protocol-level errors of an *accepted* connection's later life are not this property's subject)
            "errors": [e[:160] for e in w.errors if "Addon error" in e or "has crashed" in e][:2],
            "crashed": crashed,
        }
        return obs
    finally:
        w.dispose()


_DIRECT = None


def _direct_env():
    """one real Master with the real Block addon (its options registered through Block.load) per worker process"""
    global _DIRECT
    import mitmproxy.ctx as mctx
    from mitmproxy import master as mmaster
    from mitmproxy import options as moptions
    from vmc.vloop import VLoop

    if _DIRECT is None:
        m = mmaster.Master(moptions.Options(), event_loop=VLoop())
        m._legacy_log_events.uninstall()
        b = Block()
        m.addons.add(b)
        _DIRECT = (m, b)
    m, b = _DIRECT
    mctx.master = m  # World re-points these at its own master; point them back
    mctx.options = m.options
    return m, b


def observe_direct(case):
    """Block.client_connected on a real Client object, the way the repository's own tests call it"""
    from mitmproxy import connection

    m, b = _direct_env()
    if (m.options.block_global, m.options.block_private) != (case["bg"], case["bp"]):
        m.options.update(block_global=case["bg"], block_private=case["bp"])
    mode = mode_specs.ProxyMode.parse(case["mode"])
    client = connection.Client(peername=(case["addr"], 51000), sockname=("192.0.2.1", 8080), proxy_mode=mode,
                               transport_protocol=case["transport"], timestamp_start=0)
    errors = []
    try:
        b.client_connected(client)
    except KeyboardInterrupt:
        raise
    except BaseException as e:
        errors.append("client_connected raised " + repr(e)[:140])
    return {"killed": bool(client.error), "client_error": client.error, "errors": errors, "crashed": None, "hooks": ["client_connected"]}


def expected_refused(cls, bg, bp, local):
    """the statement as a function: True / False, or None where it does not decide"""
    if cls == "loopback" or local or not (bg or bp):
        return False
    if cls == "global":
        return bg
    if cls == "private":
        return bp
    if cls == "nonglobal":
        return None if bp else False
    return None


def run_case(case, t: Tally, verbose=False):
    family, n = parse_peer(case["addr"])
    cls, blk = ianaref.classify(family, n)
    mode = mode_specs.ProxyMode.parse(case["mode"])
    local = isinstance(mode, mode_specs.LocalMode)
    bg, bp = case["bg"], case["bp"]
    direct = case.get("via") == "direct"
    notation = "plain"
    if "%" in case["addr"]:
        notation = "mapped+scoped" if (family == 4) else "scoped"
    elif family == 4 and ":" in case["addr"]:
        notation = "mapped"
    feats = {"cls": cls, "family": "v%d" % family, "notation": notation, "opts": ("g" if bg else "") + ("p" if bp else "") or "-",
             "mode": mode.type_name, "block": blk.prefix, "via": "direct" if direct else "world"}
    obs = observe_direct(case) if direct else observe(case)
    refused = obs["killed"]
    if verbose:
        print("  class", cls, "block", blk, "stdlib_varies", blk.stdlib_varies, "\n  observed", obs)

    judged = True
    if blk.stdlib_varies:
        # enumerated, not judged; the note records whether this interpreter's table happens to agree with the registry
        want = expected_refused(cls, bg, bp, local)
        agrees = "n/a" if want is None else ("agrees" if want == refused else "differs")
        t.note("skipped:stdlib-table %s (%s) interpreter-vs-registry:%s" % (blk.prefix, blk.name, agrees))
        judged = False
    elif cls in ("undecided", "multicast"):
        t.note("not-judged:%s %s (%s)" % (cls, blk.prefix, blk.name))
        judged = False
    t.case(case if (judged and notation != "plain" and (bg or bp)) else None, nontrivial=judged and (bg or bp), key=case)
    t.outcome([cls, feats["opts"], local, refused, obs["hooks"][:3], bool(obs["errors"])])
    clean = not obs["errors"] and not obs["crashed"]

    if judged:
        if cls == "loopback" or local:
            t.judge("exempt_loopback_and_local_mode_not_refused", (not refused) and clean and not obs["client_error"], feats, case, "not refused", obs)
        elif not (bg or bp):
            t.judge("others_not_refused", (not refused) and clean and not obs["client_error"], feats, case, "not refused (both options off)", obs)
        elif cls == "global":
            t.judge("global_refused_iff_block_global", refused == bg and clean and bool(obs["client_error"]) == bg, feats, case,
                    "refused" if bg else "not refused", obs)
        elif cls == "private":
            t.judge("private_refused_iff_block_private", refused == bp and clean and bool(obs["client_error"]) == bp, feats, case,
                    "refused" if bp else "not refused", obs)
        elif cls == "nonglobal":
            if not bp:
                t.judge("others_not_refused", (not refused) and clean and not obs["client_error"], feats, case,
                        "not refused (not globally reachable, block_private off)", obs)
            else:
                t.add("nonglobal_with_block_private_%s" % ("refused" if refused else "accepted"))
                t.judge("no_addon_error", clean, feats, case, "no error logged", obs)
        else:
            raise HarnessError("unknown class %r" % cls)
    if direct:
        return
    # independent of the classification: whoever is refused is refused before any protocol processing
    if refused:
        ok = (obs["closed"] and obs["done"] and obs["hooks"] == ["client_connected", "client_disconnected"] and obs["upstream"] == 0
              and obs["to_client"] == 0 and obs["unread"] == 1 and clean and bool(obs["client_error"]))
        t.judge("refused_before_any_protocol_processing", ok, feats, case,
                "writer closed, hooks == [client_connected, client_disconnected], nothing read or written", obs)
    else:
        # not refused: the same first message is processed (non-vacuity of the clause above)
        active = len(obs["hooks"]) > 1 or obs["to_client"] > 0 or obs["upstream"] > 0
        t.add("accepted_with_protocol_activity" if active else "accepted_without_visible_activity")
        if obs["client_error"]:
            # error set at the hook but the kill path not taken
            t.bad("refused_before_any_protocol_processing", feats, case, "client.error set => connection killed", obs)


def gen_uniform_cases(thorough):
    """the class of an address is that of its registry block: all enumerated addresses whose most specific block is the
    same must get the same verdict.  This is independent of how an interpreter's table classifies the block, so it also
    covers the blocks that are otherwise reported as skipped:stdlib-table / undecided (6to4, Teredo, ...), where the
    embedded IPv4 address must not influence the decision."""
    a4, a6 = all_addresses(thorough)
    groups: dict = {}
    for family, addrs in ((4, a4), (6, a6)):
        for n in addrs:
            _, blk = ianaref.classify(family, n)
            groups.setdefault((family, blk.prefix), []).append(ianaref.fmt4(n) if family == 4 else ianaref.fmt6(n))
    cases = []
    for (family, prefix), texts in sorted(groups.items()):
        if len(texts) < 2:
            continue
        for bg, bp in OPTS[:3]:
            for mode in ("regular", "local"):
                cases.append({"via": "uniform", "family": family, "block": prefix, "addrs": texts, "bg": bg, "bp": bp, "mode": mode, "transport": "tcp"})
    return cases


def run_uniform(case, t: Tally, verbose=False):
    verdicts = {}
    for text in case["addrs"]:
        obs = observe_direct({"addr": text, "bg": case["bg"], "bp": case["bp"], "mode": case["mode"], "transport": case["transport"]})
        v = "error" if obs["errors"] else ("refused" if obs["killed"] else "accepted")
        verdicts.setdefault(v, []).append(text)
    family, n = parse_peer(case["addrs"][0])
    cls, blk = ianaref.classify(family, n)
    if blk.prefix != case["block"]:
        raise HarnessError("address %r is not in block %r" % (case["addrs"][0], case["block"]))
    feats = {"cls": cls, "family": "v%d" % case["family"], "opts": ("g" if case["bg"] else "") + ("p" if case["bp"] else "") or "-",
             "mode": case["mode"], "block": case["block"], "via": "uniform"}
    obs = {k: v[:4] + (["... %d more" % (len(v) - 4)] if len(v) > 4 else []) for k, v in verdicts.items()}
    if verbose:
        print("  block %s (%s): %r" % (case["block"], blk.name, obs))
    t.judge("same_registry_block_same_verdict", len(verdicts) == 1, feats, case, "one verdict for all %d addresses of %s (%s)" % (len(case["addrs"]), case["block"], blk.name), obs)
    t.outcome(["uniform", case["block"], feats["opts"], case["mode"], sorted(verdicts)])
    t.case(case if case["block"] == "2002::/16" else None, nontrivial=True, key=case)


def chunk_fn(chunk):
    t = Tally()
    for case in chunk:
        if case.get("via") == "uniform":
            run_uniform(case, t)
        else:
            run_case(case, t)
    return t


_DIRECT_MODES = MODES_QUICK


def direct_chunk(chunk):
    """one item = one spelling; inside: option pairs (outer, so options change 4 times) x every mode"""
    t = Tally()
    for item in chunk:
        for bg, bp in OPTS:
            for mode, transport, _ in _DIRECT_MODES:
                run_case({"via": "direct", "addr": item["addr"], "bg": bg, "bp": bp, "mode": mode, "transport": transport}, t)
    return t


def self_test(modes):
    """harness sanity: in every mode an exempt (loopback) client's first message is visibly processed,
    so 'no hook / no byte' for a refused client is a real observation"""
    for mode, transport, _ in modes:
        obs = observe({"addr": "127.0.0.1", "bg": True, "bp": True, "mode": mode, "transport": transport})
        active = len(obs["hooks"]) > 1 or obs["to_client"] > 0 or obs["upstream"] > 0
        if obs["killed"] or not active or obs["crashed"]:
            raise HarnessError("probe message is not processed in mode %s/%s: %r" % (mode, transport, obs))


def run(ctx):
    thorough = ctx.thorough
    modes = MODES_THOROUGH if thorough else MODES_QUICK
    global _DIRECT_MODES
    _DIRECT_MODES = modes
    self_test(modes)
    items = gen_direct_items(thorough)
    cases = gen_world_cases(thorough)
    a4, a6 = all_addresses(thorough)
    ctx.bounds = {
        "registry_blocks_v4": len(ianaref.BLOCKS4), "registry_blocks_v6": len(ianaref.BLOCKS6),
        "addresses_v4": len(a4), "addresses_v6": len(a6),
        "per_block": "first, last, first-1, last+1" + (", first+1, last-1, middle, first-2, last+2" if thorough else ""),
        "notations": "plain, ::ffff:a.b.c.d, ::ffff:hhhh:hhhh, scoped %zone, mapped+scoped" + (", full 8-group form, upper case" if thorough else ""),
        "zones": ZONES_THOROUGH if thorough else ZONES_QUICK,
        "options": "block_global x block_private (all 4)",
        "modes": ["%s/%s" % (m, tr) for m, tr, _ in modes],
        "spellings": len(items),
        "direct_cases": "full product: %d spellings x 4 option pairs x %d modes = %d calls of Block.client_connected" % (
            len(items), len(modes), len(items) * 4 * len(modes)),
        "handler_cases": "%d connections through the real ProxyConnectionHandler: representatives x options x modes, every spelling x options "
                         "with modes dealt round-robin%s" % (len(cases), ", full product over the quick address set" if thorough else ""),
    }
    ctx.log("%d spellings (%d v4 + %d v6 addresses), %d modes: %d direct cases, %d handler cases" % (
        len(items), len(a4), len(a6), len(modes), len(items) * 4 * len(modes), len(cases)))
    # one chunk per worker: the work per case is small, so pool overhead is kept minimal
    # (the quick tier is ~7 s of CPU in total: it runs in-process, forking a pool costs more than it saves)
    nproc = par.NPROC if thorough else 1
    if nproc > 1:
        import gc

        gc.collect()
        gc.freeze()  # forked workers must not copy the parent's heap when their collector runs
    par.pmap_tally(direct_chunk, items, ctx.tally, nchunks=par.NPROC, nproc=nproc)
    ctx.log("direct layer done")
    ucases = gen_uniform_cases(thorough)
    ctx.bounds["uniformity_cases"] = "%d (registry block x option pair x {regular, local}): all enumerated addresses of a block, including 6to4 / Teredo / " \
                                     "NAT64 / ISATAP / IPv4-compatible forms embedding loopback, private and global IPv4 addresses, get one verdict" % len(ucases)
    par.pmap_tally(chunk_fn, cases + ucases, ctx.tally, nchunks=par.NPROC * 2, nproc=nproc)
    t = ctx.tally
    ctx.log("extra counters: %s" % dict(sorted(t.extra.items())))
    ctx.log("not judged: %d cases in %d blocks" % (sum(t.notes.values()), len(t.notes)))
    if not t.extra.get("accepted_with_protocol_activity"):
        raise HarnessError("no accepted connection showed protocol activity")


def replay(case, t: Tally, verbose=False):
    if isinstance(case, dict) and case.get("via") == "uniform":
        run_uniform(case, t, verbose=verbose)
    else:
        run_case(case, t, verbose=verbose)
