"""C47 - flow edits through mitmweb are atomic.

Explicit-state exploration of PUT /flows/<id> histories on the real tornado Application of a
real WebMaster (in-process, `vmc/drivers/webdrv.py`, valid credentials and XSRF token):

  level 1  every edit document (ordered field list of valid and invalid fields, plus envelope
           faults) against a fresh flow of each kind;
  level 2  from every *distinct flow state* reached at level 1 by the prefix documents, every
           edit document again (histories valid->invalid, invalid->valid, ...).

After every PUT the flow's complete state (minus the backup slot) is compared with the state
before that PUT and with what the document asked for.
"""
from __future__ import annotations

import atexit
import itertools
import json
import os
import shutil

from vmc import par
from vmc.tally import HarnessError, Tally, digest

META = {
    "level": "model_checking",
    "technique": "explicit-state breadth-first exploration (depth 2, de-duplicated by flow-state fingerprint) of PUT /flows/<id> edit histories on the "
    "real FlowHandler.put through the real tornado Application, every transition judged against a before/after state comparison",
    "claim": "for every enumerated edit document and every state reachable by one earlier edit, a document containing an invalid part leaves the flow's "
    "state exactly as it was before that request, and an accepted document (2xx) has every field applied; model checking because the outcome of an "
    "edit depends on the history (the backup slot left by earlier edits)",
    "rule": "a case is (flow kind, history of <= 2 edit documents); a state is (flow kind, flow state without backup, backup slot); distinct = distinct "
    "history; non-trivial = the last document reaches FlowHandler.put's field loop (well-formed JSON object body) and contains at least one field",
    "assumptions": [
        "documents are JSON objects with unique keys, so fields of one section are contiguous; field order inside a section and section order are enumerated",
        "values mitmproxy accepts (e.g. host 'bad host', port 70000) count as valid edits: atomicity, not validation, is the property",
        "invalid parts: unknown top-level/request/response key, port 'x', code 'abc', malformed header lists, non-string content, non-latin-1 reason, "
        "non-object section, response fields on a flow without response, request/response fields on a TCP flow, malformed JSON / wrong content type / non-object body",
        "extended invalid values (per field one value for every way the conversion/assignment can fail: None, '', {}, 1e999, Infinity, NaN, deep nesting, "
        "wrong container shapes, null header name/value, lone surrogate, non-object sections) are used alone and paired with a valid field before and after them "
        "(one valid field per section in quick, every valid field in thorough); a KeyError/LookupError could not be provoked through any field",
        "depth 2: the only history-dependent element of Flow is the single backup slot, which is set by the first PUT and cleared by a revert",
    ],
}

SCRATCH = "/dev/shm/vmc-%d-c47" % os.getpid()
XSRF = "abcdef0123456789abcdef0123456789"
FLOW_KINDS = ["http-resp", "http-noresp", "tcp"]

# (section, key, value)
VALID = [
    ("request", "method", "PATCH"),
    ("request", "path", "/edited"),
    ("request", "host", "edited.example"),
    ("request", "port", 8443),
    ("request", "headers", [["X-E", "1"], ["x-e", "2"]]),
    ("request", "content", "edited-body"),
    ("response", "code", 404),
    ("response", "reason", "Nope"),
    ("response", "headers", [["X-R", "1"]]),
    ("response", "content", "edited-resp"),
    ("top", "marked", ":red_circle:"),
    ("top", "comment", "edited"),
]
# (section, key, value, invalid_kind)
INVALID = [
    ("top", "foo", 1, "unknown-field"),
    ("request", "foo", 1, "unknown-field"),
    ("response", "foo", 1, "unknown-field"),
    ("request", "port", "x", "malformed-port-or-code"),
    ("response", "code", "abc", "malformed-port-or-code"),
    ("request", "headers", [["a"]], "malformed-header-list"),
    ("request", "headers", "x", "malformed-header-list"),
    ("response", "headers", [["a", "b", "c"]], "malformed-header-list"),
    ("request", "content", 5, "malformed-other"),
    ("response", "reason", "€", "malformed-other"),
]
ENVELOPES = ["non-object-body", "non-object-section", "malformed-json", "wrong-content-type", "empty-body"]


def RAW(text):
    """a value written into the JSON body verbatim (literals json.dumps cannot produce: 1e999, Infinity, NaN, deep nesting)"""
    return {"$raw": text}


DEEP = "[" * 40 + "1" + "]" * 40  # deep, but far from any recursion limit of the JSON decoder or of repr()

# Extended invalid-value alphabet: per editable field, one value for every *kind of failure* the conversion/assignment can
# run into (wrong type, unparsable text, float that has no integer value, wrong container shape, unencodable text,
# non-object section).  Key "$section" = the whole request/response section is this value.
# (section, key, value, invalid_kind, what it provokes in today's implementation - informational)
INVALID_EXT = [
    ("request", "port", None, "malformed-port-or-code", "TypeError"),
    ("request", "port", RAW("1e999"), "malformed-port-or-code", "OverflowError"),
    ("request", "port", RAW("Infinity"), "malformed-port-or-code", "OverflowError"),
    ("request", "port", RAW("-Infinity"), "malformed-port-or-code", "OverflowError"),
    ("request", "port", RAW("NaN"), "malformed-port-or-code", "ValueError"),
    ("request", "port", RAW(DEEP), "malformed-port-or-code", "TypeError"),
    ("request", "port", {}, "malformed-port-or-code", "TypeError"),
    ("request", "port", "", "malformed-port-or-code", "ValueError"),
    ("response", "code", None, "malformed-port-or-code", "TypeError"),
    ("response", "code", RAW("1e999"), "malformed-port-or-code", "OverflowError"),
    ("response", "code", RAW("Infinity"), "malformed-port-or-code", "OverflowError"),
    ("response", "code", RAW("NaN"), "malformed-port-or-code", "ValueError"),
    ("response", "code", RAW(DEEP), "malformed-port-or-code", "TypeError"),
    ("request", "headers", 5, "malformed-header-list", "TypeError"),
    ("request", "headers", [[1, 2]], "malformed-header-list", "TypeError"),
    ("request", "headers", [None], "malformed-header-list", "TypeError"),
    ("request", "headers", {"a": "b"}, "malformed-header-list", "TypeError"),
    ("request", "headers", RAW(DEEP), "malformed-header-list", "TypeError"),
    ("response", "headers", "x", "malformed-header-list", "TypeError"),
    ("response", "headers", [["a", None]], "malformed-header-list", "null-stored-then-serialisation-fails"),
    ("request", "headers", [[None, "a"]], "malformed-header-list", "null-stored-then-serialisation-fails"),
    ("request", "trailers", "x", "malformed-header-list", "TypeError"),
    ("response", "trailers", [["a"]], "malformed-header-list", "TypeError"),
    ("request", "content", "\ud800", "malformed-other", "UnicodeEncodeError"),
    ("request", "content", [], "malformed-other", "TypeError"),
    ("response", "content", 5, "malformed-other", "TypeError"),
    ("response", "content", RAW(DEEP), "malformed-other", "TypeError"),
    ("request", "$section", 5, "non-object-section", "AttributeError"),
    ("request", "$section", None, "non-object-section", "AttributeError"),
    ("request", "$section", [], "non-object-section", "AttributeError"),
    ("request", "$section", "x", "non-object-section", "AttributeError"),
    ("response", "$section", RAW("1e999"), "non-object-section", "AttributeError"),
    ("response", "$section", RAW(DEEP), "non-object-section", "AttributeError"),
]
_INVALID_KIND = {(s, k, json.dumps(v)): kind for s, k, v, kind in INVALID}
_INVALID_KIND.update({(s, k, json.dumps(v)): kind for s, k, v, kind, _ in INVALID_EXT})
_PROVOKES = {(s, k, json.dumps(v)): exc for s, k, v, kind, exc in INVALID_EXT}
# valid partners an extended invalid value is combined with (before it and after it): one per section
EXT_PARTNERS = [["request", "method", "PATCH"], ["response", "reason", "Nope"], ["top", "comment", "edited"]]


def jval(v):
    return v["$raw"] if isinstance(v, dict) and set(v) == {"$raw"} else json.dumps(v)


def ext_documents(full_pairs=False):
    """every extended invalid value alone, and paired (both orders) with a valid field of every section;
    full_pairs: paired with every valid field"""
    out = []
    partners = [list(f) for f in VALID] if full_pairs else EXT_PARTNERS
    for s, k, v, _, _ in INVALID_EXT:
        bad = [s, k, v]
        out.append({"fields": [bad]})
        for p in partners:
            if p[0] == s and (k == "$section" or p[1] == k):
                continue  # same JSON key / section given twice
            out.append({"fields": [list(p), bad]})
            out.append({"fields": [bad, list(p)]})
    return out


def _cleanup():
    shutil.rmtree(SCRATCH, ignore_errors=True)


# ---------------------------------------------------------------------------
# documents


def field_lists(maxlen, third_pool=None):
    """ordered lists of distinct-key fields, sections contiguous; simplest first"""
    fields = [list(f) for f in VALID] + [list(f[:3]) for f in INVALID]
    out = []
    for n in range(1, maxlen + 1):
        pools = [fields] * n
        if n == 3 and third_pool is not None:
            pools = [fields, fields, third_pool]
        for combo in itertools.product(*pools):
            keys = [(f[0], f[1]) for f in combo]
            if len(set(keys)) != n:
                continue
            secs = [f[0] if f[0] != "top" else "top:" + f[1] for f in combo]
            runs = [k for k, _ in itertools.groupby(secs)]
            if len(runs) != len(set(runs)):
                continue  # a section would have to appear twice in the JSON object
            out.append({"fields": [list(f) for f in combo]})
    return out


def documents(maxlen, third_pool=None):
    return field_lists(maxlen, third_pool) + [{"envelope": e} for e in ENVELOPES]


def render(doc):
    """(content type, body bytes) of one edit document"""
    if "envelope" in doc:
        e = doc["envelope"]
        if e == "non-object-body":
            return "application/json", b"[1, 2]"
        if e == "non-object-section":
            return "application/json", b'{"request": 5}'
        if e == "malformed-json":
            return "application/json", b'{"request": {"method": "PATCH"'
        if e == "wrong-content-type":
            return "text/plain", b'{"request": {"method": "PATCH"}}'
        if e == "empty-body":
            return "application/json", b""
        raise HarnessError("unknown envelope %r" % e)
    parts = []
    for sec, group in itertools.groupby(doc["fields"], key=lambda f: f[0] if f[0] != "top" else "top:" + f[1]):
        group = list(group)
        if group[0][0] == "top":
            parts.append("%s: %s" % (json.dumps(group[0][1]), jval(group[0][2])))
        elif group[0][1] == "$section":
            if len(group) != 1:
                raise HarnessError("a whole-section value cannot be combined with fields of that section: %r" % (group,))
            parts.append("%s: %s" % (json.dumps(group[0][0]), jval(group[0][2])))
        else:
            inner = ", ".join("%s: %s" % (json.dumps(k), jval(v)) for _, k, v in group)
            parts.append("%s: {%s}" % (json.dumps(group[0][0]), inner))
    return "application/json", ("{" + ", ".join(parts) + "}").encode()


def invalid_part(doc, flow_kind):
    """(kind of the first invalid part or None, 'first'/'later' position)"""
    if "envelope" in doc:
        return "envelope-" + doc["envelope"], "first"
    for i, (sec, key, val) in enumerate(doc["fields"]):
        pos = "first" if i == 0 else "later"
        kind = _INVALID_KIND.get((sec, key, json.dumps(val)))
        if kind:
            return kind, pos
        if flow_kind == "tcp" and sec in ("request", "response"):
            return "section-absent-tcp", pos
        if flow_kind == "http-noresp" and sec == "response":
            return "response-absent", pos
    return None, None


# ---------------------------------------------------------------------------
# system under test

_WD = None
_COUNTER = [0]


def driver():
    global _WD
    if _WD is None:
        from vmc.drivers.webdrv import WebDriver

        os.makedirs(SCRATCH, exist_ok=True)
        _WD = WebDriver(SCRATCH)
    return _WD


def drop_driver():
    global _WD
    if _WD is not None:
        _WD.dispose()
        _WD = None


def new_flow(kind):
    from mitmproxy.test import tflow

    if kind == "http-resp":
        f = tflow.tflow(resp=True)
    elif kind == "http-noresp":
        f = tflow.tflow()
    elif kind == "tcp":
        f = tflow.ttcpflow()
    else:
        raise HarnessError("unknown flow kind %r" % kind)
    _COUNTER[0] += 1
    f.id = "f10a%012x" % _COUNTER[0]
    # tflow draws random connection ids; fix them so that equal flow states have equal fingerprints
    f.client_conn.id = "c0000000-0000-4000-8000-000000000001"
    f.server_conn.id = "50000000-0000-4000-8000-000000000002"
    return f


def state_of(flow):
    st = flow.get_state()
    st.pop("backup", None)
    st.pop("id", None)
    st.pop("timestamp_created", None)  # wall-clock time of the flow object's construction: not editable, differs per fresh flow
    return st


def canon(x):
    """JSON-able canonical form of a flow state (bytes, tuples)"""
    if isinstance(x, dict):
        return {str(k): canon(v) for k, v in sorted(x.items(), key=lambda kv: str(kv[0]))}
    if isinstance(x, (list, tuple)):
        return [canon(v) for v in x]
    if isinstance(x, bytes):
        return {"$b": x.hex()}
    if isinstance(x, (str, int, float, bool)) or x is None:
        return x
    return repr(x)


def backup_slot(flow):
    """(canonical content of the backup slot or None, flow.modified()): what the revert button would restore and whether it is offered"""
    b = flow._backup
    if b is not None:
        b = dict(b)
        b.pop("id", None)
        b.pop("backup", None)
        b.pop("timestamp_created", None)
        b = json.dumps(canon(b), sort_keys=True)
    try:
        m = bool(flow.modified())
    except Exception as e:  # judged by the caller as a difference
        m = "modified() raised " + type(e).__name__
    return b, m


def fingerprint(kind, flow, state):
    b = flow._backup
    if b is not None:
        b = dict(b)
        b.pop("id", None)
        b.pop("backup", None)
        b.pop("timestamp_created", None)
    return digest(json.dumps([kind, canon(state), canon(b)], sort_keys=True))


def applied(flow, doc):
    """list of fields of an accepted document that are not visible on the flow"""
    missing = []
    for sec, key, val in doc["fields"]:
        try:
            if sec == "top":
                ok = getattr(flow, key) == val
            else:
                msg = getattr(flow, sec)
                if key == "code":
                    ok = msg.status_code == val
                elif key == "headers":
                    have = [(k.decode("utf-8", "surrogateescape"), v.decode("utf-8", "surrogateescape")) for k, v in msg.headers.fields]
                    it = iter(have)
                    ok = all(any(h == (k, v) for h in it) for k, v in val)  # in order, as a subsequence
                elif key == "content":
                    ok = msg.get_text(strict=False) == val
                else:
                    ok = getattr(msg, key) == val
        except Exception as e:  # reading back failed: the field is not applied in any usable sense
            ok = False
        if not ok:
            missing.append([sec, key])
    return missing


def put(wd, flow, doc):
    ctype, body = render(doc)
    headers = [("Authorization", "Bearer " + wd.auth._password), ("Cookie", "_mitmproxy_xsrf=" + XSRF), ("X-XSRFToken", XSRF), ("Content-Type", ctype)]
    return wd.request("PUT", "/flows/" + flow.id, headers, body)


def run_history(case, t: Tally, judge_last_only=True, verbose=False):
    """executes the history on a fresh flow; judges the last PUT (earlier ones were judged at their own level).
    returns the fingerprint of the final state"""
    wd = driver()
    kind = case["flow"]
    flow = new_flow(kind)
    wd.run(lambda: (wd.master.view.clear(), wd.master.view.add([flow])))
    s_init = state_of(flow)
    prior = "none"
    states = [s_init]
    all_held = True
    s1 = s_init
    slot1 = backup_slot(flow)
    for i, doc in enumerate(case["puts"]):
        last = i == len(case["puts"]) - 1
        s0 = s1  # nothing touches the flow between two PUTs
        slot0 = slot1
        crashed = None
        try:
            r = put(wd, flow, doc)
        except KeyboardInterrupt:
            raise
        except BaseException as e:
            r, crashed = None, repr(e)[:200]
        s1 = state_of(flow)
        slot1 = backup_slot(flow)
        status = r.status if r is not None else None
        if status == 404 or status == 403:
            raise HarnessError("the PUT did not reach FlowHandler.put (status %r): %r" % (status, r.brief() if r else crashed))
        ok2xx = status is not None and 200 <= status < 300
        if last or not judge_last_only:
            inv, pos = invalid_part(doc, kind)
            missing = applied(flow, doc) if (ok2xx and "fields" in doc) else []
            if s1 == s0:
                outcome = "unchanged"
            elif ok2xx and not missing:
                outcome = "applied"
            elif not ok2xx and any(s1 == old for old in states[:-1]):
                outcome = "reverted-to-older-state"
            elif ok2xx:
                outcome = "accepted-but-incomplete"
            else:
                outcome = "partially-applied"
            provokes = "-"
            for sec, key, val in doc.get("fields", []):
                p = _PROVOKES.get((sec, key, json.dumps(val)))
                if p:
                    provokes = p
                    break
            feats = {"flow": kind, "invalid_kind": inv or "none", "invalid_pos": pos or "-", "prior": prior, "outcome": outcome, "provokes": provokes}
            exc = [m.split("::")[-1].strip()[:100] for lv, m in (r.log if r is not None else []) if "Uncaught exception" in m][:1]
            obs = {"status": status, "outcome": outcome, "missing_fields": missing, "exception": exc or crashed,
                   "changed_keys": sorted(k for k in set(s0) | set(s1) if s0.get(k) != s1.get(k))}
            if verbose:
                print("  PUT %d %s -> %r" % (i + 1, render(doc)[1][:100], obs))
            if inv is not None:
                held = t.judge("applies_fully_or_not_at_all", s1 == s0, feats, case, "document has an invalid part (%s): flow state exactly as before this request" % inv, obs)
            else:
                held = t.judge("applies_fully_or_not_at_all", (ok2xx and not missing) or s1 == s0, feats, case,
                               "2xx with every field applied, or flow state exactly as before this request", obs)
                if ok2xx:
                    held = t.judge("accepted_edit_is_complete", not missing, feats, case, "every field of the accepted document is visible on the flow", obs) and held
            # the backup slot is part of the flow: what "revert" restores and whether the flow counts as modified
            sobs = {"status": status, "outcome": outcome, "backup_before": "set" if slot0[0] else None, "backup_after": "set" if slot1[0] else None,
                    "backup_same": slot0[0] == slot1[0], "modified_before": slot0[1], "modified_after": slot1[1]}
            if s1 == s0 and not (ok2xx and inv is None):
                # nothing was applied (rejected, or a no-op): revert target and modified() exactly as before this request
                held2 = t.judge("rejected_edit_leaves_backup_and_modified_unchanged", slot1 == slot0, feats, case,
                                "backup slot and modified() as before this request", sobs)
            elif ok2xx and s1 != s0:
                # applied: the state that revert would have restored before (or, without a backup, the state before this edit) stays reachable
                want = slot0[0] if slot0[0] is not None else json.dumps(canon(s0), sort_keys=True)
                held2 = t.judge("accepted_edit_keeps_original_revertable", slot1[0] == want and slot1[1] is True, feats, case,
                                "revert() still restores the original; modified() is true", sobs)
            else:
                held2 = True  # a partial application / an accepted no-op: judged by the clauses above
            all_held = all_held and bool(held) and bool(held2)
            t.transitions += 1
            t.outcome([kind, inv or "none", prior, status, outcome])
            nontrivial = "fields" in doc or doc.get("envelope") == "non-object-section"
            t.case(case if (len(case["puts"]) == 2 and inv and prior == "successful-edit") else None, nontrivial=nontrivial, key=case)
        prior = "successful-edit" if (ok2xx and s1 != s0) else ("failed-edit" if not ok2xx else "no-op-edit")
        states.append(s1)
    fp = fingerprint(kind, flow, s1)
    t.state(fp)
    t.executions += 1
    t.max_depth = max(t.max_depth, len(case["puts"]))
    # a state reached through a violating transition is reported, not expanded (it may be corrupt, e.g. a None header value)
    return fp if all_held else None


def level_chunk(chunk):
    """chunk: [(index, case)] -> (Tally, [(index, fingerprint of the final state)])"""
    t = Tally()
    fps = []
    try:
        for idx, case in chunk:
            fps.append((idx, run_history(case, t)))
    finally:
        drop_driver()
    return t, fps


def run(ctx):
    thorough = ctx.thorough
    os.makedirs(SCRATCH, exist_ok=True)
    atexit.register(_cleanup)
    try:
        # warm-up + sanity in the parent (imports happen once, before the fork)
        t0 = Tally()
        run_history({"flow": "http-resp", "puts": [{"fields": [["request", "method", "PATCH"]]}]}, t0)
        if t0.violations or not t0.clauses.get("accepted_edit_is_complete"):
            raise HarnessError("a plain valid edit is not accepted: %r" % {k: v[0].observed for k, v in t0.violations.items()})
        drop_driver()

        reduced = [list(f) for f in VALID if (f[0], f[1]) in (("request", "path"), ("response", "code"), ("top", "comment"))] + \
                  [list(f[:3]) for f in INVALID if (f[0], f[1], f[3]) in (("top", "foo", "unknown-field"), ("request", "port", "malformed-port-or-code"), ("response", "foo", "unknown-field"))]
        ext1 = ext_documents(full_pairs=thorough)
        docs1 = documents(3, third_pool=None if thorough else reduced) + ext1
        docs2 = documents(2)
        if not thorough:
            # second PUT of a history: every single field, and every pair whose second field is from the reduced pool
            docs2 = [d for d in docs2 if "envelope" in d or len(d["fields"]) == 1 or d["fields"][1] in reduced]
        # extended invalid values as second PUT: alone, and (thorough) after a valid field of each section
        docs2 = docs2 + [d for d in ext_documents() if len(d["fields"]) == 1 or (thorough and d["fields"][0] in EXT_PARTNERS)]
        prefix_len = 2 if thorough else 1
        ctx.bounds = {
            "flow_kinds": FLOW_KINDS, "valid_fields": len(VALID), "invalid_fields": len(INVALID), "envelope_faults": ENVELOPES,
            "extended_invalid_values": "%d values (per field: wrong type, unparsable text, 1e999/Infinity/NaN, wrong container shape, deep nesting, unencodable text, "
                                       "non-object section), each alone and paired in both orders with %s" % (
                                           len(INVALID_EXT), "every valid field" if thorough else "one valid field of every section"),
            "level1_documents": "%d (ordered field lists of length <= 3%s, plus envelope faults)" % (len(docs1), "" if thorough else ", third field from a pool of 6"),
            "level2_documents": "%d (length <= 2%s, plus envelope faults)" % (len(docs2), "" if thorough else ", second field from a pool of 6"),
            "level2_prefixes": "every distinct state reached at level 1 by documents of length <= %d" % prefix_len,
            "history_depth": 2,
        }
        # forked workers: keep the collector from touching (and thereby copying) the parent's heap - page faults
        # are very expensive on this kind of VM; the quick tier is ~50 s of CPU, a medium pool suffices
        import gc

        gc.collect()
        gc.freeze()
        nproc = par.NPROC if thorough else min(par.NPROC, 8)
        # level 1
        # quick tier: a TCP flow has neither request nor response, so all those fields fall in one class: length <= 2 suffices there
        cases1 = [{"flow": k, "puts": [d]} for k in FLOW_KINDS for d in docs1 if thorough or k != "tcp" or len(d.get("fields", [])) <= 2]
        ctx.log("level 1: %d histories" % len(cases1))
        seen = {}
        for t, fps in par.pmap(level_chunk, list(enumerate(cases1)), nchunks=nproc, nproc=nproc):
            ctx.tally.merge(t)
            for idx, fp in fps:
                if fp is None:
                    continue  # reached through a violating edit: reported at level 1, not expanded
                case = cases1[idx]
                d = case["puts"][0]
                if len(d.get("fields", [0])) <= prefix_len:
                    key = (case["flow"], fp)
                    # canonical representative: the simplest (first enumerated) document reaching this state
                    if key not in seen or idx < seen[key]:
                        seen[key] = idx
        prefixes = [cases1[i] for i in sorted(seen.values())]
        ctx.log("level 1 done: %d distinct states reached by prefix documents" % len(prefixes))
        # level 2
        cases2 = [{"flow": p["flow"], "puts": [p["puts"][0], d]} for p in prefixes for d in docs2]
        ctx.log("level 2: %d histories" % len(cases2))
        for t, fps in par.pmap(level_chunk, list(enumerate(cases2)), nchunks=nproc, nproc=nproc):
            ctx.tally.merge(t)
        ctx.bounds["level1_histories"] = len(cases1)
        ctx.bounds["level2_histories"] = len(cases2)
        ctx.bounds["level2_prefix_states"] = len(prefixes)
        ctx.tally.states = 0  # distinct states are counted through t.state()
    finally:
        drop_driver()
        _cleanup()


def replay(case, t: Tally, verbose=False):
    try:
        run_history(case, t, judge_last_only=False, verbose=verbose)
    finally:
        drop_driver()
        _cleanup()
