"""C09 - connection lifecycle hooks pair up, <= 5 upstream connections per destination, nothing left open.

Engine V+X: the real ProxyConnectionHandler (handle_client / open_connection /
handle_connection / close_connection / drain_writers / server_event, real watchdog) on
the virtual loop, with two kinds of layers on top:

  tcp   the real reverse-proxy stack for `reverse:tcp://10.0.0.1:80` (ReverseProxy ->
        NextLayer addon -> TCPLayer): one upstream connection
  kN    a small script layer that on Start opens N in {2, 6, 7} connections to the *same*
        address (no shipped layer opens six connections deterministically), relays, and
        closes on close; a client byte `c` makes it close its first live upstream
        connection whatever state that is in (CloseConnection = "closed by command")

Deviation-bounded DFS over schedules.  The default schedule is the fault-free life of the
connection; a deviation is any other enabled environment action at a scheduling point
(connect refused, client/server EOF or read error, data with an OSError on the next
drain, leaving a suspended hook pending, completing hooks out of order, the layer closing
an upstream connection, the clock reaching the idle timeout) or the *injection* of a
second environment event before the loop has settled.  Every execution is closed out
(pending connects refused, hooks completed, every socket EOF'd, timers fired) and judged.
"""
from __future__ import annotations

import asyncio

from mitmproxy.connection import ConnectionState
from mitmproxy.connection import Server
from mitmproxy.proxy import commands
from mitmproxy.proxy import events
from mitmproxy.proxy import layer

import vmc.drivers.world as wm
from vmc.drivers import mbfs
from vmc.drivers.eworld import EWorld
from vmc.tally import HarnessError, Tally

META = {
    "level": "model_checking",
    "technique": "deviation-bounded DFS (faults, reorderings, held hooks, idle timeout, pre-quiescence injection) over the real ConnectionHandler on a virtual event loop, with a monitor over the lifecycle hooks and the mock sockets",
    "claim": "for every layer configuration, hook-suspension mode, addon policy and schedule within the deviation bound: client_connected/client_disconnected fire once each in that order, every server_connect is followed by exactly one of server_connected/server_connect_error, every server_connected by exactly one server_disconnected, never more than five sockets to one address are open at once, and after close-out no socket, task or semaphore slot is left",
    "rule": "an execution is (layer, suspended hook, policy, eager, choice sequence); distinct = distinct tuple; non-trivial = at least one deviation from the default schedule or a non-default suspension/policy",
    "assumptions": [
        "mock sockets accept every write; a drain error is an OSError raised by the next drain() of the chosen writer",
        "upstream connections to one address are interchangeable: faults are injected on the first connection of each state class (pending connect / open), hooks are completed first-or-last",
        "a connect future that resolves while its task is being cancelled counts as not established (asyncio.open_connection closes such sockets itself)",
        "the idle timeout is reached by moving the clock to the next timer plus an overshoot of 0.25 s",
    ],
}

ADDR = ("10.0.0.1", 80)
EPS = 0.25
TICK = 1e-6
SERVER_HOOKS = ("server_connect", "server_connected", "server_connect_error", "server_disconnected")


class MultiLayer(layer.Layer):
    """opens k connections to the same address at once (commands are marked as handled by this layer, like
    HttpLayer does for its streams, so the layer never pauses), relays, closes on close."""

    def __init__(self, context, k, distinct=False):
        super().__init__(context)
        self.k = k
        self.distinct = distinct  # k different original addresses (an addon may redirect them all to one target)
        self.conns = []
        self.closing = False

    def _handle_event(self, ev):
        client = self.context.client
        if isinstance(ev, events.Start):
            for i in range(self.k):
                c = Server(address=("10.0.1.%d" % (i + 1), 80) if self.distinct else ADDR)
                self.conns.append(c)
                cmd = commands.OpenConnection(c)
                cmd.blocking = self
                yield cmd
        elif isinstance(ev, events.OpenConnectionCompleted):
            if ev.reply is None and self.closing:
                yield commands.CloseConnection(ev.command.connection)
        elif isinstance(ev, events.DataReceived):
            if ev.connection is client:
                for b in ev.data:
                    if chr(b) == "c":
                        for c in self.conns:
                            if not getattr(c, "_closed_by_layer", False) and c.error is None and c.timestamp_end is None:
                                c._closed_by_layer = True
                                yield commands.CloseConnection(c)
                                break
                    else:
                        for c in self.conns:
                            if c.state & ConnectionState.CAN_WRITE:
                                yield commands.SendData(c, bytes([b]))
            elif client.state & ConnectionState.CAN_WRITE:
                yield commands.SendData(client, ev.data)
        elif isinstance(ev, events.ConnectionClosed):
            if ev.connection is client:
                self.closing = True
                for c in self.conns:
                    if c.state is not ConnectionState.CLOSED or c.timestamp_start is None:
                        yield commands.CloseConnection(c)
                yield commands.CloseConnection(client)
            else:
                yield commands.CloseConnection(ev.connection)


class W9(EWorld):
    """remembers which Server object every mock socket was opened for (observation only)"""

    async def _open(self, transport, host, port):
        # the caller is the open_connection coroutine of the current task; its `command` local names the connection
        # (handler.transports is not filled in yet when the task was started eagerly)
        conn = None
        try:
            conn = asyncio.current_task().get_coro().cr_frame.f_locals["command"].connection
        except (AttributeError, KeyError):
            pass
        self.conn_of_end = getattr(self, "conn_of_end", {})
        self.conn_of_end[len(self.servers)] = conn
        return await super()._open(transport, host, port)


# m7: seven *different* original addresses, used with the `redirect` policy (server_connect rewrites them all to ADDR)
LAYERS = {"tcp": None, "k2": 2, "k6": 6, "k7": 7, "m7": 7}
SUSPEND = ["none", "server_connect", "server_connected", "server_connect_error", "server_disconnected", "client_connected", "client_disconnected"]
POLICIES = ["none", "kill_server", "kill_client", "redirect", "close_err (fault: every close() raises OSError)"]
FAULTS = ("refuse", "c_eof", "c_err", "s_eof", "s_err", "c_close_srv", "timeout", "c_data_drain_c", "c_data_drain_s", "s_data_drain_c")


def make_policy(pol):
    def policy(name, data, world):
        if pol == "kill_server" and name == "server_connect":
            data.server.error = "killed by addon"
        if pol == "kill_client" and name == "client_connected":
            data.error = "killed by addon"
        if pol == "redirect" and name == "server_connect":
            data.server.address = ADDR  # an addon redirecting upstream connections; open_connection connects to the new address

    return policy if pol not in ("none", "close_err") else None


def _arm_close_error(wr):
    def close():
        wr.closed = True  # the socket is gone either way; close() just reports the reset
        raise OSError("connection reset by peer during shutdown")

    wr._close_armed = True
    wr.close = close


class Exec:
    def __init__(self, lay, susp, pol, eager, inject_cost):
        self.lay, self.susp, self.pol, self.eager, self.inject_cost = lay, susp, pol, eager, inject_cost

    # ------------------------------------------------------------------ environment
    def open_servers(self, w):
        return [i for i, e in enumerate(w.servers) if e.state == "open" and not e.r.eof and not e.w.closed]

    def enabled(self, w, st):
        """canonical order: index 0 is the default (progress) action"""
        acts = []
        pend = [i for i, e in enumerate(w.servers) if e in w.pending_connects()]
        opens = self.open_servers(w)
        if w.suspended:
            acts.append(("hook", 0))
        if pend:
            acts.append(("ok", pend[0]))
        client_up = not w.client.r.eof
        if not w.suspended and not pend:
            # scripted life of the connection: data both ways, one upstream closes (a waiting connect gets
            # its semaphore slot), the client closes, the remaining upstreams close
            if client_up and st["c_data"] == 0:
                acts.append(("c_data",))
            elif opens and st["s_data"] == 0:
                acts.append(("s_data", opens[0]))
            elif opens and st["s_eof"] == 0:
                acts.append(("s_eof", opens[0]))
            elif client_up:
                acts.append(("c_eof",))
            elif opens:
                acts.append(("s_eof", opens[0]))
        if not acts:
            return [], []
        # alternatives / faults: `main` ones cost one deviation, `minor` variants two
        minor = []
        if pend:
            acts.append(("refuse", pend[0]))
        if client_up:
            if st["c_data"] < 2:
                acts.append(("c_data_drain_c",))
                if opens:
                    acts.append(("c_data_drain_s", opens[0]))
                minor.append(("c_data",))
            if self.lay != "tcp" and st["c_close"] < 2:
                acts.append(("c_close_srv",))
            acts.append(("c_eof",))
            minor.append(("c_err",))
        if opens:
            if st["s_data"] < 2:
                acts.append(("s_data", opens[0]))
                minor.append(("s_data_drain_c", opens[0]))
            acts.append(("s_eof", opens[0]))
            minor.append(("s_err", opens[0]))
            if len(opens) > 1:
                minor.append(("s_eof", opens[-1]))
        if len(w.suspended) > 1:
            acts.append(("hook", len(w.suspended) - 1))
        if w.loop.next_timer() is not None and not st["timed_out"]:
            acts.append(("timeout",))
        seen, out = set(), []
        for a in acts:
            if a not in seen:
                seen.add(a)
                out.append(a)
        return out, [a for a in minor if a not in seen]

    def apply_raw(self, w, a, st):
        """perform the environment event without running the loop"""
        kind = a[0]
        call = w.loop.call_in_loop
        wm._CURRENT = w
        if kind == "hook":
            fut = w.suspended[a[1]][2]
            st["completed"].append((w.suspended[a[1]][0], id(w.suspended[a[1]][1])))
            call(lambda: (not fut.done()) and fut.set_result(None))
        elif kind == "ok":
            e = w.servers[a[1]]
            e.state = "open"
            call(e.connect_fut.set_result, None)
        elif kind == "refuse":
            e = w.servers[a[1]]
            e.state = "refused"
            call(e.connect_fut.set_exception, OSError("connection refused"))
        elif kind in ("c_data", "c_data_drain_c", "c_data_drain_s"):
            st["c_data"] += 1
            if kind == "c_data_drain_c":
                w.client.w.drain_error = OSError("drain failed")
            elif kind == "c_data_drain_s":
                w.servers[a[1]].w.drain_error = OSError("drain failed")
            call(w.client.send, b"x")
        elif kind == "c_close_srv":
            st["c_close"] += 1
            call(w.client.send, b"c")
        elif kind == "c_eof":
            w.client.r.eof = True
            call(w.client.eof)
        elif kind == "c_err":
            w.client.r.eof = True
            call(w.client.error)
        elif kind in ("s_data", "s_data_drain_c"):
            st["s_data"] += 1
            if kind == "s_data_drain_c":
                w.client.w.drain_error = OSError("drain failed")
            call(w.servers[a[1]].send, b"y")
        elif kind == "s_eof":
            st["s_eof"] += 1
            e = w.servers[a[1]]
            e.r.eof = True
            call(e.eof)
        elif kind == "s_err":
            e = w.servers[a[1]]
            e.r.eof = True
            call(e.error)
        elif kind == "timeout":
            st["timed_out"] = True
            w.loop.advance_to_next_timer(EPS)
        else:
            raise HarnessError("unknown action %r" % (a,))

    def settle(self, w):
        for _ in range(5):
            try:
                w.run_limited(2000)
                return
            except RuntimeError:
                w.loop.advance(TICK)
        raise HarnessError("loop does not settle")

    def injectable(self, w, st, first):
        """second events that can arrive before the loop has processed `first`"""
        out = []
        main, minor = self.enabled(w, st)
        for a in main + minor:
            if a == first or a[0] in ("timeout",):
                continue
            if a[0] == "hook" and first[0] == "hook":
                continue
            if a[0] in ("ok", "refuse") and first[0] in ("ok", "refuse") and a[1] == first[1]:
                continue
            if a[0].startswith("s_") and first[0].startswith("s_") and a[1] == first[1]:
                continue
            if a[0].startswith("c_") and first[0].startswith("c_"):
                continue
            out.append(a)
        return out

    # ------------------------------------------------------------------ one execution
    def run(self, prefix, t: Tally, verbose=False):
        k = LAYERS[self.lay]
        st = {"c_data": 0, "s_data": 0, "s_eof": 0, "c_close": 0, "timed_out": False, "completed": [], "max_open": 0, "held": []}

        def suspend(name, data, world):
            if name == self.susp:
                st["held"].append((name, id(data)))  # the environment holds this hook (it may get cancelled under it)
                return True
            return False

        w = W9(mode="reverse:tcp://10.0.0.1:80", policy=make_policy(self.pol), suspend=suspend if self.susp != "none" else None,
               layer_factory=(lambda ctx: MultiLayer(ctx, k, distinct=self.lay == "m7")) if k else None, eager=self.eager)
        choices, widths, costs = [], [], []
        trace = []

        def choose(n, cost):
            i = prefix[len(choices)] if len(choices) < len(prefix) else 0
            if i >= n:
                raise HarnessError("choice out of range while replaying %r" % (prefix,))
            choices.append(i)
            widths.append(n)
            costs.append(cost)
            return i

        try:
            w.start()
            self.observe(w, st)
            for _ in range(80):
                acts, minor = self.enabled(w, st)
                if not acts:
                    break
                i = choose(len(acts), 1) if len(acts) > 1 else 0
                a = acts[i]
                step = [a]
                second = None
                if i == 0 and self.inject_cost:
                    # second choice point of the step (costs more): a minor fault variant instead of the default,
                    # or a second event injected before the loop has settled
                    inj = self.injectable(w, st, a)
                    if minor or inj:
                        j = choose(1 + len(minor) + len(inj), self.inject_cost)
                        if 1 <= j <= len(minor):
                            a = minor[j - 1]
                            step = [a]
                        elif j > len(minor):
                            second = inj[j - 1 - len(minor)]
                self.apply_raw(w, a, st)
                if second is not None:
                    self.apply_raw(w, second, st)
                    step.append(second)
                self.settle(w)
                trace.append(step)
                self.observe(w, st)
                t.transitions += 1
                t.state([[n for n, _ in w.hooks], [e.state + str(int(e.w.closed)) + str(int(e.r.eof)) for e in w.servers], len(w.suspended), w.done])
            else:
                raise HarnessError("schedule does not terminate: %r" % (trace,))
            closed = self.close_out(w, st)
            self.judge(w, st, closed, trace, choices, t, verbose)
        finally:
            w.dispose()
        return choices, widths, costs

    def observe(self, w, st):
        n = sum(1 for e in w.servers if e.state == "open" and not e.w.closed and e.address == ADDR)
        st["max_open"] = max(st["max_open"], n)
        if self.pol == "close_err":
            # fault: every socket's close() reports an OSError (the peer reset the connection while it is shut down)
            for e in [w.client] + list(w.servers):
                if not getattr(e.w, "_close_armed", False):
                    _arm_close_error(e.w)

    def close_out(self, w, st):
        for _ in range(80):
            if w.done and not w.loop.pending_tasks():
                break
            progressed = False
            while w.suspended:
                self.apply_raw(w, ("hook", 0), st)
                self.settle(w)
                self.observe(w, st)
                progressed = True
            for i, e in enumerate(w.servers):
                if e in w.pending_connects():
                    self.apply_raw(w, ("refuse", i), st)
                    self.settle(w)
                    self.observe(w, st)
                    progressed = True
            for i in self.open_servers(w):
                self.apply_raw(w, ("s_eof", i), st)
                self.settle(w)
                self.observe(w, st)
                progressed = True
            if not w.client.r.eof:
                self.apply_raw(w, ("c_eof",), st)
                self.settle(w)
                self.observe(w, st)
                progressed = True
            if w.done and not w.loop.pending_tasks():
                break
            if not progressed:
                if w.loop.next_timer() is None:
                    break
                w.loop.advance_to_next_timer(EPS)
                self.settle(w)
                self.observe(w, st)
        return w.done and not w.loop.pending_tasks()

    # ------------------------------------------------------------------ oracle
    def judge(self, w, st, closed, trace, choices, t: Tally, verbose):
        lay = "tcp" if self.lay == "tcp" else "script"
        base = {"layer": lay}
        case = {"lay": self.lay, "susp": self.susp, "pol": self.pol, "eager": self.eager, "inject_cost": self.inject_cost, "choices": list(choices)}
        flat = [a[0] for step in trace for a in step]
        faults = [x for x in flat if x in FAULTS]
        injected = any(len(step) > 1 for step in trace)
        nontrivial = bool(faults) or injected or any(choices) or self.susp != "none" or self.pol != "none"
        t.case(case if (len(t.samples) < 2 and len(faults) > 1) else None, nontrivial=nontrivial, key=case)
        names = [n for n, _ in w.hooks]
        # hooks the environment held: completed by the environment, or cancelled under it
        held = {}
        for hk_key in st["held"]:
            still = any((r[0], id(r[1])) == hk_key for r in w.suspended)
            held[hk_key] = "completed" if hk_key in st["completed"] else ("pending" if still else "cancelled")
        per = {}
        order = []
        for i, (name, data) in enumerate(w.hook_objs):
            if name in SERVER_HOOKS:
                key = id(data.server)
                if key not in per:
                    per[key] = {"server": data.server, "hooks": [], "data": data}
                    order.append(key)
                per[key]["hooks"].append(name)
        ends = {}
        for i, e in enumerate(w.servers):
            c = getattr(w, "conn_of_end", {}).get(i)
            if c is not None:
                ends.setdefault(id(c), []).append(e)
        summary = []
        for key in order:
            p = per[key]
            hk = p["hooks"]
            summary.append(hk)
            stage = self.stage(p, held, ends.get(key, []))
            f = dict(base, lost_at=stage)
            if "server_connect" not in hk:
                t.bad("connect_then_exactly_one_of_connected_or_error", dict(base, lost_at="no_server_connect"), case, "server_connect first", hk)
                continue
            n_out = hk.count("server_connected") + hk.count("server_connect_error")
            t.judge("connect_fires_once_first", hk[0] == "server_connect" and hk.count("server_connect") == 1, base, case, None, hk)
            t.judge("never_both_connected_and_error", n_out <= 1, base, case, "at most one of server_connected / server_connect_error", hk)
            if closed:
                t.judge("connect_then_exactly_one_of_connected_or_error", n_out == 1, dict(f, outcomes=min(n_out, 2)), case, "exactly one of server_connected / server_connect_error after server_connect", hk)
            nd = hk.count("server_disconnected")
            t.judge("disconnected_only_after_connected", nd == 0 or ("server_connected" in hk and hk.index("server_connected") < hk.index("server_disconnected")), base, case, None, hk)
            t.judge("disconnected_at_most_once", nd <= 1, base, case, None, hk)
            if closed and "server_connected" in hk:
                t.judge("connected_then_exactly_one_disconnected", nd == 1, dict(f, disconnected=min(nd, 2)), case, "exactly one server_disconnected after server_connected", hk)
        # client
        crash = None
        if w.task is not None and w.task.done() and not w.task.cancelled() and w.task.exception() is not None:
            crash = type(w.task.exception()).__name__  # handle_client itself raised
        cc, cd = names.count("client_connected"), names.count("client_disconnected")
        t.judge("client_connected_once_first", cc == 1 and names[0] == "client_connected", base, case, None, names[:3])
        t.judge("client_disconnected_at_most_once", cd <= 1, base, case, None, names)
        if closed:
            t.judge("client_connected_once_then_disconnected_once", cc == 1 and cd == 1, dict(base, disconnected=min(cd, 2), handle_client_raised=crash), case,
                    "client_connected once, client_disconnected once afterwards", {"hooks": names, "handle_client raised": repr(w.task.exception()) if crash else None, "errors": w.errors[:1]})
        # concurrency bound (a socket that was leaked earlier - see no_resources_left - still counts as open)
        leaked = any(e.state == "open" and not e.w.closed for e in w.servers) if closed else None
        t.judge("open_to_same_address_le_5", st["max_open"] <= 5, dict(base, k=self.lay, socket_leaked=leaked), case, "<= 5 sockets to %s:%d open at the same time" % ADDR, st["max_open"])
        # end of life
        t.judge("handler_terminates", closed, dict(base, susp=self.susp, handle_client_raised=crash), case, "connection handler finished after close-out",
                {"pending": [repr(x)[:90] for x in w.loop.pending_tasks()][:4], "done": w.done})
        if closed:
            for i, e in enumerate(w.servers):
                if e.state == "open":
                    c = getattr(w, "conn_of_end", {}).get(i)
                    p = per.get(id(c)) if c is not None else None
                    stage = self.stage(p, held, [e]) if p else "unknown"
                    t.judge("no_resources_left", e.w.closed, dict(base, what="server_socket_open", lost_at=stage), case, "every upstream socket closed", {"server": i, "hooks": p["hooks"] if p else None})
            t.judge("no_resources_left", w.client.w.closed, dict(base, what="client_socket_open"), case, "client socket closed", None)
            # handler.transports ("live connections and their tasks"): an entry whose socket has been closed must be gone
            # (entries whose socket is still open are the leak reported above; entries without reader/writer are not resources)
            stale = [repr(c)[:60] for c, io in w.handler.transports.items() if io.writer is not None and getattr(io.writer, "_w", io.writer).closed]
            t.judge("no_resources_left", not stale, dict(base, what="transport_entry_of_closed_socket", close_raised=self.pol == "close_err"), case,
                    "no ConnectionIO entry left in handler.transports for a closed socket", stale)
            sems = {repr(a): (s._value, len(s._waiters or ())) for a, s in w.handler.max_conns.items()}
            t.judge("no_resources_left", all(v == (5, 0) for v in sems.values()), dict(base, what="semaphore"), case, "all per-address semaphores back at 5 without waiters", sems)
        t.outcome([summary, names.count("client_disconnected"), st["max_open"], closed])
        if w.errors:
            t.note("server logged: " + w.errors[0][:70])
        if verbose:
            print("trace", trace)
            print("hooks", names)
            for key in order:
                print("server", per[key]["hooks"], "error=%r" % (per[key]["server"].error,), "state", per[key]["server"].state)
            print("held", sorted((k[0], v) for k, v in held.items()))
            print("sockets", [(e.state, "closed" if e.w.closed else "OPEN") for e in w.servers], "client closed", w.client.w.closed)
            print("closed", closed, "max_open", st["max_open"], "errors", w.errors[:2])

    def stage(self, p, held, ends):
        """where this connection attempt was when it lost its way (from the environment's records only)"""
        data = p["data"]
        hk = p["hooks"]

        def status(name):
            return held.get((name, id(data)))

        if "server_disconnected" in hk and status("server_disconnected") != "cancelled":
            return "after_server_disconnected"
        if status("server_connect") == "cancelled":
            return "server_connect_hook_pending"
        if status("server_connected") == "cancelled":
            return "server_connected_hook_pending"
        if status("server_connect_error") == "cancelled":
            return "server_connect_error_hook_pending"
        if status("server_disconnected") == "cancelled":
            return "server_disconnected_hook_pending"
        if hk == ["server_connect"] and not ends:
            return "waiting_for_semaphore"
        if hk == ["server_connect"]:
            return "connecting"
        return "other"


def specs(tier):
    out = []
    thorough = tier == "thorough"
    for lay in LAYERS:
        if lay == "m7":
            # an addon redirects seven different destinations to one target: the bound is per *connected* address
            for susp in ("none", "server_connect", "server_connected") if thorough else ("none", "server_connect"):
                out.append((lay, susp, "redirect", True))
            continue
        for susp in SUSPEND:
            out.append((lay, susp, "none", True))
        out.append((lay, "none", "kill_server", True))
        out.append((lay, "server_connect_error", "kill_server", True))
        if lay in ("tcp", "k2"):
            out.append((lay, "none", "kill_client", True))
        if lay in ("tcp", "k2") or thorough:
            out.append((lay, "none", "close_err", True))
            out.append((lay, "server_disconnected", "close_err", True))
        if thorough or lay in ("tcp", "k6"):
            # deferred task start (non-eager event loop): the other legitimate order of task starts
            out.append((lay, "none", "none", False))
            out.append((lay, "server_connect", "none", False))
            out.append((lay, "server_connected", "none", False))
    return out


def make_exec(key):
    return Exec(*key[:5])


def bound_of(key):
    return key[5]


BOUNDS = {
    # layer -> deviation bound (a minor fault variant or an injection costs INJECT_COST deviations)
    "quick": {"tcp": 3, "k2": 2, "k6": 1, "k7": 1, "m7": 1},
    "thorough": {"tcp": 4, "k2": 3, "k6": 2, "k7": 2, "m7": 2},
}
INJECT_COST = 2


def run(ctx):
    bounds = BOUNDS[ctx.tier]
    sp = []
    for s in specs(ctx.tier):
        b = bounds[s[0]]
        if s[0] == "k6" and s[1] in ("none", "server_connect", "server_connected") and s[2] == "none" and s[3]:
            b += 1  # the semaphore hand-over gets one more deviation
        sp.append(s + (min(INJECT_COST, b), b))
    ctx.bounds = {"layers": list(LAYERS), "suspended_hook": SUSPEND, "policies": POLICIES, "deviation_bound_per_layer": bounds, "k6_with_none_or_connect_hooks_held": "bound + 1",
                  "minor_variant_or_injection_costs": INJECT_COST, "specs": len(sp)}
    ctx.log("%d specs" % len(sp))
    mbfs.dfs_dev_many(sp, make_exec, bound_of, ctx.tally, log=ctx.log)


def replay(case, t, verbose=False):
    Exec(case["lay"], case["susp"], case["pol"], bool(case["eager"]), int(case["inject_cost"])).run(tuple(case["choices"]), t, verbose=verbose)
