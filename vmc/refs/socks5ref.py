"""socks5ref - an independent reader of the client side of a SOCKS5 handshake (RFC 1928, RFC 1929).

Written from the RFCs only; nothing is shared with mitmproxy.proxy.layers.modes.

    parse(stream, auth_required, valid) -> dict

`stream` is everything the client ever sends (greeting, optional username/password
sub-negotiation, request, then payload).  `auth_required` is the server policy (RFC 1928
section 3: the server *selects* a method; a server that requires RFC 1929 authentication
selects 0x02, one that does not selects 0x00).  `valid(user: bytes, password: bytes) -> bool`
is the credential validator.

Result keys
  verdict   "accept"      handshake complete and acceptable: the server must connect to `dest`
            "reject"      the handshake must be refused (`reason` says why)
            "incomplete"  the bytes so far are a proper prefix of a handshake: nothing to decide yet
  klass     "wellformed"  every field is as the RFCs define it (accept / incomplete)
            "rfc_reject"  a rejection the RFCs enumerate (reason in REJECTS)
            "malformed"   anything else that deviates (`deviations` lists what); the RFCs do not say
                          what a server must do with these
  phase     "greeting" | "auth" | "request" | "relay"   where reading stopped
  method    selected method (0 or 2) once the greeting is complete and acceptable
  creds     (user, password) bytes once the sub-negotiation is complete
  dest      (kind, host, port) with kind in "ipv4" | "ipv6" | "domain"; host is dotted / RFC 5952 text / bytes
  trailing  bytes after the request (payload for the next layer)
  replies   what the server must have sent up to `phase`, as a list of expected messages:
            ("method", m) | ("auth", ok: bool) | ("reply", set_of_allowed_REP_codes)
"""
from __future__ import annotations

import ipaddress

REJECTS = ("bad_version", "no_acceptable_method", "auth_failed", "command_not_supported", "address_type_not_supported")

REP_SUCCEEDED = 0
REP_COMMAND_NOT_SUPPORTED = 7
REP_ATYP_NOT_SUPPORTED = 8
# RFC 1928 section 6: codes that describe a failed connection attempt
REP_CONNECT_FAILED = frozenset({1, 3, 4, 5, 6})


def _res(**kw):
    base = {"verdict": None, "klass": None, "phase": None, "reason": None, "method": None, "creds": None,
            "dest": None, "trailing": b"", "replies": [], "deviations": []}
    base.update(kw)
    return base


def parse(stream: bytes, auth_required: bool, valid=lambda u, p: True) -> dict:
    s = bytes(stream)
    dev: list[str] = []
    replies: list = []

    # ---- greeting: VER NMETHODS METHODS (RFC 1928 section 3)
    if len(s) < 1:
        return _res(verdict="incomplete", klass="wellformed", phase="greeting")
    if s[0] != 5:
        return _res(verdict="reject", klass="rfc_reject", phase="greeting", reason="bad_version")
    if len(s) < 2 or len(s) < 2 + s[1]:
        return _res(verdict="incomplete", klass="wellformed", phase="greeting")
    n = s[1]
    methods = s[2:2 + n]
    want = 2 if auth_required else 0
    if want not in methods:
        return _res(verdict="reject", klass="rfc_reject", phase="greeting", reason="no_acceptable_method",
                    replies=[("method", 0xFF)])
    replies.append(("method", want))
    pos = 2 + n
    creds = None

    # ---- username/password sub-negotiation: VER ULEN UNAME PLEN PASSWD (RFC 1929 section 2)
    if auth_required:
        a = s[pos:]
        if len(a) < 2 or len(a) < 2 + a[1] + 1 or len(a) < 2 + a[1] + 1 + a[2 + a[1]]:
            return _res(verdict="incomplete", klass="wellformed" if (not a or a[0] == 1) else "malformed",
                        phase="auth", method=want, replies=replies, deviations=["auth_ver"] if a and a[0] != 1 else [])
        ulen = a[1]
        plen = a[2 + ulen]
        user = a[2:2 + ulen]
        pw = a[3 + ulen:3 + ulen + plen]
        creds = (user, pw)
        if a[0] != 1:
            dev.append("auth_ver")
        if ulen == 0:
            dev.append("ulen0")
        if plen == 0:
            dev.append("plen0")
        pos += 3 + ulen + plen
        if dev:
            return _res(verdict="reject", klass="malformed", phase="auth", reason="malformed_auth", method=want,
                        creds=creds, replies=replies, deviations=dev, trailing=s[pos:])
        if not valid(user, pw):
            return _res(verdict="reject", klass="rfc_reject", phase="auth", reason="auth_failed", method=want,
                        creds=creds, replies=replies + [("auth", False)])
        replies.append(("auth", True))

    # ---- request: VER CMD RSV ATYP DST.ADDR DST.PORT (RFC 1928 section 4)
    r = s[pos:]
    if len(r) >= 1 and r[0] != 5:
        dev.append("req_ver")
    if len(r) >= 3 and r[2] != 0:
        dev.append("rsv")
    if len(r) < 4:
        return _res(verdict="incomplete", klass="malformed" if dev else "wellformed", phase="request", method=want,
                    creds=creds, replies=replies, deviations=dev)
    cmd, atyp = r[1], r[3]
    reasons = []
    if cmd != 1:  # BIND and UDP ASSOCIATE are not offered by this server; unknown commands likewise
        reasons.append("command_not_supported")
    if atyp not in (1, 3, 4):
        reasons.append("address_type_not_supported")
    if reasons:
        allowed = set()
        if "command_not_supported" in reasons:
            allowed.add(REP_COMMAND_NOT_SUPPORTED)
        if "address_type_not_supported" in reasons:
            allowed.add(REP_ATYP_NOT_SUPPORTED)
        return _res(verdict="reject", klass="malformed" if dev else "rfc_reject", phase="request", reason="+".join(reasons),
                    method=want, creds=creds, replies=replies + [("reply", frozenset(allowed))], deviations=dev)
    if atyp == 1:
        alen, off = 4, 4
    elif atyp == 4:
        alen, off = 16, 4
    else:
        if len(r) < 5:
            return _res(verdict="incomplete", klass="malformed" if dev else "wellformed", phase="request", method=want,
                        creds=creds, replies=replies, deviations=dev)
        alen, off = r[4], 5
    total = off + alen + 2
    if len(r) < total:
        return _res(verdict="incomplete", klass="malformed" if dev else "wellformed", phase="request", method=want,
                    creds=creds, replies=replies, deviations=dev)
    addr = r[off:off + alen]
    port = (r[off + alen] << 8) | r[off + alen + 1]
    if atyp == 1:
        dest = ("ipv4", str(ipaddress.IPv4Address(addr)), port)
    elif atyp == 4:
        dest = ("ipv6", str(ipaddress.IPv6Address(addr)), port)
    else:
        dest = ("domain", addr, port)
        if alen == 0:
            dev.append("domain_empty")
        elif any(c >= 0x80 or c <= 0x20 or c == 0x7F for c in addr):
            dev.append("domain_not_a_hostname")
    trailing = r[total:]
    return _res(verdict="accept", klass="malformed" if dev else "wellformed", phase="relay", method=want, creds=creds,
                dest=dest, trailing=trailing, replies=replies + [("reply", frozenset({REP_SUCCEEDED}))], deviations=dev)


def read_reply(data: bytes):
    """one server reply VER REP RSV ATYP BND.ADDR BND.PORT at the start of `data`
    -> (rep, consumed) or None if `data` does not start with a well-formed, complete reply"""
    if len(data) < 4 or data[0] != 5 or data[2] != 0:
        return None
    atyp = data[3]
    if atyp == 1:
        n = 4 + 4 + 2
    elif atyp == 4:
        n = 4 + 16 + 2
    elif atyp == 3:
        if len(data) < 5:
            return None
        n = 4 + 1 + data[4] + 2
    else:
        return None
    if len(data) < n:
        return None
    return data[1], n


def match_replies(expected, data: bytes, connect_failed=False):
    """compare what the server wrote with the expected message list.
    -> (ok, why, rest) where rest = bytes after the last expected message"""
    pos = 0
    for kind, val in expected:
        if kind == "method":
            if data[pos:pos + 2] != bytes([5, val]):
                return False, "method selection %r expected, got %r" % (bytes([5, val]), data[pos:pos + 2]), b""
            pos += 2
        elif kind == "auth":
            got = data[pos:pos + 2]
            if len(got) != 2 or got[0] != 1 or (got[1] == 0) != val:
                return False, "auth status %s expected, got %r" % ("success" if val else "failure", got), b""
            pos += 2
        else:
            allowed = val
            if connect_failed and allowed == frozenset({REP_SUCCEEDED}):
                allowed = REP_CONNECT_FAILED
            rr = read_reply(data[pos:])
            if rr is None:
                return False, "no well-formed reply at offset %d: %r" % (pos, data[pos:pos + 24]), b""
            rep, n = rr
            if rep not in allowed:
                return False, "reply code %d not in %s" % (rep, sorted(allowed)), b""
            pos += n
    return True, "", data[pos:]


def same_host(dest, address) -> bool:
    """does the (host, port) mitmproxy connected to denote exactly the requested destination?"""
    if address is None:
        return False
    kind, host, port = dest
    h, p = address[0], address[1]
    if p != port:
        return False
    if kind == "domain":
        try:
            return h == host.decode("ascii")
        except UnicodeDecodeError:
            return False
    try:
        return ipaddress.ip_address(h) == ipaddress.ip_address(host)
    except ValueError:
        return False
