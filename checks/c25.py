"""C25 - DNS wire encoding round-trips and decoding is total.

Engine E (bounded-exhaustive input enumeration) on the real `DNSMessage.packed / unpack /
unpack_from`, `domain_names` and `https_records`.

Part A  well-formed messages (every header field at its extremes, IDNA-canonical names up to
        255 octets, types/classes/TTLs at their extremes, arbitrary RDATA octets including
        octets that look like compression pointers) are encoded, decoded and compared field
        by field.
Part B  byte strings: every truncation, every single-octet substitution and short suffix of six
        base messages that use compression in owner names and RDATA; every pointer value at
        every name position of a 37 octet message (singly, in pairs, in triples); every short
        string over {00,01,c0,0c,ff} behind a header with counts in {0,1}; pointer chains and
        loops of 1..8000 hops; a catalogue of odd labels.  Each is decoded under a
        deterministic step budget (line events of the three modules, no wall clock);
        the outcome must be a message or struct.error/ValueError.  Every message obtained is
        re-encoded and decoded again and must come back the same.
Part H  HTTPS/SVCB RDATA: https_records.unpack is total (record or parse error).

Features name the trigger class and are computed from the *input* by the independent decoder
vmc.refs.dnsref: the RDATA group of a record (name-rdata / charstring / opaque), whether its RDATA
holds stray pointer-like octets that point inside the message, the form of the names
(dot inside a label, pointer to the root after labels, A-label with upper case), the number of
pointer hops.
"""
from __future__ import annotations

import itertools
import struct
import sys

from mitmproxy import dns as mdns
from mitmproxy.dns import DNSMessage, Question, ResourceRecord
from mitmproxy.net.dns import domain_names, https_records
from mitmproxy.net.dns import types as mtypes

from vmc import par
from vmc.refs import dnsref as R
from vmc.tally import Tally

META = {
    "level": "exploration",
    "technique": "bounded-exhaustive enumeration of well-formed messages and of byte strings (truncations, substitutions, "
    "all pointer values, pointer chains/loops) through the real encoder/decoder under a deterministic step budget, "
    "compared field by field; trigger classes labelled by an independent RFC 1035 decoder",
    "claim": "within the stated alphabets every message round-trips and every byte string decodes to a message or a parse error "
    "in bounded steps, except for the listed known findings; the quantifier is over inputs, so exhaustive input enumeration "
    "up to a size bound is the deciding method (exploration level: no state machine is involved)",
    "rule": "a case is one message model (part A) or one byte string (parts B, H); distinct = distinct encoded bytes; "
    "non-trivial = the bytes carry at least one question or record (the name/RDATA code is reached), resp. a non-empty HTTPS RDATA",
    "assumptions": [
        "a parse error is struct.error or ValueError (UnicodeError from the idna codec is a ValueError); anything else, including RecursionError, is not",
        "termination is judged by a step budget counted in executed lines of mitmproxy/dns.py and mitmproxy/net/dns/*.py (linear in the input length), not by time",
        "part A uses names that survive str -> idna -> str unchanged (IDNA-canonical); section counts 0..2 (3 in thorough); unpack_from is only called at offset 0",
        "RDATA of name-bearing types is given uncompressed in part A (the encoder never compresses, so this is mitmproxy's well-formed form)",
    ],
}

# ---------------------------------------------------------------------------
# deterministic step budget

_TRACED = {mdns.__file__, domain_names.__file__, https_records.__file__}


class StepBudgetExceeded(BaseException):
    pass


class _G:
    steps = 0
    budget = 0
    max_ratio = 0.0


def _local(frame, event, arg):
    if event == "line":
        _G.steps += 1
        if _G.steps > _G.budget:
            raise StepBudgetExceeded("more than %d lines" % _G.budget)
    return _local


def _global(frame, event, arg):
    return _local if frame.f_code.co_filename in _TRACED else None


def guarded(fn, size, *args):
    """call into mitmproxy under the step budget -> ("ok", result) | ("exc", exception)"""
    _G.steps = 0
    _G.budget = 20000 + 2000 * size
    old = sys.gettrace()
    sys.settrace(_global)
    try:
        return "ok", fn(*args)
    except KeyboardInterrupt:  # pragma: no cover
        raise
    except BaseException as e:
        return "exc", e
    finally:
        sys.settrace(old)
        r = _G.steps / (size + 10.0)
        if r > _G.max_ratio:
            _G.max_ratio = r


def is_parse_error(e):
    return isinstance(e, (struct.error, ValueError))


# ---------------------------------------------------------------------------
# comparing messages

HDR = ("id", "query", "op_code", "authoritative_answer", "truncation", "recursion_desired",
       "recursion_available", "reserved", "response_code")
SECTIONS = ("answers", "authorities", "additionals")


def hdr_of(m):
    return [int(getattr(m, k)) for k in HDR]


def qs_of(m):
    return [[q.name, q.type, q.class_] for q in m.questions]


def rrs_of(m):
    return [[si, r.name, r.type, r.class_, r.ttl, bytes(r.data)] for si, s in enumerate(SECTIONS) for r in getattr(m, s)]


ALL_TYPES = sorted(v for k, v in vars(mtypes).items() if k.isupper() and isinstance(v, int))


def type_label(t):
    return mtypes.to_str(t) if t in ALL_TYPES else "other"


PLAIN = {"dot_label": False, "ptr_root": False, "alabel_upper": False}


def roundtrip(m, clause, t: Tally, case, nf):
    """encode m with the real encoder, decode the bytes with the real decoder, compare with m field by field.
    Judged once for the message frame (header, questions, counts), once per record for owner/type/class/ttl
    and once per record for the RDATA, each with the features of the thing judged:
      dot_label / ptr_root / alabel_upper   oddities of the question/owner names of the input as the reference decoder
                  sees them: a label containing the octet '.', labels followed by a pointer that resolves to the root,
                  an xn-- label with upper-case letters (all false in part A)
      group       RDATA group of the record's type per RFC (name-rdata / charstring / opaque)
      rtype       the record type by name (types that mitmproxy.net.dns.types does not name are 'other')
      ptr_octets  whether the RDATA handed to the decoder holds octets >= 0xc0 that address an offset inside the message
      oversize    a record of the message to encode has more than 65535 octets of RDATA"""
    st, b = guarded(lambda: m.packed, 70000)
    if st == "exc":
        over = any(len(r[5]) > 65535 for r in rrs_of(m))
        t.bad(clause, {"scope": "message", "stage": "encode", **nf, "exc": type(b).__name__, "oversize": over}, case,
              "bytes", repr(b)[:200])
        return
    ref, refkind = R.try_decode(b, max_wire=None)
    rfeat = []
    if ref is not None:
        for rr in ref["an"] + ref["ns"] + ref["ar"]:
            rfeat.append((R.rdata_group(rr["type"]), R.pointer_octets(b, rr), type_label(rr["type"])))
    st, m2 = guarded(DNSMessage.unpack, len(b), b)
    if st == "exc":
        worst = next((x for x in rfeat if x[1] == "in-range"), ("-", "none", "-"))
        t.bad(clause, {"scope": "message", "stage": "decode", **nf, "exc": type(m2).__name__,
                       "group": worst[0], "ptr_octets": worst[1], "rtype": worst[2]}, case, "a message", repr(m2)[:200])
        return
    want = [hdr_of(m), qs_of(m), [len(getattr(m, s)) for s in SECTIONS]]
    got = [hdr_of(m2), qs_of(m2), [len(getattr(m2, s)) for s in SECTIONS]]
    t.judge(clause, want == got, {"scope": "message", "stage": "compare", **nf}, case, want, got)
    a, b2 = rrs_of(m), rrs_of(m2)
    for i in range(min(len(a), len(b2))):
        t.judge(clause, a[i][:5] == b2[i][:5], {"scope": "owner", "stage": "compare", **nf}, case, a[i][:5], b2[i][:5])
        g, s, ty = rfeat[i] if i < len(rfeat) else ("ref-rejects-" + str(refkind), "unknown", "-")
        t.judge(clause, a[i][5] == b2[i][5], {"scope": "rdata", "stage": "compare", "group": g, "ptr_octets": s, "rtype": ty}, case, a[i][5], b2[i][5])


# ---------------------------------------------------------------------------
# part A: well-formed messages

NAME255 = ".".join(["x" * 63, "y" * 63, "z" * 63, "w" * 61])
A_NAMES = ["", "a", "a.b", "A.b", "x" * 63, NAME255, "bücher.example", "_sip._tcp.a", "*.a", "1.2"]
for _n in A_NAMES:  # harness self-check: the alphabet is IDNA-canonical as the statement requires
    assert ".".join(p.encode("idna").decode("idna") for p in _n.split(".")) == _n or _n == "", _n
A_TYPES = [1, 28, 2, 5, 12, 15, 6, 16, 33, 65, 13, 41, 65280, 0, 65535]
_NM = b"\x01a\x01b\x00"
_TYPED = {
    1: b"\x01\x02\x03\x04", 28: bytes(range(16)), 2: _NM, 5: _NM, 12: _NM, 15: b"\x00\x0a" + _NM,
    6: _NM + b"\x01h" + _NM + struct.pack("!IIIII", 1, 2, 3, 4, 5), 16: b"\x03abc\x00", 33: b"\x00\x01\x00\x02\x01\xbb" + _NM,
    65: b"\x00\x01\x00\x00\x01\x00\x03\x02h2", 13: b"\x01a\x01b", 41: b"\x00\x0a\x00\x02ab", 65280: b"\x00\x01", 0: b"\x00", 65535: b"\x7f",
}
_PL = b"\xc0\x0c"
_TYPED_PL = {
    1: _PL * 2, 28: _PL * 8, 15: _PL + _NM, 6: _NM + _NM + _PL * 10, 16: b"\x02" + _PL + b"\x04" + _PL * 2,
    33: _PL * 3 + _NM, 65: _PL + b"\x00" + b"\x00\x05\x00\x02" + _PL, 13: b"\x02" + _PL + b"\x01a", 41: _PL + b"\x00\x02" + _PL,
    65280: _PL, 0: _PL, 65535: _PL + b"\xff",
}
PTR_KINDS = ("c0", "c00c", "c0ff", "ffff")
A_KINDS = ["empty", "c0", "c00c", "c0ff", "ffff", "ascii", "name", "typed", "typed-ptrlike"]


def rdata_of(rtype, kind):
    if kind == "empty":
        return b""
    if kind == "c0":
        return b"\xc0"
    if kind == "c00c":
        return _PL
    if kind == "c0ff":
        return b"\xc0\xff"
    if kind == "ffff":
        return b"\xff\xff"
    if kind == "ascii":
        return b"abc"
    if kind == "name":
        return _NM
    if kind == "typed":
        return _TYPED[rtype]
    if kind == "typed-ptrlike":
        return _TYPED_PL.get(rtype)
    if kind == "big-c0":
        return b"\xc0" * 65535
    if kind == "big-00":
        return b"\x00" * 65535
    raise AssertionError(kind)


def a_header_cases():
    body = {"q": [["a.b", 1, 1]], "an": [["a.b", 1, 1, 60, b"\x01\x02\x03\x04"]], "ns": [], "ar": []}
    for ident in (0, 1, 65535):
        for bits in itertools.product((0, 1), repeat=5):
            for op in (0, 15):
                for z in (0, 7):
                    for rc in (0, 15):
                        yield {"A": dict(body, hdr=[ident, bits[0], op, bits[1], bits[2], bits[3], bits[4], z, rc])}
    for op in range(16):
        for z in range(8):
            for rc in range(16):
                yield {"A": dict(body, hdr=[4660, 0, op, 0, 0, 1, 1, z, rc])}


DEF_HDR = [4660, 0, 0, 0, 0, 1, 1, 0, 0]


def a_question_cases(thorough):
    qpool = [[n, ty, c] for n in A_NAMES for ty in (1, 255, 65535, 0) for c in (1, 65535)]
    yield {"A": {"hdr": DEF_HDR, "q": [], "an": [], "ns": [], "ar": []}}
    for q in qpool:
        yield {"A": {"hdr": DEF_HDR, "q": [q], "an": [], "ns": [], "ar": []}}
    small = [q for q in qpool if q[1] in (1, 65535) and q[2] == 1]
    for q1 in (qpool if thorough else small):
        for q2 in small:
            yield {"A": {"hdr": DEF_HDR, "q": [q1, q2], "an": [], "ns": [], "ar": []}}


def a_single_record_cases(thorough):
    extremes = ((1, 60), (0, 0), (65535, 0xFFFFFFFF), (255, 0x80000000))
    for sec in ("an", "ns", "ar"):
        for n in A_NAMES:
            for ty in A_TYPES:
                for kind in A_KINDS:
                    d = rdata_of(ty, kind)
                    if d is None or (kind in PTR_KINDS and R.rdata_group(ty) == "name-rdata"):
                        continue  # a bare (dangling) pointer where the type's RDATA has a name is not a well-formed record
                    for cls, ttl in (extremes if thorough or kind in ("typed", "typed-ptrlike") else extremes[2:3]):
                        body = {"hdr": DEF_HDR, "q": [["a.b", ty, 1]], "an": [], "ns": [], "ar": []}
                        body[sec] = [[n, ty, cls, ttl, d]]
                        yield {"A": body}
    for ty in (1, 16, 15, 65280):
        for kind in ("big-c0", "big-00"):
            for nq in (0, 1):
                yield {"A": {"hdr": DEF_HDR, "q": [["a.b", ty, 1]] * nq, "an": [["a", ty, 1, 1, rdata_of(ty, kind)]], "ns": [], "ar": []}}


def schema_rdata(rtype, ptrlike):
    """RDATA that fits the reference schema of its type: names uncompressed, every other field boring or filled with c0 0c"""
    out = b""
    for f in R.SCHEMA[rtype]:
        if f in ("N", "n"):
            out += _NM
        elif f == "H":
            out += _PL if ptrlike else b"\x00\x01"
        elif f == "I":
            out += _PL * 2 if ptrlike else b"\x00\x00\x00\x01"
        elif f[0] == "B":
            out += (_PL * int(f[1:]))[:int(f[1:])] if ptrlike else bytes(int(f[1:]))
        elif f in ("S", "S*"):
            out += b"\x02" + _PL if ptrlike else b"\x01a"
        elif f == "R":
            out += _PL + b"\xff" if ptrlike else b"\x01"
    return out


def a_all_types_cases():
    """every type mitmproxy.net.dns.types names (and two it does not) with pointer-like RDATA: octets that fit the type's
    schema where the reference decoder has one, raw pointer-like octets for the types whose RDATA is opaque"""
    for ty in ALL_TYPES + [65280, 65535]:
        datas = []
        if ty in R.SCHEMA:
            datas += [schema_rdata(ty, False), schema_rdata(ty, True)]
        if R.rdata_group(ty) != "name-rdata":
            datas += [rdata_of(ty, k) for k in ("c0", "c00c", "c0ff", "ffff")] + [b"\x01" + _PL + b"\x02\x03", _PL * 4]
        for d in datas:
            for nq in (1, 0):
                for sec in ("an", "ar"):
                    body = {"hdr": DEF_HDR, "q": [["a.b", ty, 1]] * nq, "an": [], "ns": [], "ar": []}
                    body[sec] = [["a.b", ty, 1, 60, d]]
                    yield {"A": body}


def a_multi_record_cases(thorough):
    names = ["a.b", "bücher.example", ""] if thorough else ["a.b", "bücher.example"]
    pool = []
    for n in names:
        for ty in (1, 5, 15, 16, 65, 65280):
            for kind in ("typed", "typed-ptrlike", "c00c", "empty"):
                d = rdata_of(ty, kind)
                if d is not None and not (kind in PTR_KINDS and R.rdata_group(ty) == "name-rdata"):
                    pool.append([n, ty, 1, 60, d])
    for nq in (0, 1):
        for r1 in pool:
            for r2 in pool:
                for s1, s2 in (("an", "an"), ("an", "ns"), ("an", "ar"), ("ns", "ar")):
                    body = {"hdr": DEF_HDR, "q": [["a.b", 1, 1]] * nq, "an": [], "ns": [], "ar": []}
                    body[s1] = body[s1] + [r1]
                    body[s2] = body[s2] + [r2]
                    yield {"A": body}
    if thorough:
        small = [r for r in pool if r[0] == "a.b" and r[1] in (1, 15, 16, 65280)]
        for r1 in small:
            for r2 in small:
                for r3 in small:
                    for secs in (("an", "an", "an"), ("an", "ns", "ar")):
                        body = {"hdr": DEF_HDR, "q": [["a.b", 1, 1]], "an": [], "ns": [], "ar": []}
                        for s, r in zip(secs, (r1, r2, r3)):
                            body[s] = body[s] + [r]
                        yield {"A": body}


def build_message(spec):
    h = spec["hdr"]
    return DNSMessage(
        id=h[0], query=bool(h[1]), op_code=h[2], authoritative_answer=bool(h[3]), truncation=bool(h[4]),
        recursion_desired=bool(h[5]), recursion_available=bool(h[6]), reserved=h[7], response_code=h[8],
        questions=[Question(n, ty, c) for n, ty, c in spec["q"]],
        answers=[ResourceRecord(n, ty, c, ttl, bytes(d)) for n, ty, c, ttl, d in spec["an"]],
        authorities=[ResourceRecord(n, ty, c, ttl, bytes(d)) for n, ty, c, ttl, d in spec["ns"]],
        additionals=[ResourceRecord(n, ty, c, ttl, bytes(d)) for n, ty, c, ttl, d in spec["ar"]],
        timestamp=12345.0,
    )


def run_A(case, t: Tally):
    spec = case["A"]
    m = build_message(spec)
    roundtrip(m, "encode_decode_identity", t, case, PLAIN)
    try:
        b = m.packed
    except Exception:
        b = None
    big = b is None or len(b) > 4000
    nrec = len(spec["q"]) + len(spec["an"]) + len(spec["ns"]) + len(spec["ar"])
    t.case(None if big else case, nontrivial=nrec > 0, key=b if b is not None else case)
    t.add("partA_cases")


# ---------------------------------------------------------------------------
# part B: byte strings

FL_Q = R.flags_word(rd=1)
FL_R = R.flags_word(qr=1, rd=1, ra=1)
AB = (b"a", b"b")


def base_messages():
    out = []
    out.append(R.simple_message(0x1234, FL_Q, [(AB, 1, 1)]))
    w = R.Writer(0x1234, FL_R)  # compressed owners, A + AAAA
    w.question(R.wire_name(AB), 1, 1)
    w.record(1, R.wire_name((), 12), 1, 1, 60, b"\x01\x02\x03\x04")
    w.record(1, R.wire_name((b"w",), 12), 28, 1, 60, bytes(range(16)))
    out.append(w.done())
    w = R.Writer(7, FL_R)  # IDN question, CNAME with label+pointer, NS pointing into earlier RDATA, glue
    w.question(R.wire_name((b"xn--bcher-kva", b"b")), 1, 1)
    _, rd1 = w.record(1, R.wire_name((), 12), 5, 1, 300, R.wire_name((b"c",), 12))
    _, rd2 = w.record(2, R.wire_name((), 26), 2, 1, 300, lambda at: R.wire_name((b"ns",), rd1))
    w.record(3, R.wire_name((), rd2), 1, 1, 300, b"\xc0\x00\x02\x01")
    out.append(w.done())
    w = R.Writer(0xC00C, FL_R)  # MX, SOA, TXT, SRV with compression inside RDATA
    w.question(R.wire_name(AB), 15, 1)
    _, mx = w.record(1, R.wire_name((), 12), 15, 1, 60, b"\x00\x0a" + R.wire_name((b"mx",), 12))
    w.record(2, R.wire_name((), 12), 6, 1, 60, R.wire_name((), mx + 2) + R.wire_name((b"h",), 12) + struct.pack("!IIIII", 2024010101, 7200, 3600, 1209600, 60))
    w.record(3, R.wire_name((), 12), 16, 1, 60, b"\x03v=1\x02\x00\xff")
    w.record(3, R.wire_name((b"_s", b"_t"), 12), 33, 1, 60, b"\x00\x01\x00\x02\x01\xbb" + R.wire_name((), mx + 2))
    out.append(w.done())
    w = R.Writer(9, FL_R)  # HTTPS, OPT, unknown type
    w.question(R.wire_name(AB), 65, 1)
    w.record(1, R.wire_name((), 12), 65, 1, 60, b"\x00\x01\x00\x00\x01\x00\x03\x02h2")
    w.record(1, R.wire_name((), 12), 65280, 1, 60, b"\x01\xc0\x0c")
    w.record(3, b"\x00", 41, 1232, 0, b"\x00\x0a\x00\x02ab")
    out.append(w.done())
    w = R.Writer(10, FL_R)  # two questions (second compressed), TXT and HINFO
    w.question(R.wire_name((b"a",)), 1, 1)
    w.question(R.wire_name((b"b",), 12), 16, 1)
    w.record(1, R.wire_name((), 17), 16, 1, 0, b"\x01x\x00")
    w.record(1, R.wire_name((), 12), 13, 1, 0, b"\x03cpu\x02os")
    out.append(w.done())
    for m in out:  # harness self-check: the base messages are well-formed for the independent decoder
        R.decode(m)
    return out


SUBST6 = (0x00, 0x01, 0x3F, 0x40, 0xC0, 0xFF)


def b_trunc_subst_cases(thorough):
    vals = range(256) if thorough else SUBST6
    for m in base_messages():
        for n in range(len(m)):
            yield ("trunc", m[:n])
        yield ("trunc", m)
        for i in range(len(m)):
            for v in vals:
                if v != m[i]:
                    yield ("subst", m[:i] + bytes([v]) + m[i + 1:])
        for s in ([bytes([a]) for a in SUBST6] + [bytes([a, b]) for a in SUBST6 for b in SUBST6]):
            yield ("append", m + s)


def ptr_message():
    w = R.Writer(1, FL_R)
    w.question(R.wire_name(AB), 1, 1)
    w.record(1, R.wire_name((), 12), 5, 1, 60, R.wire_name((b"c",), 12))
    m = w.done()
    assert len(m) == 37 and m[21] == 0xC0 and m[35] == 0xC0
    return m, (12, 21, 35)


def b_ptr_cases(thorough):
    m, pos = ptr_message()
    near = list(range(len(m) + 4))
    targets = range(1 << 14) if thorough else near + [0x0100, 0x3FFF]

    def put(b, p, tgt):
        return b[:p] + struct.pack("!H", 0xC000 | tgt) + b[p + 2:]

    for p in pos:
        for tgt in targets:
            yield ("ptr1", put(m, p, tgt))
    for p1, p2 in itertools.combinations(pos, 2):
        for t1 in near:
            for t2 in near:
                yield ("ptr2", put(put(m, p1, t1), p2, t2))
    if thorough:
        for t1 in near:
            for t2 in near:
                for t3 in near:
                    yield ("ptr3", put(put(put(m, pos[0], t1), pos[1], t2), pos[2], t3))


TINY = (0x00, 0x01, 0xC0, 0x0C, 0xFF)


def b_tiny_cases(maxlen):
    for counts in itertools.product((0, 1), repeat=4):
        hdr = struct.pack("!HHHHHH", 1, 0x0100, *counts)
        for n in range(maxlen + 1):
            for s in itertools.product(TINY, repeat=n):
                yield ("tiny", hdr + bytes(s))


CHAIN_N = (1, 2, 3, 10, 100, 127, 128, 400, 2000, 8000)  # pointers address 14 bits: at most ~8180 distinct 2-octet nodes


def chain_message(n, end, labelled):
    """question name at 12 = pointer to the first of n nodes placed after the question; node i points to node i+1.
    end: 'root' | 'loop-first' | 'loop-self' | 'label'.  labelled: every node carries the label 'a' before its pointer"""
    node = 4 if labelled else 2
    base = 18
    body = bytearray()
    for i in range(n):
        if i == n - 1:
            last = {"root": None, "loop-first": 12, "loop-self": base + i * node, "label": None}[end]
        else:
            last = base + (i + 1) * node
        if i == n - 1 and last is None:
            body += (b"\x01a" if labelled else b"") + (b"\x00" if end == "root" else b"\x01z\x00")
        else:
            body += (b"\x01a" if labelled else b"") + struct.pack("!H", 0xC000 | last)
    return struct.pack("!HHHHHH", 1, 0x0100, 1, 0, 0, 0) + struct.pack("!H", 0xC000 | base) + b"\x00\x01\x00\x01" + bytes(body)


def b_chain_cases(thorough):
    for n in (CHAIN_N if thorough else CHAIN_N[:-1]):
        for end in ("root", "loop-first", "loop-self", "label"):
            for labelled in (False, True):
                if 18 + n * (4 if labelled else 2) > 0x3FFF:
                    continue
                yield ("chain", chain_message(n, end, labelled))


ODD_LABELS = [b"a", b"A", b"a.b", b".", b"a.", b".a", b"xn--bcher-kva", b"xn--BCHER-kva", b"XN--bcher-kva", b"xn--a", b"xn--",
              b"\xe9", b"a b", b"\x00", b"-", b"*", b"a" * 63, b"xn--" + b"a" * 59,
              b"a" * 64, b"a" * 65]  # the last two carry the length octets 0x40/0x41: reserved label types, not labels


def b_name_cases(thorough):
    seqs = [(l,) for l in ODD_LABELS] + [(l1, l2) for l1 in ODD_LABELS for l2 in (ODD_LABELS if thorough else ODD_LABELS[:9])]
    for labels in seqs:
        for term in ("root", "ptr-root", "ptr-name", "ptr-ptr-root"):
            for where in ("question", "owner", "rdata"):
                # tail area: [root octet][name 'z'][pointer to root octet]
                w = R.Writer(1, FL_R)
                if where == "question":
                    namepos = w.here()
                    nm_len = sum(len(l) + 1 for l in labels) + (1 if term == "root" else 2)
                    tail = namepos + nm_len + 4
                else:
                    w.question(R.wire_name((b"q",)), 1, 1)
                    namepos = w.here() + (0 if where == "owner" else 1 + 10)
                    nm_len = sum(len(l) + 1 for l in labels) + (1 if term == "root" else 2)
                    tail = namepos + nm_len + (10 + 4 if where == "owner" else 0)
                tgt = {"root": None, "ptr-root": tail, "ptr-name": tail + 1, "ptr-ptr-root": tail + 4}[term]
                if tgt is not None and tgt > 0x3FFF:
                    continue
                nm = b"".join(bytes([len(l)]) + l for l in labels) + (b"\x00" if tgt is None else struct.pack("!H", 0xC000 | tgt))
                if where == "question":
                    w.question(nm, 1, 1)
                elif where == "owner":
                    w.record(1, nm, 1, 1, 60, b"\x01\x02\x03\x04")
                else:
                    w.record(1, b"\x00", 5, 1, 60, nm)
                assert w.here() == tail, (w.here(), tail, where, term)
                msg = w.done() + b"\x00" + b"\x01z\x00" + struct.pack("!H", 0xC000 | tail)
                yield ("names", msg)


def b_big_cases(thorough):
    hdr = struct.pack("!HHHHHH", 1, 0x8180, 1, 1, 0, 0) + R.wire_name(AB) + b"\x00\x10\x00\x01"
    for ty in ((16, 1, 5) if thorough else (16,)):
        for fill in ((b"\xc0", b"\xc0\x0c", b"\xff", b"\x3f") if thorough else (b"\xc0\x0c", b"\xff")):
            rd = (fill * 65535)[:65535 - len(hdr) - 12]
            yield ("big", hdr + b"\xc0\x0c" + struct.pack("!HHIH", ty, 1, 60, len(rd)) + rd)
    # many records, all owners compressed to the question
    w = R.Writer(1, FL_R)
    w.question(R.wire_name(AB), 1, 1)
    for i in range(1500):
        w.record(1, R.wire_name((), 12), 16, 1, 60, b"\x02\xc0\x0c")
    yield ("big", w.done())
    # a 255-octet name and a longer one reached through a pointer
    long = tuple(b"x" * 63 for _ in range(3)) + (b"y" * 61,)
    yield ("big", R.simple_message(1, FL_Q, [(long, 1, 1)]))
    w = R.Writer(1, FL_R)
    w.question(R.wire_name(long), 1, 1)
    w.record(1, R.wire_name((b"z" * 63,), 12), 1, 1, 60, b"\x01\x02\x03\x04")
    yield ("big", w.done())


def nameform_of(b):
    """-> (reference message or None, reference verdict, name oddity features)"""
    shapes = []
    ref, kind = R.try_decode(b, allow_trailing=True, max_wire=None, shapes=shapes)
    forms = set()
    for s in shapes:  # the names read before the reference decoder gave up count as well
        forms |= R.name_forms(s)
    nf = {"dot_label": "dot-in-label" in forms, "ptr_root": "pointer-to-root-after-labels" in forms,
          "alabel_upper": "alabel-with-uppercase" in forms}
    return ref, ("ok" if ref is not None else "rejects-" + kind), nf


def run_B(case, t: Tally):
    b = bytes(case["B"])
    fam = case["family"]
    hops = R.max_pointer_hops(b)
    hclass = "le128" if hops <= 128 else "gt128"
    ref, verdict, nf = nameform_of(b)
    outcome = []
    first = None
    for api in ("unpack_from", "unpack"):
        if api == "unpack_from":
            st, res = guarded(DNSMessage.unpack_from, len(b), b, 0)
            first = (st, res)
        else:
            st, res = guarded(DNSMessage.unpack, len(b), b)
        if st == "ok" or is_parse_error(res):
            t.ok("decode_total")
            outcome.append("message" if st == "ok" else type(res).__name__)
        else:
            outcome.append(type(res).__name__)
            t.bad("decode_total", {"family": fam, "exc": type(res).__name__, "hops": hclass}, case,
                  "a message, struct.error or ValueError", "%s: %s" % (type(res).__name__, str(res)[:120]))
    t.outcome([outcome, verdict, sorted(k for k, v in nf.items() if v), hclass])
    t.add("refkind_" + verdict)
    t.add("family_" + fam)
    if hops:
        t.add("cases_with_pointers")
    if first[0] == "ok":
        t.add("decoded_messages")
        roundtrip(first[1][1], "decode_encode_decode_fixpoint", t, case, nf)
    nontrivial = len(b) >= 12 and any(b[4:12])
    t.case(case if len(b) < 200 else None, nontrivial=nontrivial, key=b)


# ---------------------------------------------------------------------------
# part H: HTTPS / SVCB RDATA


def h_cases(thorough):
    bases = [
        b"\x00\x01\x00\x00\x01\x00\x03\x02h2",
        b"\x00\x00\x01a\x01b\x00",
        b"\xc0\x0c\x03www\x01a\x00\x00\x01\x00\x06\x02h2\x02h3\x00\x03\x00\x02\x01\xbb\x00\x04\x00\x04\x01\x02\x03\x04\x00\x05\x00\x01\xaa",
    ]
    vals = range(256) if thorough else SUBST6
    for m in bases:
        for n in range(len(m) + 1):
            yield m[:n]
        for i in range(len(m)):
            for v in vals:
                if v != m[i]:
                    yield m[:i] + bytes([v]) + m[i + 1:]
    for l1 in ODD_LABELS:
        yield b"\x00\x01" + bytes([len(l1)]) + l1 + b"\x00"
        for l2 in ODD_LABELS[:9]:
            yield b"\x00\x01" + bytes([len(l1)]) + l1 + bytes([len(l2)]) + l2 + b"\x00" + b"\x00\x03\x00\x02\x01\xbb"


def run_H(case, t: Tally):
    d = bytes(case["H"])
    st, rec = guarded(https_records.unpack, len(d), d)
    if st == "ok" or is_parse_error(rec):
        t.ok("https_rdata_decode_total")
    else:
        t.bad("https_rdata_decode_total", {"family": "https", "exc": type(rec).__name__}, case, "a record, struct.error or ValueError",
              "%s: %s" % (type(rec).__name__, str(rec)[:120]))
    t.outcome(["https", "record" if st == "ok" else type(rec).__name__])
    t.case(case, nontrivial=len(d) > 0, key=[b"H", d])
    t.add("family_https")


# ---------------------------------------------------------------------------


def run_case(case, t: Tally):
    if "A" in case:
        run_A(case, t)
    elif "B" in case:
        run_B(case, t)
    else:
        run_H(case, t)


def chunk(cases):
    t = Tally()
    _G.max_ratio = 0.0
    for c in cases:
        run_case(c, t)
    t.lines_ratio = _G.max_ratio  # a maximum, so carried beside the (summed) counters
    return t


def all_cases(thorough):
    for c in a_header_cases():
        yield c
    for c in a_question_cases(thorough):
        yield c
    for c in a_single_record_cases(thorough):
        yield c
    for c in a_all_types_cases():
        yield c
    for c in a_multi_record_cases(thorough):
        yield c
    seen = set()
    gens = [b_trunc_subst_cases(thorough), b_ptr_cases(thorough), b_tiny_cases(6 if thorough else 4), b_chain_cases(thorough),
            b_name_cases(thorough), b_big_cases(thorough)]
    for g in gens:
        for fam, b in g:
            if b in seen:
                continue
            seen.add(b)
            yield {"B": b, "family": fam}
    for d in h_cases(thorough):
        yield {"H": d}


def run(ctx):
    thorough = ctx.thorough
    ctx.bounds = {
        "partA": {"names": len(A_NAMES), "types": len(A_TYPES), "rdata_kinds": A_KINDS + ["big-c0", "big-00"],
                  "header": "id{0,1,65535} x 2^5 flag bits x opcode{0,15} x z{0,7} x rcode{0,15}, plus opcode x z x rcode in full",
                  "records": "1 per section in full; pairs over %s; triples in thorough" % ("3 names x 6 types x 4 kinds" if thorough else "2 names x 6 types x 4 kinds")},
        "partB": {"base_messages": 6, "substitution_values": 256 if thorough else list(SUBST6), "pointer_targets": "all 2^14" if thorough else "0..len+3, 0x100, 0x3fff",
                  "pointer_positions": "1, 2" + (", 3 at once" if thorough else " at once"), "tiny_strings": "len<=%d over 00,01,c0,0c,ff x counts{0,1}^4" % (6 if thorough else 4),
                  "chain_hops": list(CHAIN_N if thorough else CHAIN_N[:-1]), "odd_labels": len(ODD_LABELS)},
        "step_budget_lines": "20000 + 2000 * len(input)",
    }
    cases = list(all_cases(thorough))
    ctx.log("enumerated %d cases" % len(cases))
    ratios = []
    # quick: a few workers only - the whole quick tier is ~20 s of CPU and worker start-up is not free
    nproc = par.NPROC if thorough else min(4, par.NPROC)
    for r in par.pmap(chunk, cases, nchunks=nproc * 4, nproc=nproc):
        ratios.append(getattr(r, "lines_ratio", 0.0))
        ctx.tally.merge(r)
    ctx.info["max_lines_per_input_octet"] = round(max(ratios) if ratios else 0.0, 1)
    ex = ctx.tally.extra
    ctx.log("families: " + ", ".join("%s=%d" % (k[7:], v) for k, v in sorted(ex.items()) if k.startswith("family_")))
    ctx.log("reference verdicts: " + ", ".join("%s=%d" % (k[8:], v) for k, v in sorted(ex.items()) if k.startswith("refkind_")))
    ctx.log("decoded by mitmproxy: %d of %d byte strings; with pointers: %d; max lines/octet %.1f" % (
        ex.get("decoded_messages", 0), sum(v for k, v in ex.items() if k.startswith("family_") and k != "family_https"),
        ex.get("cases_with_pointers", 0), ctx.info["max_lines_per_input_octet"]))


def replay(case, t: Tally, verbose=False):
    run_case(case, t)
    if verbose:
        if "B" in case:
            b = bytes(case["B"])
            print("  input (%d octets): %s" % (len(b), b[:80].hex() + ("..." if len(b) > 80 else "")))
            print("  reference decoder:", nameform_of(b)[1:], " pointer hops:", R.max_pointer_hops(b))
            for api in (DNSMessage.unpack_from,):
                try:
                    print("  unpack_from ->", repr(api(b, 0))[:400])
                except BaseException as e:
                    print("  unpack_from raised %s: %s" % (type(e).__name__, str(e)[:200]))
        elif "A" in case:
            m = build_message(case["A"])
            b = m.packed
            print("  encoded (%d octets): %s" % (len(b), b[:120].hex()))
            try:
                print("  decoded:", repr(DNSMessage.unpack(b))[:600])
            except BaseException as e:
                print("  unpack raised %s: %s" % (type(e).__name__, e))
