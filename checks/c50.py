"""C50 - content views always render safely; the DNS view re-encodes faithfully.

Engine E on the real `contentviews.prettify_message` / `reencode_message` with the
shipped registry (Python views and the mitmproxy_rs views):

  part "bytes": every byte string up to a length bound over a small alphabet
                x every view name and `auto` x message kinds (HTTP request/response
                with 14 content types, query string, TCP, QUIC/H3, UDP, WebSocket);
  part "seed":  per-view seed documents (JSON, XML, HTML, CSS, JS, GraphQL, protobuf,
                gRPC, msgpack, MQTT, multipart, urlencoded, images, zip, WBXML, HTTP/3,
                socket.io, DNS) with every truncation and every single-byte
                substitution from a small set, rendered by their own view and by `auto`;
  part "dns":   a DNS message set (header fields, names, types, classes, RDATA shapes,
                sections, compression) rendered by the DNS view and re-encoded, for
                UDP, DNSMessage, TCP and HTTP metadata; both sides decoded by the
                independent RFC 1035 decoder `dnsref`.
"""
from __future__ import annotations

import io
import itertools
import logging
import os
import signal
import struct
import threading
import unicodedata
import zipfile
import zlib

from mitmproxy import contentviews
from mitmproxy import dns
from mitmproxy import tcp
from mitmproxy import udp
from mitmproxy import websocket
from mitmproxy.proxy.layers.dns import pack_message
from mitmproxy.test import taddons
from mitmproxy.test import tflow
from wsproto.frame_protocol import Opcode

from vmc import par
from vmc.refs import dnsref as R
from vmc.tally import Tally

META = {
    "level": "exploration",
    "technique": "bounded-exhaustive enumeration (byte strings over a small alphabet, mutated per-view seed documents, a DNS message grammar) x every view x message kinds on the real prettify_message/reencode_message; DNS results decoded by an independent RFC 1035 decoder",
    "claim": "within the stated bounds prettify_message never raises (BaseException included), its text has no Cc character except TAB/LF/CR, and DNS view -> reencode keeps header fields, questions and records of the DNS message",
    "rule": "a case is (view name, message kind, content type, body bytes) or (DNS wire message, metadata kind); distinct = distinct tuple; non-trivial = prettify_message returned non-empty text / the DNS view rendered the message and reencode was attempted",
    "assumptions": [
        "the DNS message whose fields must survive is the DNSMessage object the view renders (DNSMessage.unpack of the wire bytes, packed by mitmproxy's own packer for the reference decode): defects of unpack itself belong to C25/C26 and are only counted as notes",
        "the unedited rendering is ContentviewResult.text as returned by prettify_message (after its control-character escaping)",
        "a rendering with syntax_highlight 'error' is not a DNS-view rendering: nothing is re-encoded then",
        "protobuf_definitions is unset; the HTTP/3 view's per-flow state is reset between cases",
        "'returns' is decided by two hang detectors around every call: a threading.Condition.wait without timeout on the (only) rendering thread is bounded to 50 ms and then reported as a hang (nothing could wake it), and a %d s SIGALRM watchdog covers busy loops" % 120,
        "control character = Unicode general category Cc except TAB, LF, CR",
    ],
}

# ---------------------------------------------------------------------------
# message kinds

CTYPES = [None, "text/plain", "text/html", "application/json", "application/xml", "text/css", "application/javascript",
          "application/x-www-form-urlencoded", "multipart/form-data; boundary=b", "image/png", "application/octet-stream",
          "application/grpc", "application/dns-message", "application/x-protobuf", "application/zip", "application/msgpack",
          "application/vnd.ms-sync.wbxml", "image/svg+xml"]
# Content-Type header values outside the type/subtype[; param=value]* form: no slash, empty, parameters only, garbage
# octets, odd separators, the header given twice (a message's metadata is built from whatever the peer sent)
ODD_CTYPES = ["", " ", "json", "*", "text; charset=utf-8", "; charset=utf-8", ";", "/", "text/", "/html", "a/b/c", "text/html;;;",
              "text/html; charset", "text/html; =x", "TEXT/HTML; CHARSET=UTF-8", "text /html", "multipart/form-data", "multipart/form-data; boundary=",
              b"\xff\xfe", b"text/\xc2\x9b", b"application/json\x00", "x" * 300, ["text/plain", "application/json"], ["json", "text/html"], ["", ""]]
ODD_DATA = [b"", b"\x00", b"\x1b", b"{", b"<", b"\xff", b'{"a": 1}', b"<a>b</a>", b"a=1&b=2", b"--b\r\n\r\nx\r\n--b--"]
KINDS_EXPLICIT = ["http_resp", "http_req_multipart", "http_req_query", "tcp", "tcp_h3b", "udp", "ws_text", "ws_binary"]
KINDS_AUTO_EXTRA = ["http_req", "http_req_query", "http_resp_badgzip", "tcp", "tcp_h3b", "tcp_h3u", "tcp_dns", "udp", "udp_dns",
                    "ws_text", "ws_binary", "ws_socketio"]


def set_header(headers, name: bytes, value: bytes):
    headers.fields = tuple(x for x in headers.fields if x[0].lower() != name.lower()) + ((name, value),)


def mk_message(kind, data, ctype=None):
    """-> (message, flow)"""
    if kind.startswith("http"):
        f = tflow.tflow(resp=True)
        if kind.startswith("http_resp"):
            m = f.response
        else:
            m = f.request
        if kind == "http_req_query":
            m.data.path = b"/p?" + data
            m.data.content = b""
        else:
            m.data.content = data
        if kind == "http_req_multipart":
            ctype = "multipart/form-data; boundary=b"
        if ctype is not None:
            # str: one header; bytes: one header with exactly these octets; list: the header repeated
            values = ctype if isinstance(ctype, list) else [ctype]
            m.headers.fields = tuple(x for x in m.headers.fields if x[0].lower() != b"content-type") + tuple(
                (b"content-type", v if isinstance(v, bytes) else v.encode()) for v in values)
        if kind == "http_resp_badgzip":
            set_header(m.headers, b"content-encoding", b"gzip")
        return m, f
    if kind.startswith("tcp"):
        f = tflow.ttcpflow(messages=[tcp.TCPMessage(True, data)])
        if kind.startswith("tcp_h3"):
            f.client_conn.alpn = b"h3"
            f.metadata["quic_is_unidirectional"] = kind == "tcp_h3u"
        if kind == "tcp_dns":
            f.server_conn.address = ("192.0.2.1", 53)
        return f.messages[0], f
    if kind.startswith("udp"):
        f = tflow.tudpflow(messages=[udp.UDPMessage(True, data)])
        if kind == "udp_dns":
            f.server_conn.address = ("192.0.2.1", 53)
        return f.messages[0], f
    if kind.startswith("ws"):
        f = tflow.twebsocketflow()
        if kind == "ws_socketio":
            f.request.data.path = b"/socket.io/?EIO=4&transport=websocket"
        op = Opcode.BINARY if kind == "ws_binary" else Opcode.TEXT
        f.websocket.messages = [websocket.WebSocketMessage(op, False, data)]
        return f.websocket.messages[0], f
    raise AssertionError(kind)


# ---------------------------------------------------------------------------
# part "bytes"

ALPHA_Q = [0x00, 0x1B, 0x7B, 0x3C, 0x80, 0xFF, 0xC2, 0x9B]
ALPHA_6 = [0x00, 0x1B, 0x7B, 0x3C, 0x80, 0xFF]


def strings(alpha, maxlen, minlen=0):
    for n in range(minlen, maxlen + 1):
        for tup in itertools.product(alpha, repeat=n):
            yield bytes(tup)


def view_names():
    return contentviews.registry.available_views()


def bytes_cases(tier):
    thorough = tier == "thorough"
    vs = [v for v in view_names() if v != "auto"]
    out = []
    short = list(strings(ALPHA_Q, 2))
    three = list(strings(ALPHA_Q, 3, 3))
    for v in vs:
        for k in KINDS_EXPLICIT:
            for s in short:
                out.append({"part": "bytes", "view": v, "kind": k, "ctype": None, "data": s})
            if thorough or k in ("http_resp", "tcp"):
                for s in three:
                    out.append({"part": "bytes", "view": v, "kind": k, "ctype": None, "data": s})
        if thorough:
            for s in strings(ALPHA_6, 4, 4):
                out.append({"part": "bytes", "view": v, "kind": "http_resp", "ctype": None, "data": s})
    for s in short + three:
        for ct in CTYPES:
            out.append({"part": "bytes", "view": "auto", "kind": "http_resp", "ctype": ct, "data": s})
        for k in KINDS_AUTO_EXTRA:
            out.append({"part": "bytes", "view": "auto", "kind": k, "ctype": None, "data": s})
    # odd Content-Type values: every view and auto, request and response
    for ct in ODD_CTYPES:
        for v in view_names():
            for k in ("http_resp", "http_req"):
                for s in (ODD_DATA if thorough or v == "auto" else ODD_DATA[0:7:2]):
                    out.append({"part": "bytes", "view": v, "kind": k, "ctype": ct, "data": s})
    return out


# ---------------------------------------------------------------------------
# part "seed"

def _png():
    def chunk(t, d):
        return struct.pack("!I", len(d)) + t + d + struct.pack("!I", zlib.crc32(t + d) & 0xFFFFFFFF)
    return (b"\x89PNG\r\n\x1a\n" + chunk(b"IHDR", struct.pack("!IIBBBBB", 1, 1, 8, 2, 0, 0, 0))
            + chunk(b"tEXt", b"Comment\x00a\x1bb") + chunk(b"IDAT", zlib.compress(b"\x00\xff\x00\x00")) + chunk(b"IEND", b""))


def _zip():
    buf = io.BytesIO()
    with zipfile.ZipFile(buf, "w") as z:
        z.writestr(zipfile.ZipInfo("a\x1b.txt", date_time=(2020, 1, 1, 0, 0, 0)), b"x")
    return buf.getvalue()


DNS_SEED = R.simple_message(0x1234, R.flags_word(qr=1, rd=1, ra=1), [((b"a", b"b"), 16, 1)],
                            [((b"a", b"b"), 16, 1, 60, b"\x03abc"), ((b"a", b"b"), 5, 1, 60, R.wire_name((b"c", b"d")))])

SEEDS = [
    # name, view, kind, ctype, data
    ("json", "json", "http_resp", "application/json", b'{"a": [1, "x\\u001b\\u009b", true, null], "b": {"c": "\xc3\xa9"}}'),
    ("xml", "xml/html", "http_resp", "application/xml", b'<?xml version="1.0"?><a b="c"><d>t&amp;</d><!-- c --><![CDATA[x]]></a>'),
    ("html", "xml/html", "http_resp", "text/html", b'<!DOCTYPE html><html><body><p class="x">hi<br></p><script>var a=1;</script></body></html>'),
    ("css", "viewcss", "http_resp", "text/css", b"a{color:red}/* c */ @media x{b{c:d}}"),
    ("js", "javascript", "http_resp", "application/javascript", b'function f(a){return a+"s";}// c\nvar x = {a:1};'),
    ("graphql", "graphql", "http_req", "application/json", b'{"query":"query Q { a { b } }","variables":{"x":1},"operationName":"Q"}'),
    ("graphql-batch", "graphql", "http_req", "application/json", b'[{"query":"{ a }","variables":{}}]'),
    ("protobuf", "protobuf", "http_resp", "application/x-protobuf", bytes.fromhex("0896011203616263 1a020801 250000803f".replace(" ", ""))),
    ("grpc", "grpc", "http_resp", "application/grpc", bytes.fromhex("00000000060896011201 61".replace(" ", ""))),
    ("grpc-compressed", "grpc", "http_resp", "application/grpc", bytes.fromhex("0100000003 089601".replace(" ", ""))),
    ("msgpack", "msgpack", "http_resp", "application/msgpack", bytes.fromhex("82a16101a1629301 02a2781b".replace(" ", ""))),
    ("mqtt-connect", "mqtt", "tcp", None, bytes.fromhex("100e00044d5154540402003c00026964")),
    ("mqtt-publish", "mqtt", "tcp", None, bytes.fromhex("3007000361 2f62 681b".replace(" ", ""))),
    ("mqtt-subscribe", "mqtt", "tcp", None, bytes.fromhex("8208000100036 12f6200".replace(" ", ""))),
    ("multipart", "multipart form", "http_req_multipart", None,
     b'--b\r\nContent-Disposition: form-data; name="k\x1b"\r\n\r\nv\x1b\r\n--b\r\nContent-Disposition: form-data; name="f"; filename="x"\r\n\r\n\x00\xff\r\n--b--\r\n'),
    ("urlencoded", "url-encoded", "http_req", "application/x-www-form-urlencoded", b"a=1&b=%1b%00&c=\xc3\xa9&a=2&d"),
    ("query", "query", "http_req_query", None, b"a=1&b=%1b%00&c=\xc2\x9b&a=2"),
    ("png", "image", "http_resp", "image/png", _png()),
    ("gif", "image", "http_resp", "image/gif", b"GIF89a\x01\x00\x01\x00\x80\x00\x00\x00\x00\x00\xff\xff\xff!\xfe\x03a\x1bb\x00,\x00\x00\x00\x00\x01\x00\x01\x00\x00\x02\x02D\x01\x00;"),
    ("jpeg", "image", "http_resp", "image/jpeg", bytes.fromhex("ffd8ffe000104a46494600010100000100010000fffe0005611b62ffd9")),
    ("ico", "image", "http_resp", "image/x-icon", bytes.fromhex("000001000100101000000100200068040000160000")),
    ("zip", "zip archive", "http_resp", "application/zip", _zip()),
    ("wbxml", "wbxml", "http_resp", "application/vnd.ms-sync.wbxml", bytes.fromhex("03016a00455c4f5003431b000101010 1".replace(" ", ""))),
    ("h3-headers", "http/3 frames", "tcp_h3b", None,
     b"\x01\x1d\x00\x00\xd1\xc1\xd7P\x8a\x08\x9d\\\x0b\x81p\xdcx\x0f\x03_P\x88%\xb6P\xc3\xab\xbc\xda\xe0\xdd"),
    ("h3-data", "http/3 frames", "tcp_h3b", None, b"\x00\x04a\x1bb\x9b"),
    ("h3-settings", "http/3 frames", "tcp_h3u", None, b"\x00\x04\r\x06\xff\xff\xff\xff\xff\xff\xff\xff\x01\x00\x07\x00"),
    ("socketio-event", "socket.io", "ws_socketio", None, b'42["ev\x1b",{"a":1}]'),
    ("socketio-open", "socket.io", "ws_socketio", None, b'0{"sid":"x","upgrades":[]}'),
    ("dns-udp", "dns", "udp_dns", None, DNS_SEED),
    ("dns-tcp", "dns", "tcp_dns", None, struct.pack("!H", len(DNS_SEED)) + DNS_SEED),
    ("dns-doh", "dns", "http_resp", "application/dns-message", DNS_SEED),
    ("hexdump", "hex dump", "http_resp", "application/octet-stream", bytes(range(0, 40)) + b"\x7f\x80\x9b\xff"),
    ("hexstream", "hex stream", "tcp", None, b"\x00\x1b\x9b\xff"),
    ("raw", "raw", "http_resp", "text/plain", b"a\x1bb\xc2\x9bc\x7fd\x00e\r\n\tf\xffg"),
    ("svg", "xml/html", "http_resp", "image/svg+xml", b'<svg xmlns="http://www.w3.org/2000/svg"><text>\x1b</text></svg>'),
]
SUBST = [0x00, 0x1B, 0x7B, 0x3C, 0x80, 0xFF]
SUBST_T = SUBST + [0xC2, 0x9B, 0x0A, 0x22]


def seed_cases(tier):
    thorough = tier == "thorough"
    vs = [v for v in view_names() if v != "auto"]
    out = []
    for name, view, kind, ctype, data in SEEDS:
        variants = [data]
        for i in range(len(data)):
            variants.append(data[:i])
        for i in range(len(data)):
            for b in (SUBST_T if thorough else SUBST):
                if data[i] != b:
                    variants.append(data[:i] + bytes([b]) + data[i + 1:])
        if thorough:
            for i in range(len(data)):
                variants.append(data[:i] + data[i + 1:])
        for d in variants:
            out.append({"part": "seed", "seed": name, "view": view, "kind": kind, "ctype": ctype, "data": d})
            out.append({"part": "seed", "seed": name, "view": "auto", "kind": kind, "ctype": ctype, "data": d})
        for v in vs:  # the intact seed through every other view
            if v != view:
                out.append({"part": "seed", "seed": name, "view": v, "kind": kind, "ctype": ctype, "data": data})
    return out


# ---------------------------------------------------------------------------
# part "dns": message grammar -> wire bytes (written with dnsref.Writer, never with mitmproxy)

BASE_HDR = {"id": 0x1234, "qr": 1, "opcode": 0, "aa": 0, "tc": 0, "rd": 1, "ra": 1, "z": 0, "rcode": 0}
NAME_AB = (b"a", b"b")
NAMES = [
    (), (b"a",), (b"a", b"b"), (b"A", b"b"), (b"x" * 63,), (b"xn--bcher-kva", b"example"), (b"_sip", b"_tcp", b"a"), (b"*", b"a"),
    (b"1", b"2"), (b"a.b",), (b"a b",), (b"a\x1b[31m",), (b"true",), (b"null",), (b"0x10",), (b"1e3",), (b"~",), (b"-",), (b":", b"#"),
    (b'"',), (b"'",), (b"\\",), (b"a\x00b",), (b"a\x7f",), (b"a\nb",), (b" a",), (b"\xc3\xa9",),
]
QTYPES = [1, 28, 16, 65, 255, 99, 0, 65535, 2, 5, 12, 15, 6, 33, 41]
CLASSES = [1, 3, 255, 65535, 0]
TTLS = [0, 60, 0x7FFFFFFF, 0x80000000, 0xFFFFFFFF]
_NM = R.wire_name(NAME_AB)
RDATA = {
    1: {"fits": b"\x01\x02\x03\x04", "short": b"\x01\x02\x03", "long": b"\x01\x02\x03\x04\x05", "empty": b""},
    28: {"fits": bytes(range(16)), "short": b"\x01\x02\x03\x04", "empty": b""},
    2: {"fits": _NM, "root": b"\x00", "ptr": b"\xc0\x0c", "ctl": R.wire_name((b"a\x1bb",)), "dotlabel": R.wire_name((b"a.b", b"c")), "misfit": b"\xff\xff", "empty": b""},
    5: {"fits": _NM, "root": b"\x00", "ptr": b"\xc0\x0c", "ctl": R.wire_name((b"a\x1bb",)), "dotlabel": R.wire_name((b"a.b", b"c")), "misfit": b"\xff\xff", "upper": R.wire_name((b"WWW", b"b"))},
    12: {"fits": _NM, "ptr": b"\xc0\x0c", "misfit": b"\x05ab"},
    16: {"fits": b"\x03abc", "multi": b"\x03abc\x02de", "empty": b"", "undecodable": b"\x02\xff\xfe", "hexlike": b"\x060x6162", "ctl": b"\x02a\x1b",
         "long": b"\xff" + b"x" * 255, "newline": b"\x03a\nb", "quote": b"\x04a\"'b", "colon": b"\x05a: #b", "lead-space": b"\x02 a", "trail-space": b"\x02a ",
         "yes": b"\x03yes", "null": b"\x04null", "digit": b"\x011", "utf8": b"\x02\xc3\xa9", "c1": b"\x02\xc2\x9b", "nul": b"\x01\x00", "nolen": b"abc",
         "marker": b"\x190xfffe (invalid TXT data)"},
    65: {"fits": b"\x00\x01\x00", "params": b"\x00\x01\x00\x00\x01\x00\x06\x02h2\x02h3\x00\x03\x00\x02\x01\xbb\x00\x05\x00\x02ab", "alias": b"\x00\x00" + _NM,
         "misfit": b"\x00", "unsorted": b"\x00\x01\x00\x00\x03\x00\x02\x01\xbb\x00\x01\x00\x03\x02h2", "empty": b""},
    15: {"fits": b"\x00\x0a" + _NM, "empty": b""},
    6: {"fits": _NM + R.wire_name((b"h",)) + struct.pack("!IIIII", 1, 2, 3, 4, 5)},
    33: {"fits": b"\x00\x01\x00\x02\x01\xbb" + _NM},
    41: {"fits": b"\x00\x0a\x00\x02ab", "empty": b""},
    99: {"fits": b"\x00\x01\xff", "empty": b""},
    65280: {"fits": b"\x01\xc0\x0c"},
}


B16 = [0, 1, 0x7FFF, 0x8000, 0xFFFF]
B32 = [0, 1, 0x7FFFFFFF, 0x80000000, 0xFFFFFFFF]
GENERIC_RDATA = {"name": _NM, "root": b"\x00", "4-octets": b"\x01\x02\x03\x04", "16-octets": bytes(range(16)), "string": b"\x03abc",
                 "empty": b"", "misfit": b"\xff\xff", "name-then-more": _NM + b"\x00\x01"}


def all_types():
    """every type number the implementation's table names, plus numbers it has no name for"""
    from mitmproxy.net.dns import types as T
    named = {v for k, v in vars(T).items() if k.isupper() and isinstance(v, int) and not isinstance(v, bool) and 0 <= v <= 0xFFFF}
    return sorted(named | {0, 99, 65280, 65535})


def spec(hdr=None, q=None, an=None, ns=None, ar=None, compress=False):
    h = dict(BASE_HDR)
    h.update(hdr or {})
    return {"hdr": h, "q": [list(x) for x in (q if q is not None else [(NAME_AB, 1, 1)])], "an": [list(x) for x in (an or [])],
            "ns": [list(x) for x in (ns or [])], "ar": [list(x) for x in (ar or [])], "compress": compress}


def wire_of(sp):
    h = sp["hdr"]
    w = R.Writer(h["id"], R.flags_word(h["qr"], h["opcode"], h["aa"], h["tc"], h["rd"], h["ra"], h["z"], h["rcode"]))
    first_q = None
    for labels, t, c in sp["q"]:
        at = w.question(R.wire_name([bytes(l) for l in labels]), t, c)
        if first_q is None:
            first_q = (at, [bytes(l) for l in labels])
    for sec, key in ((1, "an"), (2, "ns"), (3, "ar")):
        for labels, t, c, ttl, rdata in sp[key]:
            labels = [bytes(l) for l in labels]
            if sp["compress"] and first_q and labels == first_q[1] and labels:
                nm = R.wire_name((), first_q[0])
            else:
                nm = R.wire_name(labels)
            w.record(sec, nm, t, c, ttl, bytes(rdata))
    return w.done()


def dns_specs(tier):
    thorough = tier == "thorough"
    out = []
    base_an = [(NAME_AB, 1, 1, 60, RDATA[1]["fits"])]
    out.append(spec(an=base_an))
    out.append(spec(hdr={"qr": 0, "ra": 0}))
    # header fields, one at a time (thorough: product of opcode x z x rcode and of the flag bits)
    for k, vals in (("id", (0, 1, 0xFFFF)), ("qr", (0,)), ("opcode", range(1, 16)), ("aa", (1,)), ("tc", (1,)), ("rd", (0,)), ("ra", (0,)),
                    ("z", range(1, 8)), ("rcode", range(1, 16))):
        for v in vals:
            out.append(spec(hdr={k: v}, an=base_an))
    if thorough:
        for op in range(16):
            for z in range(8):
                for rc in range(16):
                    out.append(spec(hdr={"opcode": op, "z": z, "rcode": rc}, an=base_an))
        for bits in itertools.product((0, 1), repeat=5):
            for z in (0, 5):
                out.append(spec(hdr=dict(zip(("qr", "aa", "tc", "rd", "ra"), bits), z=z), an=base_an))
    else:
        for z in (1, 7):
            for qr in (0, 1):
                out.append(spec(hdr={"z": z, "qr": qr, "opcode": 2, "rcode": 3}))
    # questions
    out.append(spec(q=[]))
    for n in NAMES:
        out.append(spec(q=[(n, 1, 1)]))
    for ty in QTYPES:
        for c in (CLASSES if thorough else CLASSES[:2]):
            out.append(spec(q=[(NAME_AB, ty, c)]))
    for c in CLASSES:
        out.append(spec(q=[(NAME_AB, 1, c)]))
    out.append(spec(q=[(NAME_AB, 1, 1), ((b"c",), 28, 1)]))
    if thorough:
        for n in NAMES:
            for ty in (16, 65535):
                for c in (1, 65535):
                    out.append(spec(q=[(n, ty, c)]))
            out.append(spec(q=[(NAME_AB, 1, 1), (n, 1, 1)]))
    # single records: every type x RDATA shape, in every section; owner names; classes; ttls
    for ty, shapes in RDATA.items():
        for shape, rd in shapes.items():
            for sec in (("an", "ns", "ar") if thorough or shape in ("fits", "undecodable") else ("an",)):
                out.append(spec(q=[(NAME_AB, ty, 1)], **{sec: [(NAME_AB, ty, 1, 60, rd)]}))
            out.append(spec(q=[(NAME_AB, ty, 1)], an=[(NAME_AB, ty, 1, 60, rd)], compress=True))
    # every record type mitmproxy has a name for, and types it has none for, each with RDATA of every generic shape
    # (a well-formed name, the root name, 4 / 16 octets, a character-string, nothing, octets that fit no schema)
    for ty in all_types():
        for shape, rd in GENERIC_RDATA.items():
            out.append(spec(q=[(NAME_AB, ty, 1)], an=[(NAME_AB, ty, 1, 60, rd)]))
            if thorough:
                out.append(spec(q=[(NAME_AB, 1, 1)], ar=[((b"c",), ty, 1, 0, rd)], compress=True))
    # integer fields at {0, 1, largest positive signed, sign bit, all ones} - in the header, the fixed part of questions and
    # records, and inside typed RDATA (HTTPS/SVCB priority, parameter keys and lengths, MX preference, SRV numbers, SOA numbers)
    for v in B16:
        out.append(spec(hdr={"id": v}, an=base_an))
        out.append(spec(q=[(NAME_AB, 1, v)]))
        out.append(spec(q=[(NAME_AB, v, 1)], an=[(NAME_AB, v, v, 60, b"\x00\x01")]))
        for ty in (65, 64):
            out.append(spec(q=[(NAME_AB, ty, 1)], an=[(NAME_AB, ty, 1, 60, struct.pack("!H", v) + b"\x00")]))          # priority, root target
            out.append(spec(q=[(NAME_AB, ty, 1)], an=[(NAME_AB, ty, 1, 60, struct.pack("!H", v) + _NM + b"\x00\x03\x00\x02\x01\xbb")]))
            out.append(spec(q=[(NAME_AB, ty, 1)], an=[(NAME_AB, ty, 1, 60, b"\x00\x01\x00" + struct.pack("!HH", v, 0))]))  # parameter key, empty value
            out.append(spec(q=[(NAME_AB, ty, 1)], an=[(NAME_AB, ty, 1, 60, b"\x00\x01\x00" + struct.pack("!HH", v, 2) + b"ab")]))
            out.append(spec(q=[(NAME_AB, ty, 1)], an=[(NAME_AB, ty, 1, 60, b"\x00\x01\x00\x00\x07" + struct.pack("!H", v) + b"ab")]))  # parameter length (mostly misfit)
        out.append(spec(q=[(NAME_AB, 15, 1)], an=[(NAME_AB, 15, 1, 60, struct.pack("!H", v) + _NM)]))                 # MX preference
        out.append(spec(q=[(NAME_AB, 33, 1)], an=[(NAME_AB, 33, 1, 60, struct.pack("!HHH", v, v, v) + _NM)]))          # SRV priority weight port
    for v in B32:
        out.append(spec(an=[(NAME_AB, 1, 1, v, RDATA[1]["fits"])]))
        out.append(spec(q=[(NAME_AB, 6, 1)], ns=[(NAME_AB, 6, 1, v, _NM + R.wire_name((b"h",)) + struct.pack("!IIIII", v, v, v, v, v))]))
    for n in ((0, 1, 2, 255, 256) if thorough else (0, 2, 256)):                                                         # section counts
        out.append(spec(q=[((b"q%d" % i,), 1, 1) for i in range(n)]))
        out.append(spec(an=[((b"r%d" % i,), 1, 1, i, RDATA[1]["fits"]) for i in range(n)]))
    for n in NAMES:
        out.append(spec(an=[(n, 1, 1, 60, RDATA[1]["fits"])]))
        if thorough:
            out.append(spec(q=[(NAME_AB, 5, 1)], an=[(n, 5, 1, 60, R.wire_name(n) if all(0 < len(l) < 64 for l in n) else _NM)]))
    for c in CLASSES:
        for ttl in TTLS:
            out.append(spec(an=[(NAME_AB, 1, c, ttl, RDATA[1]["fits"])]))
            if thorough:
                out.append(spec(q=[(NAME_AB, 16, 1)], ar=[(NAME_AB, 16, c, ttl, RDATA[16]["fits"])]))
    # several records
    pool = [(NAME_AB, 1, 1, 60, RDATA[1]["fits"]), (NAME_AB, 16, 1, 0, RDATA[16]["multi"]), ((b"c",), 5, 1, 300, RDATA[5]["fits"]),
            (NAME_AB, 65, 1, 60, RDATA[65]["params"]), ((), 41, 1232, 0, RDATA[41]["fits"]), (NAME_AB, 99, 1, 60, RDATA[99]["fits"])]
    if thorough:
        pool += [(NAME_AB, 16, 1, 60, RDATA[16]["undecodable"]), (NAME_AB, 1, 1, 60, RDATA[1]["short"]), (NAME_AB, 15, 1, 60, RDATA[15]["fits"])]
    for r1 in pool:
        for r2 in pool:
            for s1, s2 in ((("an", "an"), ("an", "ns"), ("an", "ar"), ("ns", "ar")) if thorough else (("an", "an"), ("ns", "ar"))):
                body = {"an": [], "ns": [], "ar": []}
                body[s1] = body[s1] + [r1]
                body[s2] = body[s2] + [r2]
                out.append(spec(**body, compress=True))
    return out


DNS_KINDS = ["udp", "dnsmsg", "tcp", "http"]


def dns_cases(tier):
    out = []
    seen = set()
    for sp in dns_specs(tier):
        w = wire_of(sp)
        if w in seen:
            continue
        seen.add(w)
        for k in DNS_KINDS:
            out.append({"part": "dns", "wire": w, "kind": k})
    return out


# ---------------------------------------------------------------------------
# running

_S = {}
WATCHDOG_S = 120


class Hang(BaseException):
    """the render call can never return (BaseException so that the views' `except Exception` cannot swallow it)"""


_orig_wait = threading.Condition.wait


def _guarded_wait(self, timeout=None):
    """A render runs on one thread and starts none: a wait without timeout inside it can never be woken.
    Such a wait is bounded here and reported as a hang instead of blocking the checker forever."""
    if timeout is None and _S.get("in_render") and threading.current_thread() is threading.main_thread():
        if _orig_wait(self, 0.05):
            return True
        raise Hang("blocking wait without timeout that no other thread can wake: the call would never return")
    return _orig_wait(self, timeout)


def _alarm(signum, frame):
    if _S.get("in_render"):
        raise Hang("no result after %d s" % WATCHDOG_S)


def guarded(fn, *args):
    """run one call into mitmproxy under the hang detectors"""
    _S["in_render"] = True
    signal.setitimer(signal.ITIMER_REAL, WATCHDOG_S)
    try:
        return fn(*args)
    finally:
        _S["in_render"] = False
        signal.setitimer(signal.ITIMER_REAL, 0)


def setup():
    if _S.get("pid") != os.getpid():
        threading.Condition.wait = _guarded_wait
        signal.signal(signal.SIGALRM, _alarm)
        tctx = taddons.context()
        logging.getLogger("mitmproxy.contentviews").setLevel(logging.CRITICAL + 1)
        logging.getLogger("mitmproxy.contentviews._registry").setLevel(logging.CRITICAL + 1)
        _S.update(pid=os.getpid(), tctx=tctx)
    contentviews.http3.connections.clear()


def controls(text):
    out = {}
    for ch in text:
        if unicodedata.category(ch) == "Cc" and ch not in "\t\n\r":
            cls = "c0" if ord(ch) < 32 else ("del" if ord(ch) == 127 else "c1")
            out.setdefault(cls, set()).add("U+%04X" % ord(ch))
    return out


def ctype_class(ct):
    """none | wellformed (type/subtype before any ';') | malformed | repeated - judged by the check itself"""
    if ct is None:
        return "none"
    if isinstance(ct, list):
        return "repeated"
    b = ct if isinstance(ct, bytes) else ct.encode()
    head = b.split(b";", 1)[0]
    parts = head.split(b"/")
    ok = len(parts) == 2 and all(p.strip() and all(32 < c < 127 for c in p.strip()) for p in parts)
    return "wellformed" if ok else "malformed"


def kind_class(kind):
    return kind.split("_")[0]


def render(message, flow, view, t: Tally, case, feats):
    """prettify_message under the two general clauses; returns the result or None"""
    try:
        res = guarded(contentviews.prettify_message, message, flow, view)
    except KeyboardInterrupt:
        raise
    except BaseException as e:
        t.bad("never_raises", dict(feats, exc=type(e).__name__), case, "a ContentviewResult", "%s: %s" % (type(e).__name__, str(e)[:300]))
        return None
    ok = isinstance(getattr(res, "text", None), str)
    t.judge("never_raises", ok, dict(feats, exc="not-text"), case, "text", repr(res)[:200])
    if not ok:
        return None
    bad = controls(res.text)
    used = (res.view_name or "none").lower()
    if not bad:
        t.ok("text_has_no_control_chars")
    for cls, chars in sorted(bad.items()):
        t.bad("text_has_no_control_chars", {"used_view": used, "cc": cls, "error_text": res.syntax_highlight == "error"}, case,
              "no Cc character except TAB LF CR", {"controls": sorted(chars), "text": res.text[:200]})
    return res


def one_render(case, t: Tally, verbose=False):
    setup()
    message, flow = mk_message(case["kind"], case["data"], case["ctype"])
    feats = {"view": case["view"], "kind": kind_class(case["kind"]), "ct": ctype_class(case["ctype"])}
    res = render(message, flow, case["view"], t, case, feats)
    if verbose and res is not None:
        print("  view=%r highlight=%r description=%r\n  text=%r" % (res.view_name, res.syntax_highlight, res.description, res.text[:600]))
    if res is not None:
        if res.syntax_highlight == "error":
            t.add("rendered_as_error_text")
        elif "failed to parse" in res.description:
            t.add("auto_fell_back_to_raw")
        else:
            t.add("rendered_by_view")
        t.outcome((case["view"], (res.view_name or "").lower(), res.syntax_highlight, kind_class(case["kind"]), bool(res.text)))
    keep = case["part"] == "seed" and res is not None and res.syntax_highlight != "error" and len(case["data"]) < 80
    t.case(case if keep else None, nontrivial=res is not None and bool(res.text),
           key=[case["view"], case["kind"], case["ctype"], case["data"]])


TYPE_NAMES = {1: "A", 28: "AAAA", 2: "NS", 5: "CNAME", 12: "PTR", 16: "TXT", 65: "HTTPS"}


def rdata_class(rr):
    ty, rd = rr["type"], rr["rdata"]
    if ty == 16:
        try:
            rd.decode("utf-8")
            return "utf8"
        except UnicodeDecodeError:
            return "undecodable"
    if ty in (1, 28):
        return "fits" if len(rd) == (4 if ty == 1 else 16) else "misfit"
    if ty in (2, 5, 12):
        if not rr.get("fits") or not rr.get("fields"):
            return "misfit"
        labels = [l for f in rr["fields"] if f[0] == "name" for l in f[1]]
        if any(b"." in l for l in labels):
            return "name-dotlabel"
        return "name"
    if ty == 65:
        return "https"
    return "opaque"


def meaning(msg):
    return {"header": R.header_meaning(msg), "questions": R.question_meaning(msg),
            "records": {sec: [R.record_meaning(rr) for rr in msg[sec]] for sec in ("an", "ns", "ar")}}


def first_difference(ref, got):
    """coarse description of the first component that differs -> features"""
    hr, hg = R.header_meaning(ref), R.header_meaning(got)
    for k in R.HEADER_KEYS:
        if hr[k] != hg[k]:
            return {"differs": "header." + k}
    if hr["counts"] != hg["counts"]:
        return {"differs": "counts"}
    for i, (a, b) in enumerate(zip(R.question_meaning(ref), R.question_meaning(got))):
        if a != b:
            which = "name" if a[0] != b[0] else ("type" if a[1] != b[1] else "class")
            return {"differs": "question." + which}
    for sec in ("an", "ns", "ar"):
        for ra, rb in zip(ref[sec], got[sec]):
            ma, mb = R.record_meaning(ra), R.record_meaning(rb)
            if ma != mb:
                which = [k for k in ("name", "type", "class", "ttl", "data") if ma[k] != mb[k]][0]
                return {"differs": "record." + which, "rtype": R.TYPE_NAMES.get(ra["type"], "other"), "rdata": rdata_class(ra)}
    return None


def one_dns(case, t: Tally, verbose=False):
    setup()
    wire, kind = case["wire"], case["kind"]
    transport = "tcp" if kind in ("tcp", "http") else "udp"
    framed = struct.pack("!H", len(wire)) + wire if transport == "tcp" else wire
    try:
        M = dns.DNSMessage.unpack(wire)
    except Exception:
        M = None
    if kind == "udp":
        message, flow = mk_message("udp_dns", framed)
    elif kind == "tcp":
        message, flow = mk_message("tcp_dns", framed)
    elif kind == "http":
        message, flow = mk_message("http_resp", framed, "application/dns-message")
    else:
        if M is None:
            t.case(None, nontrivial=False)
            t.add("dns_unpack_refused")
            return
        flow = tflow.tdnsflow(req=M)
        message = M
    feats = {"view": "dns", "kind": "dns-" + kind}
    res = render(message, flow, "dns", t, case, feats)
    if verbose and res is not None:
        print("  highlight=%r\n  text=%s" % (res.syntax_highlight, res.text[:1500]))
    attempted = False
    if res is not None and M is not None and res.syntax_highlight != "error":
        try:
            ref = R.decode(M.packed)
        except Exception as e:
            ref = None
            t.note("DNSMessage.packed of an unpacked message not decodable by dnsref: %s" % type(e).__name__)
        orig, _ = R.try_decode(wire)
        if ref is not None and orig is not None and meaning(orig) != meaning(ref):
            t.add("dns_unpack_changes_meaning(C26)")
        if ref is not None:
            attempted = True
            f = {"kind": "dns-" + kind}
            try:
                out = guarded(contentviews.reencode_message, res.text, message, flow, "dns")
            except KeyboardInterrupt:
                raise
            except BaseException as e:
                out = None
                t.bad("dns_reencode_same_message", dict(f, differs="raises", exc=type(e).__name__), case, "bytes", "%s: %s" % (type(e).__name__, str(e)[:300]))
            if out is not None:
                body = out
                okframe = True
                if transport == "tcp":
                    okframe = len(out) >= 2 and struct.unpack("!H", out[:2])[0] == len(out) - 2
                    body = out[2:]
                got, why = R.try_decode(body)
                if not okframe or got is None:
                    t.bad("dns_reencode_same_message", dict(f, differs="undecodable"), case, meaning(ref), {"frame_ok": okframe, "decode": why, "bytes": out[:80]})
                else:
                    diff = first_difference(ref, got)
                    if diff is None and meaning(ref) != meaning(got):
                        diff = {"differs": "other"}
                    if verbose:
                        print("  reencoded: %s\n  difference: %s" % (body.hex(), diff))
                    t.judge("dns_reencode_same_message", diff is None, dict(f, **(diff or {})), case, meaning(ref), meaning(got))
                    t.outcome(("dns", kind, diff and diff.get("differs")))
    elif res is not None and res.syntax_highlight == "error":
        t.add("dns_view_error_text" if M is not None else "dns_view_error_text_unpack_refused")
    t.case(case if attempted and kind == "udp" and len(wire) < 60 else None, nontrivial=attempted, key=[wire, kind])


def one(case, t: Tally, verbose=False):
    if case["part"] == "dns":
        one_dns(case, t, verbose)
    else:
        one_render(case, t, verbose)


def chunk(cs):
    t = Tally()
    for c in cs:
        one(c, t)
    return t


def run(ctx):
    bc = bytes_cases(ctx.tier)
    sc = seed_cases(ctx.tier)
    dc = dns_cases(ctx.tier)
    ctx.bounds = {
        "views": view_names(),
        "bytes_alphabet": ["%02x" % b for b in ALPHA_Q],
        "bytes_maxlen": {"explicit view x %s" % KINDS_EXPLICIT: 3 if ctx.thorough else "2 (3 for http_resp and tcp)",
                         "explicit view x http_resp over %s" % ["%02x" % b for b in ALPHA_6]: 4 if ctx.thorough else 3,
                         "auto x content types / kinds": 3},
        "content_types": CTYPES, "auto_kinds": KINDS_AUTO_EXTRA,
        "odd_content_types": [repr(x) if len(x) < 40 else repr(x[:10]) + "..." for x in ODD_CTYPES],
        "odd_content_type_cases": "every view and auto x request/response x %d bodies (%d for explicit views in quick)" % (len(ODD_DATA), 4),
        "seeds": [s[0] for s in SEEDS], "seed_mutations": "every truncation, every single-byte substitution from %s%s" % (
            ["%02x" % b for b in (SUBST_T if ctx.thorough else SUBST)], ", every single-byte deletion" if ctx.thorough else ""),
        "dns_messages": len(dc) // len(DNS_KINDS), "dns_metadata_kinds": DNS_KINDS,
        "cases": {"bytes": len(bc), "seed": len(sc), "dns": len(dc)},
    }
    ctx.log("cases: bytes %d, seed %d, dns %d" % (len(bc), len(sc), len(dc)))
    par.pmap_tally(chunk, dc + sc + bc, ctx.tally, nchunks=par.NPROC * 8)
    x = ctx.tally.extra
    ctx.log("rendered by view %d, error text %d, auto->raw fallback %d; dns: error text %d, unpack refused %d" % (
        x.get("rendered_by_view", 0), x.get("rendered_as_error_text", 0), x.get("auto_fell_back_to_raw", 0),
        x.get("dns_view_error_text", 0) + x.get("dns_view_error_text_unpack_refused", 0), x.get("dns_unpack_refused", 0)))


def replay(case, t: Tally, verbose=False):
    one(case, t, verbose=verbose)
