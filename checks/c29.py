"""C29 - raw TCP / UDP relaying is exact and every flow ends exactly once.

Engine X + F on the real stack: `World` runs the real ProxyConnectionHandler with the
real ReverseProxy mode layer, the real NextLayer addon and the real TCPLayer / UDPLayer
(mode reverse:tcp://10.0.0.1:80 resp. reverse:udp://10.0.0.1:53) on the virtual loop.
For each configuration (protocol, connection strategy, addon policy, held message
hooks, ignored host) EVERY sequence of environment actions up to a depth is executed:

    c_data / s_data     a tagged segment / datagram from the client / the server
    c_eof  / s_eof      the peer closes its sending side (TCP half-close; UDP: socket closed)
    connect_ok / _fail  outcome of the upstream connect (any time it is pending)
    hook                complete the held tcp_message / udp_message hook
    inject_c / inject_s the real `inject.tcp` / `inject.udp` command of the Proxyserver addon

After the sequence every execution is closed out (pending connect refused, hooks
completed, all sockets closed) so that the end-of-life clauses are judged on every path.
Everything mitmproxy writes, half-closes and closes is logged in order together with the
hooks (instrumented mock writers), so ordering clauses can be judged.
"""
from __future__ import annotations

from mitmproxy import tcp, udp

from vmc import par
from vmc.drivers.world import World
from vmc.explore import _dev_rec
from vmc.tally import HarnessError, Tally, digest

META = {
    "level": "model_checking",
    "technique": "exhaustive DFS over all environment action sequences up to a depth (data, injections, half-closes in both orders, connect outcomes, hook completion points) on the real ConnectionHandler + TCPLayer/UDPLayer on a virtual event loop, every execution closed out",
    "claim": "for every configuration and every action sequence within the depth bound each peer receives exactly the recorded message contents (incl. addon edits and injected messages) in order, a first TCP half-close is passed on as a half-close while the other direction keeps flowing, every flow fires exactly one of end/error, and nothing is written to a peer after that hook",
    "rule": "an execution is (configuration, action sequence); distinct = distinct tuple; non-trivial = the flow started (tcp_start/udp_start fired) or the upstream connect failed",
    "assumptions": [
        "one flow per connection (reverse mode); payloads are short tagged segments - TCP segment boundaries are not compared, UDP datagram boundaries are",
        "a read error is treated like EOF by server.py (same code path), so only EOF is enumerated",
        "message hooks are the only hooks held (tcp_message / udp_message); start/end hooks complete immediately",
        "the ignore_hosts variant has no flow: only the relay and half-close clauses are judged there",
    ],
}

MAX_DATA = 2  # tagged messages per side
MAX_INJECT = 1  # injections per direction


class W29(World):
    """World with instrumented writers: self.io is one ordered log of hooks, writes, half-closes and closes"""

    def __init__(self, *a, **kw):
        self.io = []
        super().__init__(*a, **kw)
        self._instrument(self.client.w, "c")

    def _instrument(self, wr, side):
        io = self.io
        ow, oe, oc = wr.write, wr.write_eof, wr.close

        def write(d):
            io.append(["write", side, bytes(d)])
            return ow(d)

        def write_eof():
            io.append(["eof", side])
            return oe()

        def close():
            if not wr.closed:
                io.append(["close", side])
            return oc()

        wr.write, wr.write_eof, wr.close = write, write_eof, close

    async def _open(self, transport, host, port):
        r, w = await super()._open(transport, host, port)
        self._instrument(w, "s")
        return r, w

    async def _on_hook(self, name, data):
        self.io.append(["hook", name])
        await super()._on_hook(name, data)


def make_policy(pol):
    def policy(name, data, world):
        if name not in ("tcp_message", "udp_message"):
            return
        m = data.messages[-1]
        if pol == "edit":
            m.content = b"E(" + m.content + b")"
        elif pol == "empty":
            # the addon empties the first message of each direction (an empty UDP datagram is a datagram;
            # an empty TCP segment is nothing on the wire); injections in this configuration are empty too
            if sum(1 for x in data.messages if x.from_client == m.from_client) == 1:
                m.content = b""

    return policy if pol != "pass" else None


def make_suspend(hold):
    def suspend(name, data, world):
        return name in ("tcp_message", "udp_message")

    return suspend if hold == "msg" else None


class Exec:
    def __init__(self, proto, strategy, pol, hold, ignore, depth):
        self.proto, self.strategy, self.pol, self.hold, self.ignore, self.depth = proto, strategy, pol, hold, ignore, depth

    def spec(self):
        return [self.proto, self.strategy, self.pol, self.hold, self.ignore]

    # ------------------------------------------------------------------ environment
    def server(self, w):
        for e in w.servers:
            if e.state == "open":
                return e
        return None

    def flow(self, w):
        for name, data in w.hook_objs:
            if name in ("tcp_start", "udp_start"):
                return data
        return None

    def decided(self, w):
        """the NextLayer addon has chosen TCPLayer / UDPLayer (also true for the ignore variant, which has no flow)"""
        return any(name == "next_layer" and data.layer is not None for name, data in w.hook_objs)

    def enabled(self, w, st):
        acts = []
        if w.done:
            return acts
        if w.suspended:
            acts.append("hook")
        if w.pending_connects():
            acts.append("connect_ok")
            acts.append("connect_fail")
        srv = self.server(w)
        if not st["c_eof"]:
            if st["c_data"] < MAX_DATA:
                acts.append("c_data")
        if srv is not None and not st["s_eof"]:
            if st["s_data"] < MAX_DATA:
                acts.append("s_data")
        if not st["c_eof"]:
            acts.append("c_eof")
        if srv is not None and not st["s_eof"]:
            acts.append("s_eof")
        fl = self.flow(w)
        if fl is not None:
            # an injection is only generated into a direction that is still open: its (spoofed) sender has not
            # closed, and for an injection "from the server" the upstream connection exists
            if st["inj_c"] < MAX_INJECT and not st["c_eof"]:
                acts.append("inject_c")
            if st["inj_s"] < MAX_INJECT and not st["s_eof"] and srv is not None:
                acts.append("inject_s")
        return acts

    def apply(self, w, st, a):
        if a == "hook":
            w.complete_hook(0)
        elif a == "connect_ok":
            w.connect_ok(w.pending_connects()[0])
        elif a == "connect_fail":
            w.connect_fail(w.pending_connects()[0])
            st["connect_failed"] = True
        elif a == "c_data":
            d = b"<c%d>" % st["c_data"]
            st["c_data"] += 1
            st["sent_c"].append(d)
            w.client_send(d)
        elif a == "s_data":
            d = b"<s%d>" % st["s_data"]
            st["s_data"] += 1
            st["sent_s"].append(d)
            w.server_send(self.server(w), d)
        elif a == "c_eof":
            st["c_eof"] = True
            w.client.r.eof = True
            w.client_eof()
        elif a == "s_eof":
            st["s_eof"] = True
            e = self.server(w)
            e.r.eof = True
            w.server_eof(e)
        elif a in ("inject_c", "inject_s"):
            from_client = a == "inject_c"
            k = "inj_c" if from_client else "inj_s"
            d = b"<i%s%d>" % (b"c" if from_client else b"s", st[k])
            if self.pol == "empty":
                d = b""  # inject.udp / inject.tcp with an empty payload
            st[k] += 1
            fl = self.flow(w)
            ps = w.master.addons.get("proxyserver")
            # the injection must be recorded and relayed if the relay is up and cannot end before the layer gets to it:
            # upstream connected, no end/error hook yet; TCP: the spoofed sender has not closed (guaranteed by enabled());
            # UDP: nobody has closed (any close ends a UDP flow).  The *target* may well have half-closed its own
            # sending side - it still reads.
            ended = any(n.endswith(("_end", "_error")) and n.startswith(("tcp_", "udp_")) for n, _ in w.hooks)
            owed = self.server(w) is not None and not ended and not w.done
            # while the layer waits for a held hook the injection is queued, and closes that arrive later can end the
            # flow before the layer gets to it (all_done looks at the connection states, not at the queue): not owed
            if w.suspended or w.pending_connects():
                owed = False
            if self.proto == "udp" and (st["c_eof"] or st["s_eof"]):
                owed = False
            if not d:
                owed = False  # an empty injection has no tag to look for; its relay is judged by the datagram list
            st["injected"].append({"tag": d, "from_client": from_client, "owed": owed,
                                   "target_half_closed": st["s_eof"] if from_client else st["c_eof"]})
            # the real command; to_client = not from_client
            if self.proto == "tcp":
                w.do(ps.inject_tcp, fl, not from_client, d)
            else:
                w.do(ps.inject_udp, fl, not from_client, d)
        else:  # pragma: no cover
            raise HarnessError(a)

    # ------------------------------------------------------------------ one execution
    def run(self, prefix, t: Tally, verbose=False):
        opts = {"connection_strategy": self.strategy}
        if self.ignore:
            opts["ignore_hosts"] = [r"10\.0\.0\.1"]
        mode = "reverse:tcp://10.0.0.1:80" if self.proto == "tcp" else "reverse:udp://10.0.0.1:53"
        w = W29(mode=mode, opts=opts, transport=self.proto, policy=make_policy(self.pol), suspend=make_suspend(self.hold))
        ps = w.master.addons.get("proxyserver")
        st = {"c_data": 0, "s_data": 0, "c_eof": False, "s_eof": False, "inj_c": 0, "inj_s": 0, "sent_c": [], "sent_s": [],
              "connect_failed": False, "half": None, "gone_at": None, "gone_pending": False, "injected": []}
        choices, widths, costs, trace = [], [], [], []
        case = {"spec": self.spec(), "choices": None}
        reg = None
        try:
            w.start()
            cc = w.handler.client
            reg = cc.id if self.proto == "tcp" else (cc.peername, cc.sockname)
            ps.connections[reg] = w.handler  # what ServerInstance.handle_stream does around handle_client()
            while len(trace) < self.depth:
                acts = self.enabled(w, st)
                if not acts:
                    break
                k = prefix[len(choices)] if len(choices) < len(prefix) else 0
                if k >= len(acts):
                    raise HarnessError("choice out of range while replaying %r" % (prefix,))
                choices.append(k)
                widths.append(len(acts))
                costs.append(0)
                a = acts[k]
                trace.append(a)
                pre_io = len(w.io)
                connect_pending = bool(w.pending_connects()) and a not in ("connect_ok", "connect_fail")
                self.apply(w, st, a)
                if w.done and st["gone_at"] is None:
                    st["gone_at"] = len(trace)
                    st["gone_pending"] = bool(w.suspended) or connect_pending
                t.transitions += 1
                self.step_clauses(w, st, a, trace, choices, pre_io, t)
                t.state([self.spec(), trace, [x[:2] for x in w.io]])
            case["choices"] = list(choices)
            closed = w.close_out()
            self.final_clauses(w, st, trace, case, closed, t, verbose)
        finally:
            if reg is not None:
                ps.connections.pop(reg, None)
            w.dispose()
        return choices, widths, costs

    def feats(self, trace, **kw):
        f = {"proto": self.proto, "strategy": self.strategy, "policy": self.pol, "hold": self.hold, "ignore": self.ignore}
        f.update(kw)
        return f

    # ------------------------------------------------------------------ clauses judged while the sequence runs
    def step_clauses(self, w, st, a, trace, choices, pre_io, t: Tally):
        if self.proto != "tcp":
            return
        case = {"spec": self.spec(), "choices": list(choices)}
        # a first half-close by one peer, noticed while the other peer is still sending
        if a in ("c_eof", "s_eof") and st["half"] is None and not (st["c_eof"] and st["s_eof"]):
            st["half"] = {"from": a[0], "judged": False}
        h = st["half"]
        if h is None or h["judged"]:
            return
        other = "s" if h["from"] == "c" else "c"
        if (other == "s" and st["s_eof"]) or (other == "c" and st["c_eof"]):
            h["judged"] = True  # the other peer closed too before the layer got to it: a full close is fine
            return
        if w.suspended or w.pending_connects():
            return  # the layer has not processed the close yet
        if not w.done and not self.decided(w) and not st["connect_failed"]:
            return  # NextLayer still buffers the close: judged once the protocol is chosen
        h["judged"] = True
        srv = self.server(w)
        if not self.decided(w) or srv is None or w.done:
            return  # no relay was established (protocol undecided / connect failed): nothing to propagate
        ev = [x for x in w.io if x[0] in ("eof", "close") and x[1] == other]
        ok = bool(ev) and ev[0][0] == "eof" and not any(x[0] == "close" and x[1] == other for x in w.io)
        t.judge("half_close_propagated_as_half_close", ok, self.feats(trace, first_close=h["from"]), case,
                "write_eof() on the %s socket, socket not closed" % other, {"io": [x[:2] for x in w.io][-8:], "trace": trace})

    # ------------------------------------------------------------------ clauses judged after close-out
    def final_clauses(self, w, st, trace, case, closed, t: Tally, verbose):
        fl = self.flow(w)
        names = [n for n, _ in w.hooks]
        pre = "tcp" if self.proto == "tcp" else "udp"
        started = names.count(pre + "_start")
        ends = names.count(pre + "_end")
        errs = names.count(pre + "_error")
        nontrivial = bool(started) or st["connect_failed"]
        t.case(case if (len(t.samples) < 2 and len(trace) >= 4 and started) else None, nontrivial=nontrivial, key=case)
        first_close = "-"
        for a in trace:
            if a in ("c_eof", "s_eof"):
                first_close = a[0]
                break
        feats = self.feats(trace, first_close=first_close, connect_failed=st["connect_failed"],
                           # the client's connection ended while a message hook (or the connect) was still pending
                           client_gone_with_pending=st["gone_pending"])
        got_s = [x[2] for x in w.io if x[0] == "write" and x[1] == "s"]
        got_c = [x[2] for x in w.io if x[0] == "write" and x[1] == "c"]
        t.outcome([self.spec(), names, got_s, got_c, [x[:2] for x in w.io if x[0] != "write"]])
        if verbose:
            print("trace", trace)
            print("hooks", names)
            print("io", w.io)
            if fl is not None:
                print("messages", [(m.from_client, m.content) for m in fl.messages], "live", fl.live, "error", fl.error)
            print("closed", closed, "errors", w.errors[:2])
        if w.errors:
            t.note("server logged: " + w.errors[0][:70])
        # --- exact relay
        if fl is not None:
            want_s = [m.content for m in fl.messages if m.from_client]
            want_c = [m.content for m in fl.messages if not m.from_client]
        elif self.ignore:
            want_s, want_c = list(st["sent_c"]), list(st["sent_s"])
        else:
            want_s, want_c = [], []
        if fl is not None or self.ignore:
            # a peer that has gone away by its own action cannot receive any more: the tail may be missing.
            # client gone = its connection handler finished during the sequence (UDP: socket closed; TCP: it closed
            # after mitmproxy had already closed the other direction); server gone = UDP socket closed.
            client_gone = st["gone_at"] is not None
            server_gone = self.proto == "udp" and "s_eof" in trace
            # without a flow nothing is "recorded": what the client sent before it vanished while the upstream
            # connect / a hook was pending may be dropped
            s_prefix_ok = server_gone or (self.ignore and (st["gone_pending"] or st["connect_failed"]))

            def same(got, want, prefix_ok):
                if self.proto == "tcp":
                    g, wn = b"".join(got), b"".join(want)
                    return g == wn or (prefix_ok and wn.startswith(g))
                return got == want or (prefix_ok and want[: len(got)] == got)

            ok = same(got_s, want_s, s_prefix_ok) and same(got_c, want_c, client_gone)
            t.judge("peer_gets_recorded_contents_in_order", ok, feats, case, {"to_server": want_s, "to_client": want_c},
                    {"to_server": got_s, "to_client": got_c, "trace": trace})
        else:
            t.judge("peer_gets_recorded_contents_in_order", not got_s and not got_c, feats, case, "nothing relayed without a flow",
                    {"to_server": got_s, "to_client": got_c, "trace": trace})
        # --- "including ... injected messages": an injection into a running relay is a message of the flow
        if fl is not None and not st["gone_pending"]:
            for inj in st["injected"]:
                if not inj["owed"]:
                    continue
                n = sum(1 for m in fl.messages if m.from_client == inj["from_client"] and inj["tag"] in m.content)
                t.judge("injected_message_recorded_once", n == 1, dict(feats, target_half_closed=inj["target_half_closed"]), case,
                        "exactly one recorded message carrying %r" % inj["tag"],
                        {"recorded": [[m.from_client, m.content] for m in fl.messages], "trace": trace})
        # --- exactly one end or error per flow
        if started:
            t.judge("exactly_one_end_or_error", started == 1 and ends + errs == 1, feats, case, "one of %s_end / %s_error" % (pre, pre),
                    {"hooks": names, "trace": trace, "closed": closed})
            # --- nothing relayed after it
            idx = [i for i, x in enumerate(w.io) if x[0] == "hook" and x[1] in (pre + "_end", pre + "_error")]
            if idx:
                late = [x for x in w.io[idx[0] + 1:] if x[0] == "write"]
                t.judge("nothing_relayed_after_end", not late, feats, case, "no write after the end/error hook", {"late": late, "trace": trace})
                latehooks = [x[1] for x in w.io[idx[0] + 1:] if x[0] == "hook" and x[1] == pre + "_message"]
                t.judge("nothing_relayed_after_end", not latehooks, feats, case, "no message hook after the end/error hook", {"late": latehooks, "trace": trace})
        else:
            t.judge("exactly_one_end_or_error", ends + errs == 0, feats, case, "no end/error hook without a start hook", names)


def specs(tier):
    out = []
    for proto in ("tcp", "udp"):
        for strategy in ("eager", "lazy"):
            for pol in ("pass", "edit"):
                for hold in ("none", "msg"):
                    out.append((proto, strategy, pol, hold, False))
            out.append((proto, strategy, "empty", "none", False))
            out.append((proto, strategy, "pass", "none", True))
    return out


_DEPTH = 5


def chunk_fn(items):
    t = Tally()
    for spec, prefix in items:
        ex = Exec(*spec, _DEPTH)
        _dev_rec(ex, tuple(prefix), 0, 0, t)
    return t


def run(ctx):
    global _DEPTH
    _DEPTH = depth = ctx.pick(6, 7)
    sp = specs(ctx.tier)
    ctx.bounds = {"depth": depth, "configurations": len(sp), "protocols": ["tcp", "udp"], "connection_strategy": ["eager", "lazy"],
                  "policy": ["pass", "edit every message", "empty the first message of each direction + empty injections"], "held_hooks": ["none", "tcp_message/udp_message"], "ignore_hosts_variant": True,
                  "max_data_per_side": MAX_DATA, "max_injections_per_direction": MAX_INJECT}
    # determinism self-test
    a = Exec("tcp", "lazy", "edit", "msg", False, depth).run((1, 0, 0), Tally())
    b = Exec("tcp", "lazy", "edit", "msg", False, depth).run((1, 0, 0), Tally())
    if a != b:
        raise HarnessError("execution is not deterministic")
    # split the tree below every configuration at its first two choice levels
    tasks = []
    for spec in sp:
        ex = Exec(*spec, depth)
        c0, w0, _ = ex.run((), Tally())
        for i in range(w0[0] if w0 else 1):
            c1, w1, _ = ex.run((i,), Tally())
            n2 = w1[1] if len(w1) > 1 else 0
            if n2 == 0:
                tasks.append((spec, (i,)))
            for j in range(n2):
                tasks.append((spec, (i, j)))
    ctx.log("%d configurations, depth %d, %d subtrees" % (len(sp), depth, len(tasks)))
    par.pmap_tally(chunk_fn, tasks, ctx.tally, nchunks=16 * 8)


def replay(case, t, verbose=False):
    spec = case["spec"]
    ex = Exec(*spec, len(case["choices"]))
    ex.run(tuple(case["choices"]), t, verbose=verbose)
