"""flowgen - shared helpers of the flow-file checks (C36, C37, C38).

* deterministic builders for one base flow of every type (HTTP, HTTP+WebSocket, TCP, UDP, DNS)
* the field-deviation grammar: for every serialised field a small domain of type-correct
  values (None / empty / typical / extreme); a *deviation* sets one field of the live flow
  objects to one value of its domain
* an independent, strictly typed comparison of flow states (tuple == list because the file
  format has no tuple; dict key order ignored; int/float/bool/bytes/str never conflated)
* an independent framing walker for tnetstring files (record boundaries, structural bytes)
* a reader wrapper that classifies how FlowReader.stream ended
* a schema of the current flow state ("valid current flow")

Nothing here samples: every domain is a fixed list, enumerated in canonical order.
"""
from __future__ import annotations

import io
import math
import os
import signal

import mitmproxy
from mitmproxy import certs
from mitmproxy import connection
from mitmproxy import dns
from mitmproxy import exceptions
from mitmproxy import flow
from mitmproxy import http
from mitmproxy import tcp
from mitmproxy import udp
from mitmproxy import websocket
from mitmproxy.io import compat
from mitmproxy.io import FlowReader
from mitmproxy.io import FlowWriter
from mitmproxy.proxy.mode_specs import ProxyMode

FTYPES = ["http", "ws", "tcp", "udp", "dns"]
T0 = 946681200.0

REPO_ROOT = os.path.dirname(os.path.dirname(os.path.abspath(mitmproxy.__file__)))
DATA_DIR = os.path.join(REPO_ROOT, "test", "mitmproxy", "data")
_NETDATA = os.path.join(REPO_ROOT, "test", "mitmproxy", "net", "data")

_CERTS: dict[str, bytes] = {}


def cert(name="ec_cert.pem") -> certs.Cert:
    if name not in _CERTS:
        with open(os.path.join(_NETDATA, name), "rb") as f:
            _CERTS[name] = f.read()
    return certs.Cert.from_pem(_CERTS[name])


def uid(n: int) -> str:
    return "00000000-0000-4000-8000-%012d" % n


def reset_module_state():
    """module-level state of mitmproxy that survives between cases"""
    compat.client_connections.clear()
    compat.server_connections.clear()
    compat._websocket_handshakes.clear()


# ---------------------------------------------------------------------------
# base flows


def mk_client(n=1) -> connection.Client:
    return connection.Client(
        id=uid(100 + n),
        peername=("127.0.0.1", 50000 + n),
        sockname=("127.0.0.1", 8080),
        mitmcert=None,
        timestamp_start=T0,
        timestamp_tls_setup=T0 + 1,
        timestamp_end=T0 + 6,
        sni="example.com",
        cipher="TLS_AES_128_GCM_SHA256",
        alpn=b"http/1.1",
        tls_version="TLSv1.3",
        error=None,
        tls=True,
        certificate_list=[],
        alpn_offers=[b"h2", b"http/1.1"],
        cipher_list=["TLS_AES_128_GCM_SHA256"],
        proxy_mode=ProxyMode.parse("regular"),
    )


def mk_server(n=1) -> connection.Server:
    return connection.Server(
        id=uid(200 + n),
        address=("example.com", 443),
        peername=("192.0.2.1", 443),
        sockname=("198.51.100.7", 40000 + n),
        timestamp_start=T0 + 2,
        timestamp_tcp_setup=T0 + 2.25,
        timestamp_tls_setup=T0 + 2.5,
        timestamp_end=T0 + 5,
        sni="example.com",
        alpn=b"http/1.1",
        tls_version="TLSv1.3",
        via=None,
        error=None,
        tls=True,
        certificate_list=[],
        alpn_offers=[b"http/1.1"],
        cipher="TLS_AES_128_GCM_SHA256",
        cipher_list=[],
    )


def mk_request(path=b"/path", ws=False) -> http.Request:
    if ws:
        headers = http.Headers(((b"Host", b"example.com"), (b"Connection", b"Upgrade"), (b"Upgrade", b"websocket"),
                                (b"Sec-WebSocket-Version", b"13"), (b"Sec-WebSocket-Key", b"MTIzNA==")))
    else:
        headers = http.Headers(((b"Host", b"example.com"), (b"Content-Length", b"7")))
    return http.Request(
        host="example.com", port=443, method=b"GET" if ws else b"POST", scheme=b"https", authority=b"example.com",
        path=path, http_version=b"HTTP/1.1", headers=headers, content=b"" if ws else b"content", trailers=None,
        timestamp_start=T0 + 1.5, timestamp_end=T0 + 1.75,
    )


def mk_response(ws=False) -> http.Response:
    if ws:
        return http.Response(
            http_version=b"HTTP/1.1", status_code=101, reason=b"Switching Protocols",
            headers=http.Headers(((b"Connection", b"Upgrade"), (b"Upgrade", b"websocket"))), content=b"",
            trailers=None, timestamp_start=T0 + 3, timestamp_end=T0 + 3.25,
        )
    return http.Response(
        http_version=b"HTTP/1.1", status_code=200, reason=b"OK",
        headers=http.Headers(((b"Content-Length", b"7"), (b"Set-Cookie", b"a=b"), (b"set-cookie", b"c=d"))),
        content=b"message", trailers=None, timestamp_start=T0 + 3, timestamp_end=T0 + 4,
    )


def mk_wsdata() -> websocket.WebSocketData:
    ws = websocket.WebSocketData()
    ws.messages = [
        websocket.WebSocketMessage(2, True, b"hello binary \x00\xff", T0 + 3.5),
        websocket.WebSocketMessage(1, True, b"hello text", T0 + 3.75),
        websocket.WebSocketMessage(1, False, b"it's me", T0 + 4.0, False, False),
    ]
    ws.closed_by_client = False
    ws.close_code = 1000
    ws.close_reason = "bye"
    ws.timestamp_end = T0 + 4.5
    return ws


def mk_dnsmsg(response=False) -> dns.DNSMessage:
    q = [dns.Question("dns.google", 1, 1)]
    rr = [dns.ResourceRecord("dns.google", 1, 1, 32, b"\x08\x08\x08\x08"),
          dns.ResourceRecord("dns.google", 1, 1, 32, b"\x08\x08\x04\x04")]
    return dns.DNSMessage(
        id=42, query=not response, op_code=0, authoritative_answer=False, truncation=False, recursion_desired=True,
        recursion_available=response, reserved=0, response_code=0, questions=q, answers=rr if response else [],
        authorities=[], additionals=[], timestamp=T0 + (3 if response else 1.5),
    )


def base(ftype: str, n: int = 1) -> flow.Flow:
    """the default flow of a type; `n` varies ids/ports so that several flows in one file differ"""
    c, s = mk_client(n), mk_server(n)
    if ftype in ("http", "ws"):
        f = http.HTTPFlow(c, s)
        f.request = mk_request(ws=ftype == "ws")
        f.response = mk_response(ws=ftype == "ws")
        if ftype == "ws":
            f.websocket = mk_wsdata()
    elif ftype in ("tcp", "udp"):
        if ftype == "tcp":
            f = tcp.TCPFlow(c, s)
            f.messages = [tcp.TCPMessage(True, b"hello", T0 + 3), tcp.TCPMessage(False, b"it's me \x00\xff", T0 + 3.5)]
        else:
            c.transport_protocol = "udp"
            s.transport_protocol = "udp"
            f = udp.UDPFlow(c, s)
            f.messages = [udp.UDPMessage(True, b"hello", T0 + 3), udp.UDPMessage(False, b"it's me \x00\xff", T0 + 3.5)]
    elif ftype == "dns":
        c.transport_protocol = "udp"
        s.transport_protocol = "udp"
        c.proxy_mode = ProxyMode.parse("dns")
        f = dns.DNSFlow(c, s)
        f.request = mk_dnsmsg(False)
        f.response = mk_dnsmsg(True)
    else:
        raise ValueError(ftype)
    f.id = uid(n * 10 + FTYPES.index(ftype))
    f.timestamp_created = T0 + 1.5
    return f


# ---------------------------------------------------------------------------
# value domains (kind label, value).  Kinds are a small fixed vocabulary: they are the
# `kind` feature of a violation.

STR_SMALL = [("empty", ""), ("ascii", "abc"), ("nonascii", "ü-€-\U0001f600"), ("control", "a\nb\x00c\x7f\x1b[0m")]
STR_BIG = STR_SMALL + [("big", "xé" * 35000)]
BYTES_SMALL = [("empty", b""), ("ascii", b"abc"), ("nonutf8", b"\xff\xfe\x00\x80"), ("structural", b"3:a,b]}~#;")]
BYTES_BIG = BYTES_SMALL + [("all256", bytes(range(256))), ("big", b"\x00\xffab" * 17500)]
TS = [("zero", 0.0), ("intzero", 0), ("int", 946681200), ("frac", 1700000000.123456), ("huge", 1e18), ("neg", -1.5)]
BOOL = [("false", False), ("true", True)]
ADDR2 = [("ipv4", ("127.0.0.1", 22)), ("empty", ("", 0)), ("name-maxport", ("ü.example", 65535)), ("ipv6", ("::1", 53))]
ADDR4 = ADDR2 + [("ipv6-4tuple", ("::1", 8080, 0, 0)), ("ipv6-scope", ("fe80::1", 1, 5, 3))]
TLS_VERSIONS = ["SSLv3", "TLSv1", "TLSv1.1", "TLSv1.2", "TLSv1.3", "DTLSv0.9", "DTLSv1", "DTLSv1.2", "QUICv1"]
PROXY_MODES = [("regular", "regular"), ("transparent", "transparent"), ("socks5", "socks5"), ("dns", "dns"),
               ("upstream", "upstream:http://proxy:8080"), ("reverse", "reverse:https://example.com"),
               ("reverse-listen", "reverse:dns://8.8.8.8@53"), ("regular-listen", "regular@127.0.0.1:8081"),
               ("local", "local:curl"), ("wireguard", "wireguard")]
VIA = [("none", None), ("http", ("http", ("proxy", 8080))), ("https-nonascii", ("https", ("ü.example", 1))),
       ("quic", ("quic", ("::1", 65535)))]
HEADERS = [
    ("empty", ()),
    ("dup", ((b"a", b"1"), (b"A", b"2"), (b"a", b"1"))),
    ("nonutf8", ((b"x-\xff", b"\xfe\x00"),)),
    ("emptyval", ((b"a", b""), (b"", b"v"))),
    ("ows", ((b" a ", b" v \r\n x"),)),
    ("many", tuple((b"h%d" % i, b"v" * i) for i in range(100))),
]
OPCODES = [0, 1, 2, 8, 9, 10]
METADATA = [
    ("empty", {}),
    ("flat", {"k": "v", "": "", "ü": "ü"}),
    ("nested", {"a": {"b": [1, 2.5, True, None, b"\xff", "ü", {"c": []}, [[]]]}, "l": []}),
    ("bools", {"t": True, "f": False, "n": None, "one": 1, "zero": 0, "fone": 1.0}),
    ("floats", {"f": 0.1, "tiny": 5e-324, "max": 1.7976931348623157e308, "negzero": -0.0, "e": 1e22}),
    ("nonfinite", {"inf": math.inf, "ninf": -math.inf, "nan": math.nan}),
    ("bigint", {"i": -(2 ** 63) - 1, "j": 2 ** 200}),
    ("tuple", {"t": (1, ("a", b"b")), "e": ()}),
    ("keys", {"a": {7: "int", b"b": "bytes", "s": "str", 2.5: "float", None: "none", True: "bool"}}),
    ("bytes", {"b": bytes(range(256))}),
    ("typical", {"replay": True, "proxyauth": ("user", "p:ass")}),
]


class Dev:
    """one field set to one value of its domain. `core` devs form the pair space of the quick tier."""
    __slots__ = ("field", "kind", "fn", "core", "order")

    def __init__(self, field, kind, fn, core=False, order=1):
        self.field = field
        self.kind = kind
        self.fn = fn
        self.core = core
        self.order = order

    @property
    def name(self):
        return "%s=%s" % (self.field, self.kind)


def _opt(dom):
    return [("none", None)] + list(dom)


def _setter(getobj, attr, val):
    def fn(f):
        setattr(getobj(f), attr, val() if callable(val) else val)
    return fn


def _field(out, field, getobj, attr, dom, core=False):
    for kind, val in dom:
        out.append(Dev(field, kind, _setter(getobj, attr, val), core=core))


def _conn_devs(out, which):
    g = lambda f: getattr(f, which)  # noqa: E731
    p = which + "."
    is_client = which == "client_conn"
    _field(out, p + "peername", g, "peername", ADDR4 if is_client else _opt(ADDR4))
    _field(out, p + "sockname", g, "sockname", ADDR4 if is_client else _opt(ADDR4))
    _field(out, p + "id", g, "id", STR_SMALL)
    _field(out, p + "transport_protocol", g, "transport_protocol", [("tcp", "tcp"), ("udp", "udp")])
    _field(out, p + "error", g, "error", _opt(STR_SMALL))
    _field(out, p + "tls", g, "tls", BOOL)
    _field(out, p + "certificate_list", g, "certificate_list", [
        ("empty", lambda: []), ("one", lambda: [cert()]), ("two", lambda: [cert(), cert("dsa_cert.pem")]),
        ("chain-big", lambda: [cert("text_cert"), cert("text_cert_2"), cert()])], core=is_client)
    _field(out, p + "alpn", g, "alpn", _opt(BYTES_SMALL))
    _field(out, p + "alpn_offers", g, "alpn_offers", [("empty", []), ("two", [b"h2", b"http/1.1"]), ("emptyitem", [b""]), ("nonutf8", [b"\xff", b"h3"])])
    _field(out, p + "cipher", g, "cipher", _opt(STR_SMALL))
    _field(out, p + "cipher_list", g, "cipher_list", [("empty", []), ("two", ["A", "B"]), ("emptyitem", [""]), ("nonascii", ["ü"])])
    _field(out, p + "tls_version", g, "tls_version", [("none", None)] + [(v, v) for v in TLS_VERSIONS])
    _field(out, p + "sni", g, "sni", _opt(STR_SMALL))
    _field(out, p + "timestamp_start", g, "timestamp_start", TS if is_client else _opt(TS))
    _field(out, p + "timestamp_end", g, "timestamp_end", _opt(TS))
    _field(out, p + "timestamp_tls_setup", g, "timestamp_tls_setup", _opt(TS))
    if is_client:
        _field(out, p + "mitmcert", g, "mitmcert", [("none", None), ("cert", lambda: cert())])
        _field(out, p + "proxy_mode", g, "proxy_mode", [(k, (lambda m=m: ProxyMode.parse(m))) for k, m in PROXY_MODES])
    else:
        _field(out, p + "address", g, "address", _opt(ADDR2))
        _field(out, p + "timestamp_tcp_setup", g, "timestamp_tcp_setup", _opt(TS))
        _field(out, p + "via", g, "via", VIA, core=True)


def _msgdata_devs(out, prefix, g):
    """fields of http.MessageData (set on .data: no header side effects of the property setters)"""
    _field(out, prefix + "http_version", g, "http_version", [("h1", b"HTTP/1.1"), ("h2", b"HTTP/2.0"), ("h3", b"HTTP/3"), ("empty", b""), ("nonutf8", b"\xff")])
    _field(out, prefix + "headers", g, "headers", [(k, (lambda v=v: http.Headers(v))) for k, v in HEADERS], core=True)
    _field(out, prefix + "content", g, "content", _opt(BYTES_BIG), core=True)
    _field(out, prefix + "trailers", g, "trailers", [("none", None)] + [(k, (lambda v=v: http.Headers(v))) for k, v in HEADERS[:4]], core=True)
    _field(out, prefix + "timestamp_start", g, "timestamp_start", TS)
    _field(out, prefix + "timestamp_end", g, "timestamp_end", _opt(TS))


def _dnsmsg_devs(out, prefix, g):
    ints16 = [("zero", 0), ("max", 65535), ("typ", 28)]
    _field(out, prefix + "id", g, "id", ints16)
    for b in ("query", "authoritative_answer", "truncation", "recursion_desired", "recursion_available"):
        _field(out, prefix + b, g, b, BOOL)
    _field(out, prefix + "op_code", g, "op_code", [("zero", 0), ("max", 15)])
    _field(out, prefix + "reserved", g, "reserved", [("zero", 0), ("max", 7)])
    _field(out, prefix + "response_code", g, "response_code", [("zero", 0), ("typ", 3), ("max", 15)])
    names = [("empty", ""), ("ascii", "example.com"), ("nonascii", "ü.example"), ("control", "a\x00b\n.c"), ("long", ".".join(["a" * 63] * 4))]
    _field(out, prefix + "questions", g, "questions", [
        ("empty", lambda: []), ("two", lambda: [dns.Question("a.example", 1, 1), dns.Question("b.example", 28, 255)])]
        + [("name-" + k, (lambda v=v: [dns.Question(v, 65535, 0)])) for k, v in names], core=True)
    for sec in ("answers", "authorities", "additionals"):
        _field(out, prefix + sec, g, sec, [
            ("empty", lambda: []),
            ("two", lambda: [dns.ResourceRecord("a.example", 1, 1, 0, b"\x7f\x00\x00\x01"), dns.ResourceRecord("b.example", 16, 1, 2 ** 32 - 1, b"\x03abc")])]
            + [("name-" + k, (lambda v=v: [dns.ResourceRecord(v, 65535, 65535, 1, b"")])) for k, v in names]
            + [("data-" + k, (lambda v=v: [dns.ResourceRecord("x", 1, 1, 1, v)])) for k, v in BYTES_BIG], core=sec == "answers")
    _field(out, prefix + "timestamp", g, "timestamp", _opt(TS))


def _backup_modified(f):
    f.backup()
    f.comment = "changed after backup"
    f.marked = ":changed:"


def _backup_first(f):
    f.backup()


def deviations(ftype: str) -> list[Dev]:
    """every single-field deviation of a flow type, canonical order (simplest first within a field)"""
    out: list[Dev] = []
    ident = lambda f: f  # noqa: E731
    # -- Flow ---------------------------------------------------------------
    out.append(Dev("backup", "before-other-edits", _backup_first, core=True, order=0))
    _field(out, "id", ident, "id", STR_SMALL)
    _field(out, "error", ident, "error", [
        ("none", None), ("typical", lambda: flow.Error("error", T0 + 7)), ("empty-zero", lambda: flow.Error("", 0)),
        ("killed", lambda: flow.Error(flow.Error.KILLED_MESSAGE, T0)),
        ("nonascii", lambda: flow.Error("ü€\U0001f600\n\x00", 1700000000.123456)), ("big", lambda: flow.Error("e" * 70000, 1))], core=True)
    _field(out, "intercepted", ident, "intercepted", BOOL, core=True)
    _field(out, "is_replay", ident, "is_replay", [("none", None), ("request", "request"), ("response", "response")], core=True)
    _field(out, "marked", ident, "marked", [("empty", ""), ("default", ":default:"), ("char", "x"), ("emoji", "\U0001f347"), ("name", ":grapes:")], core=True)
    _field(out, "metadata", ident, "metadata", [(k, (lambda v=v: _deepcopy(v))) for k, v in METADATA], core=True)
    _field(out, "comment", ident, "comment", STR_BIG, core=True)
    _field(out, "timestamp_created", ident, "timestamp_created", TS)
    _conn_devs(out, "client_conn")
    _conn_devs(out, "server_conn")
    # -- type specific ------------------------------------------------------
    if ftype in ("http", "ws"):
        rq = lambda f: f.request.data  # noqa: E731
        _msgdata_devs(out, "request.", rq)
        _field(out, "request.host", rq, "host", [("empty", ""), ("ascii", "example.org"), ("nonascii", "ü.example"), ("ipv6", "::1")])
        _field(out, "request.port", rq, "port", [("zero", 0), ("typ", 80), ("max", 65535), ("huge", 2 ** 40), ("neg", -1)])
        _field(out, "request.method", rq, "method", BYTES_SMALL)
        _field(out, "request.scheme", rq, "scheme", BYTES_SMALL)
        _field(out, "request.authority", rq, "authority", BYTES_SMALL)
        _field(out, "request.path", rq, "path", BYTES_SMALL + [("asterisk", b"*"), ("long", b"/" + b"a%20" * 2000)])
        _field(out, "response", ident, "response", [("none", None)], core=True)
        rs = lambda f: f.response.data  # noqa: E731
        _msgdata_devs(out, "response.", rs)
        _field(out, "response.status_code", rs, "status_code", [("zero", 0), ("typ", 404), ("max", 999), ("huge", 2 ** 40)])
        _field(out, "response.reason", rs, "reason", BYTES_SMALL)
        if ftype == "http":
            _field(out, "websocket", ident, "websocket", [("empty-open", lambda: websocket.WebSocketData())], core=True)
        else:
            ws = lambda f: f.websocket  # noqa: E731
            m0 = lambda f: f.websocket.messages[0]  # noqa: E731
            _field(out, "websocket", ident, "websocket", [("none", None)], core=True)
            _field(out, "websocket.messages", ws, "messages", [
                ("empty", lambda: []),
                ("many", lambda: [websocket.WebSocketMessage(1 + (i % 2), bool(i % 3), b"m%d" % i, T0 + i, bool(i % 5 == 0), bool(i % 7 == 0)) for i in range(1, 60)])], core=True)
            _field(out, "websocket.closed_by_client", ws, "closed_by_client", _opt(BOOL))
            _field(out, "websocket.close_code", ws, "close_code", [("none", None), ("zero", 0), ("typ", 1006), ("max", 4999)])
            _field(out, "websocket.close_reason", ws, "close_reason", _opt(STR_SMALL))
            _field(out, "websocket.timestamp_end", ws, "timestamp_end", _opt(TS))
            _field(out, "websocket.message.type", m0, "type", [("op%d" % o, (lambda o=o: websocket.Opcode(o))) for o in OPCODES])
            _field(out, "websocket.message.from_client", m0, "from_client", BOOL)
            _field(out, "websocket.message.content", m0, "content", BYTES_BIG, core=True)
            _field(out, "websocket.message.timestamp", m0, "timestamp", TS)
            _field(out, "websocket.message.dropped", m0, "dropped", BOOL)
            _field(out, "websocket.message.injected", m0, "injected", BOOL)
    elif ftype in ("tcp", "udp"):
        M = tcp.TCPMessage if ftype == "tcp" else udp.UDPMessage
        m0 = lambda f: f.messages[0]  # noqa: E731
        _field(out, "messages", ident, "messages", [
            ("empty", lambda: []), ("many", lambda: [M(bool(i % 2), b"m%d" % i, T0 + i) for i in range(1, 60)])], core=True)
        _field(out, "message.from_client", m0, "from_client", BOOL)
        _field(out, "message.content", m0, "content", BYTES_BIG, core=True)
        _field(out, "message.timestamp", m0, "timestamp", TS)
    elif ftype == "dns":
        _dnsmsg_devs(out, "request.", lambda f: f.request)
        _field(out, "response", ident, "response", [("none", None)], core=True)
        _dnsmsg_devs(out, "response.", lambda f: f.response)
    out.append(Dev("backup", "modified-after", _backup_modified, core=True, order=2))
    return out


def _deepcopy(v):
    if isinstance(v, dict):
        return {k: _deepcopy(x) for k, x in v.items()}
    if isinstance(v, list):
        return [_deepcopy(x) for x in v]
    if isinstance(v, tuple):
        return tuple(_deepcopy(x) for x in v)
    return v


def _parent(field):
    """the field whose None/empty value makes `field` non-existent"""
    if field.startswith("websocket.message."):
        return "websocket.messages"
    if field.startswith("message."):
        return "messages"
    return field.rsplit(".", 1)[0] if "." in field else None


def conflict(a: Dev, b: Dev) -> bool:
    """two deviations that cannot be combined: same field, or one removes the object the other edits"""
    if a.field == b.field:
        return True
    for x, y in ((a, b), (b, a)):
        p = _parent(y.field)
        while p:
            if p == x.field:
                return True
            p = _parent(p)
    return False


_DEVCACHE: dict[str, dict[str, Dev]] = {}


def dev_table(ftype):
    if ftype not in _DEVCACHE:
        tab = {}
        for d in deviations(ftype):
            if d.name in tab:
                raise AssertionError("duplicate deviation name %s/%s" % (ftype, d.name))
            tab[d.name] = d
        _DEVCACHE[ftype] = tab
    return _DEVCACHE[ftype]


def build(ftype: str, devnames=(), n: int = 1) -> flow.Flow:
    """base flow of `ftype` with the named deviations applied (in canonical order)"""
    tab = dev_table(ftype)
    f = base(ftype, n)
    devs = [tab[x] for x in devnames]
    idx = {name: i for i, name in enumerate(tab)}
    for d in sorted(devs, key=lambda d: (d.order, idx[d.name])):
        d.fn(f)
    return f


# ---------------------------------------------------------------------------
# independent observation of a live flow (attribute reads only - never get_state), so that a
# defect on the get_state side cannot cancel itself out in a get_state == get_state comparison

_CONN_FLOAT = ("timestamp_start", "timestamp_end", "timestamp_tls_setup", "timestamp_tcp_setup")
_CONN_PLAIN = ("peername", "sockname", "id", "transport_protocol", "error", "tls", "alpn", "alpn_offers", "cipher",
               "cipher_list", "tls_version", "sni")


def _f(x):
    """fields annotated `float` hold int or float with the same meaning"""
    return float(x) if isinstance(x, int) and not isinstance(x, bool) else x


def _obs_conn(c):
    o = {k: getattr(c, k) for k in _CONN_PLAIN}
    for k in _CONN_FLOAT:
        if hasattr(c, k):
            o[k] = _f(getattr(c, k))
    o["certificate_list"] = [x.to_pem() for x in c.certificate_list]
    if isinstance(c, connection.Client):
        o["mitmcert"] = c.mitmcert.to_pem() if c.mitmcert else None
        o["proxy_mode"] = c.proxy_mode.full_spec
    else:
        o["address"] = c.address
        o["via"] = c.via
    return o


def _obs_msg(m):
    if m is None:
        return None
    d = m.data
    o = {k: getattr(d, k) for k in ("http_version", "content", "timestamp_start", "timestamp_end")}
    o["headers"] = tuple(d.headers.fields)
    o["trailers"] = None if d.trailers is None else tuple(d.trailers.fields)
    for k in ("host", "port", "method", "scheme", "authority", "path", "status_code", "reason"):
        if hasattr(d, k):
            o[k] = getattr(d, k)
    return o


def _obs_dns(m):
    if m is None:
        return None
    o = {k: getattr(m, k) for k in ("id", "query", "op_code", "authoritative_answer", "truncation", "recursion_desired",
                                    "recursion_available", "reserved", "response_code")}
    o["timestamp"] = _f(m.timestamp)
    o["questions"] = [(q.name, q.type, q.class_) for q in m.questions]
    for sec in ("answers", "authorities", "additionals"):
        o[sec] = [(r.name, r.type, r.class_, r.ttl, r.data) for r in getattr(m, sec)]
    return o


def observe(f) -> dict:
    o = {
        "class": type(f).__name__, "id": f.id, "error": None if f.error is None else (f.error.msg, _f(f.error.timestamp)),
        "intercepted": f.intercepted, "is_replay": f.is_replay, "marked": f.marked, "metadata": f.metadata,
        "comment": f.comment, "timestamp_created": f.timestamp_created, "backup": f._backup,
        "client_conn": _obs_conn(f.client_conn), "server_conn": _obs_conn(f.server_conn),
    }
    if isinstance(f, http.HTTPFlow):
        o["request"] = _obs_msg(f.request)
        o["response"] = _obs_msg(f.response)
        ws = f.websocket
        o["websocket"] = None if ws is None else {
            "messages": [(int(m.type), m.from_client, m.content, m.timestamp, m.dropped, m.injected) for m in ws.messages],
            "closed_by_client": ws.closed_by_client, "close_code": ws.close_code, "close_reason": ws.close_reason,
            "timestamp_end": _f(ws.timestamp_end)}
    elif isinstance(f, (tcp.TCPFlow, udp.UDPFlow)):
        o["messages"] = [(type(m).__name__, m.from_client, m.content, m.timestamp) for m in f.messages]
    elif isinstance(f, dns.DNSFlow):
        o["request"] = _obs_dns(f.request)
        o["response"] = _obs_dns(f.response)
    return o


# ---------------------------------------------------------------------------
# strictly typed state comparison


def canon(x):
    """typed canonical form: tuple==list, dict order ignored, nothing else conflated (NaN equals NaN)"""
    if x is None:
        return ("n",)
    if x is True or x is False:
        return ("b", x)
    if isinstance(x, int):
        return ("i", x)
    if isinstance(x, float):
        return ("f", repr(x))
    if isinstance(x, bytes):
        return ("y", x)
    if isinstance(x, str):
        return ("s", x)
    if isinstance(x, (list, tuple)):
        return ("l", tuple(canon(v) for v in x))
    if isinstance(x, dict):
        return ("d", tuple(sorted(((canon(k), canon(v)) for k, v in x.items()), key=repr)))
    return ("?", type(x).__name__, repr(x))


def diff(a, b, path="", out=None, limit=6):
    """list of (path, a, b) where two states differ under canon() semantics"""
    if out is None:
        out = []
    if len(out) >= limit:
        return out
    if isinstance(a, dict) and isinstance(b, dict):
        ka = {canon(k): k for k in a}
        kb = {canon(k): k for k in b}
        for ck in sorted(set(ka) | set(kb), key=repr):
            p = "%s/%s" % (path, ka.get(ck, kb.get(ck)))
            if ck not in ka:
                out.append((p, "<absent>", _brief(b[kb[ck]])))
            elif ck not in kb:
                out.append((p, _brief(a[ka[ck]]), "<absent>"))
            else:
                diff(a[ka[ck]], b[kb[ck]], p, out, limit)
        return out
    if isinstance(a, (list, tuple)) and isinstance(b, (list, tuple)):
        if len(a) != len(b):
            out.append((path + "/#len", len(a), len(b)))
        for i, (x, y) in enumerate(zip(a, b)):
            diff(x, y, "%s/%d" % (path, i), out, limit)
        return out
    if canon(a) != canon(b):
        out.append((path, _brief(a), _brief(b)))
    return out


def _brief(x):
    r = repr(x)
    return r if len(r) <= 120 else r[:117] + "..."


# ---------------------------------------------------------------------------
# file helpers


def dump_flows(flows) -> bytes:
    """through the real FlowWriter"""
    bio = io.BytesIO()
    w = FlowWriter(bio)
    for f in flows:
        w.add(f)
    return bio.getvalue()


class NonTermination(BaseException):
    """raised by the harness guards inside mitmproxy code that would otherwise never return"""


_GUARD = {"installed_for": None, "count": 0}
MAX_CONVERSIONS = 4 * len(compat.converters)  # one record can legitimately need at most len(converters) steps
CASE_TIMEOUT_S = 120  # safety net only; the converter-cycle guard is the deterministic detector


def _install_guards():
    """wrap every converter with a step counter (reset per record by wrapping migrate_flow): a record
    that needs more conversion steps than there are converters is in a cycle. Behaviour is otherwise unchanged."""
    if _GUARD["installed_for"] is compat.converters and getattr(compat.migrate_flow, "_vmc_guard", False):
        return

    def wrap(fn):
        def guarded(data):
            _GUARD["count"] += 1
            if _GUARD["count"] > MAX_CONVERSIONS:
                raise NonTermination("migrate_flow applied %d converters to one record (table has %d): version never advances" % (_GUARD["count"], len(compat.converters)))
            return fn(data)
        guarded._vmc_wrapped = fn
        return guarded

    for k, fn in list(compat.converters.items()):
        if not hasattr(fn, "_vmc_wrapped"):
            compat.converters[k] = wrap(fn)
    if not getattr(compat.migrate_flow, "_vmc_guard", False):
        orig = compat.migrate_flow

        def migrate_flow(flow_data):
            _GUARD["count"] = 0
            return orig(flow_data)
        migrate_flow._vmc_guard = True
        migrate_flow._vmc_wrapped = orig
        compat.migrate_flow = migrate_flow
    _GUARD["installed_for"] = compat.converters


def _on_alarm(signum, frame):
    raise NonTermination("no result after %d s" % CASE_TIMEOUT_S)


class ReadResult:
    __slots__ = ("flows", "end", "exc", "stage", "msg")

    def __init__(self):
        self.flows = []
        self.end = "clean"  # clean | flow_read_error | other | nonterminating
        self.exc = None  # exception type name
        self.stage = None
        self.msg = ""

    def outcome(self):
        return (len(self.flows), self.end, self.exc)


def stage_of(tb) -> str:
    """which part of the reading pipeline raised: parse (tnetstring) / migrate (compat) / from_state / har / reader"""
    files = []
    while tb is not None:
        files.append((tb.tb_frame.f_code.co_filename.replace("\\", "/"), tb.tb_frame.f_code.co_name))
        tb = tb.tb_next
    names = [f for f, _ in files]
    if any(f.endswith("io/tnetstring.py") for f in names):
        return "parse"
    if any(f.endswith("io/compat.py") for f in names):
        return "migrate"
    if any(f.endswith("io/har.py") or "/json/" in f for f in names):
        return "har"
    if any(fn in ("from_state", "set_state") for _, fn in files):
        return "from_state"
    return "reader"


def read(fo) -> ReadResult:
    """drive the real FlowReader over a binary file object and classify how it ended"""
    r = ReadResult()
    reset_module_state()
    _install_guards()
    old = signal.signal(signal.SIGALRM, _on_alarm)
    signal.alarm(CASE_TIMEOUT_S)
    try:
        for f in FlowReader(fo).stream():
            r.flows.append(f)
    except exceptions.FlowReadException as e:
        r.end, r.exc, r.msg = "flow_read_error", "FlowReadException", str(e)
    except KeyboardInterrupt:
        raise
    except NonTermination as e:
        r.end, r.exc, r.msg = "nonterminating", "NonTermination", str(e)
        r.stage = "migrate" if "converters" in str(e) else "timeout"
    except BaseException as e:  # noqa: B036 - the property is about *any* other exception
        r.end, r.exc, r.msg = "other", type(e).__name__, str(e)[:200]
        r.stage = stage_of(e.__traceback__)
    finally:
        signal.alarm(0)
        signal.signal(signal.SIGALRM, old)
    return r


def read_bytes(data: bytes) -> ReadResult:
    return read(io.BytesIO(data))


# ---------------------------------------------------------------------------
# parallel evaluation of a large case list: the list stays in the parent's heap (workers get it by
# fork); only index ranges are pickled, and the heap is frozen so that the workers' GC does not
# copy-on-write it.  Same deterministic dealing as vmc.par (blocks are dealt round-robin).

_RUN = {"cases": None, "one": None, "setup": None, "teardown": None}


def _run_blocks(blocks):
    from vmc.tally import Tally

    t = Tally()
    cases, one = _RUN["cases"], _RUN["one"]
    if _RUN["setup"]:
        _RUN["setup"]()
    try:
        for a, b in blocks:
            for i in range(a, b):
                one(cases[i], t)
    finally:
        if _RUN["teardown"]:
            _RUN["teardown"]()
    return t


def run_cases(one, cases, tally, block=128, setup=None, teardown=None):
    import gc

    from vmc import par

    _RUN.update(cases=cases, one=one, setup=setup, teardown=teardown)
    blocks = [(i, min(i + block, len(cases))) for i in range(0, len(cases), block)]
    gc.collect()
    gc.freeze()
    try:
        par.pmap_tally(_run_blocks, blocks, tally, nchunks=par.NPROC * 4)
    finally:
        gc.unfreeze()
        _RUN.update(cases=None, one=None, setup=None, teardown=None)
    return tally


# ---------------------------------------------------------------------------
# independent tnetstring framing (never calls mitmproxy)

TAGS = b",;#^!~]}"


def frame(data: bytes, pos: int = 0):
    """(payload_start, payload_end, tag_pos) of the tnetstring starting at pos, or None if incomplete/invalid"""
    i = pos
    n = len(data)
    while i < n and 48 <= data[i] <= 57:
        i += 1
    if i == pos or i >= n or data[i] != 58 or i - pos > 12:
        return None
    ln = int(data[pos:i])
    start = i + 1
    end = start + ln
    if end >= n or data[end] not in TAGS:
        return None
    return start, end, end


def record_ends(data: bytes) -> list[int]:
    """offsets just past every complete top-level record"""
    out = []
    pos = 0
    while pos < len(data):
        fr = frame(data, pos)
        if fr is None:
            raise ValueError("not a sequence of complete records at %d" % pos)
        pos = fr[2] + 1
        out.append(pos)
    return out


def structural_positions(data: bytes) -> set[int]:
    """positions of all length digits, colons and type tags (recursively) of a well-formed file"""
    out: set[int] = set()

    def walk(pos, stop):
        while pos < stop:
            fr = frame(data, pos)
            if fr is None:
                raise ValueError("malformed at %d" % pos)
            start, end, tag = fr
            out.update(range(pos, start))
            out.add(tag)
            if data[tag] in b"]}":
                walk(start, end)
            pos = tag + 1

    walk(0, len(data))
    return out


def tn_loads(data: bytes, pos: int = 0):
    """independent decoder of one well-formed tnetstring -> (value, next_pos); raises ValueError otherwise"""
    fr = frame(data, pos)
    if fr is None:
        raise ValueError("incomplete or invalid tnetstring at %d" % pos)
    start, end, tag = fr
    payload = data[start:end]
    t = data[tag:tag + 1]
    if t == b",":
        v = payload
    elif t == b";":
        v = payload.decode("utf8")
    elif t == b"#":
        v = int(payload)
    elif t == b"^":
        v = float(payload)
    elif t == b"!":
        v = {b"true": True, b"false": False}[payload]
    elif t == b"~":
        v = None
    elif t == b"]":
        v = []
        p = start
        while p < end:
            x, p = tn_loads(data, p)
            v.append(x)
    else:
        v = {}
        p = start
        while p < end:
            k, p = tn_loads(data, p)
            x, p = tn_loads(data, p)
            v[k] = x
    return v, tag + 1


def tn(value) -> bytes:
    """independent tnetstring encoder (used to build structural inputs without trusting dumps)"""
    if value is None:
        return b"0:~"
    if value is True:
        return b"4:true!"
    if value is False:
        return b"5:false!"
    if isinstance(value, int):
        p, t = str(value).encode(), b"#"
    elif isinstance(value, float):
        p, t = repr(value).encode(), b"^"
    elif isinstance(value, bytes):
        p, t = value, b","
    elif isinstance(value, str):
        p, t = value.encode("utf8"), b";"
    elif isinstance(value, (list, tuple)):
        p, t = b"".join(tn(v) for v in value), b"]"
    elif isinstance(value, dict):
        p, t = b"".join(tn(k) + tn(v) for k, v in value.items()), b"}"
    else:
        raise TypeError(type(value))
    return str(len(p)).encode() + b":" + p + t


# ---------------------------------------------------------------------------
# schema of the current flow state ("valid current flow")


def _is_float(x):
    return isinstance(x, (int, float)) and not isinstance(x, bool)


def _is_int(x):
    return isinstance(x, int) and not isinstance(x, bool)


def _addr(x, lens=(2, 4)):
    return (isinstance(x, (list, tuple)) and len(x) in lens and isinstance(x[0], str) and all(_is_int(v) for v in x[1:]))


def _opt_(pred):
    return lambda x: x is None or pred(x)


def _listof(pred):
    return lambda x: isinstance(x, (list, tuple)) and all(pred(v) for v in x)


_str = lambda x: isinstance(x, str)  # noqa: E731
_bytes = lambda x: isinstance(x, bytes)  # noqa: E731
_bool = lambda x: isinstance(x, bool)  # noqa: E731
_headers = _listof(lambda p: isinstance(p, (list, tuple)) and len(p) == 2 and _bytes(p[0]) and _bytes(p[1]))
_pem = lambda x: _bytes(x) and x.startswith(b"-----BEGIN CERTIFICATE-----")  # noqa: E731

CONN_SCHEMA = {
    "peername": _opt_(_addr), "sockname": _opt_(_addr), "id": _str, "transport_protocol": lambda x: x in ("tcp", "udp"),
    "error": _opt_(_str), "tls": _bool, "certificate_list": _listof(_pem), "alpn": _opt_(_bytes),
    "alpn_offers": _listof(_bytes), "cipher": _opt_(_str), "cipher_list": _listof(_str),
    "tls_version": lambda x: x is None or x in TLS_VERSIONS, "sni": _opt_(_str),
    "timestamp_start": _opt_(_is_float), "timestamp_end": _opt_(_is_float), "timestamp_tls_setup": _opt_(_is_float),
}
CLIENT_SCHEMA = dict(CONN_SCHEMA, peername=_addr, sockname=_addr, timestamp_start=_is_float, mitmcert=_opt_(_pem), proxy_mode=_str)
SERVER_SCHEMA = dict(CONN_SCHEMA, address=_opt_(lambda x: _addr(x, (2,))), timestamp_tcp_setup=_opt_(_is_float),
                     via=_opt_(lambda x: isinstance(x, (list, tuple)) and len(x) == 2 and _str(x[0]) and _addr(x[1], (2,))))
MSG_SCHEMA = {"http_version": _bytes, "headers": _headers, "content": _opt_(_bytes), "trailers": _opt_(_headers),
              "timestamp_start": _is_float, "timestamp_end": _opt_(_is_float)}
REQ_SCHEMA = dict(MSG_SCHEMA, host=_str, port=_is_int, method=_bytes, scheme=_bytes, authority=_bytes, path=_bytes)
RESP_SCHEMA = dict(MSG_SCHEMA, status_code=_is_int, reason=_bytes)
WSMSG = lambda m: (isinstance(m, (list, tuple)) and len(m) == 6 and _is_int(m[0]) and _bool(m[1]) and _bytes(m[2])  # noqa: E731
                   and _is_float(m[3]) and _bool(m[4]) and _bool(m[5]))
WS_SCHEMA = {"messages": _listof(WSMSG), "closed_by_client": _opt_(_bool), "close_code": _opt_(_is_int),
             "close_reason": _opt_(_str), "timestamp_end": _opt_(_is_float)}
RAWMSG = lambda m: isinstance(m, (list, tuple)) and len(m) == 3 and _bool(m[0]) and _bytes(m[1]) and _is_float(m[2])  # noqa: E731
Q_SCHEMA = {"name": _str, "type": _is_int, "class_": _is_int}
RR_SCHEMA = {"name": _str, "type": _is_int, "class_": _is_int, "ttl": _is_int, "data": _bytes}
ERR_SCHEMA = {"msg": _str, "timestamp": _is_float}


class OptDict:
    """None or a dict following `schema` (problems are reported with the inner path)"""

    def __init__(self, schema):
        self.schema = schema


def _check_dict(d, schema, path, out):
    if not isinstance(d, dict):
        out.append("%s: expected dict, got %s" % (path, type(d).__name__))
        return
    for k in schema:
        if k not in d:
            out.append("%s/%s: missing" % (path, k))
    for k, v in d.items():
        if k not in schema:
            out.append("%s/%s: unexpected key" % (path, k))
            continue
        sch = schema[k]
        if isinstance(sch, OptDict):
            if v is not None:
                _check_dict(v, sch.schema, "%s/%s" % (path, k), out)
        elif isinstance(sch, dict):
            _check_dict(v, sch, "%s/%s" % (path, k), out)
        else:
            try:
                ok = bool(sch(v))
            except Exception:
                ok = False
            if not ok:
                out.append("%s/%s: invalid value %s" % (path, k, _brief(v)))


def _dns_schema():
    def rrlist(x):
        return isinstance(x, (list, tuple)) and all(not _problems(v, RR_SCHEMA) for v in x)

    def qlist(x):
        return isinstance(x, (list, tuple)) and all(not _problems(v, Q_SCHEMA) for v in x)

    return {"id": _is_int, "query": _bool, "op_code": _is_int, "authoritative_answer": _bool, "truncation": _bool,
            "recursion_desired": _bool, "recursion_available": _bool, "reserved": _is_int, "response_code": _is_int,
            "questions": qlist, "answers": rrlist, "authorities": rrlist, "additionals": rrlist, "timestamp": _opt_(_is_float)}


def _problems(d, schema):
    out: list[str] = []
    _check_dict(d, schema, "", out)
    return out


def validate_state(state, current_version) -> list[str]:
    """problems that make `state` not a valid current-format flow state (empty list = valid)"""
    out: list[str] = []
    if not isinstance(state, dict):
        return ["state is not a dict"]
    t = state.get("type")
    common = {
        "version": lambda x: _is_int(x) and x == current_version, "type": lambda x: x in ("http", "tcp", "udp", "dns"),
        "id": _str, "error": OptDict(ERR_SCHEMA), "client_conn": CLIENT_SCHEMA,
        "server_conn": SERVER_SCHEMA, "intercepted": _bool, "is_replay": lambda x: x in (None, "request", "response"),
        "marked": _str, "metadata": lambda x: isinstance(x, dict) and all(_str(k) for k in x), "comment": _str,
        "timestamp_created": _is_float,
        "backup": lambda x: x is None or isinstance(x, dict),
    }
    if t == "http":
        common.update(request=REQ_SCHEMA, response=OptDict(RESP_SCHEMA), websocket=OptDict(WS_SCHEMA))
    elif t in ("tcp", "udp"):
        common.update(messages=_listof(RAWMSG))
    elif t == "dns":
        d = _dns_schema()
        common.update(request=d, response=OptDict(d))
    _check_dict(state, common, "", out)
    return out
