"""Regenerate mutants/<PID>-revert-fix-*.diff against /repo's current HEAD: for every `fix:` commit recorded in
findings/*.json, `git revert --no-commit <commit>` in a scratch worktree and store the resulting diff (so the patch
applies to HEAD even when later commits touched the same file). Conflicting reverts are reported and left as they are."""
import glob
import json
import os
import subprocess

ROOT = os.path.dirname(os.path.dirname(os.path.abspath(__file__)))
done = set()
wt = "/dev/shm/vmc-revert-%d" % os.getpid()
subprocess.check_call(["git", "-C", "/repo", "worktree", "add", "-q", "--detach", wt, "HEAD"])
try:
    for p in sorted(glob.glob(os.path.join(ROOT, "findings", "C*.json"))):
        for e in json.load(open(p))["findings"]:
            if e.get("status") != "fixed":
                continue
            key = (e["property"], e["commit"])
            if key in done:
                continue
            done.add(key)
            cands = glob.glob(os.path.join(ROOT, "mutants", "%s-revert-fix-*.diff" % e["property"]))
            target = None
            for c in cands:  # the existing file generated for this commit is the one whose reverse equals the commit
                target = target or (c if e["id"] in c else None)
            if target is None:
                target = os.path.join(ROOT, "mutants", "%s-revert-fix-%s.diff" % (e["property"], e["id"]))
            subprocess.call(["git", "-C", wt, "checkout", "-q", "--", "."])
            r = subprocess.run(["git", "-C", wt, "revert", "--no-commit", e["commit"]], capture_output=True, text=True)
            if r.returncode != 0:
                subprocess.call(["git", "-C", wt, "revert", "--abort"], stderr=subprocess.DEVNULL)
                subprocess.call(["git", "-C", wt, "reset", "-q", "--hard", "HEAD"])
                print("CONFLICT reverting %s (%s) - kept %s" % (e["commit"], e["property"], os.path.basename(target)))
                continue
            diff = subprocess.check_output(["git", "-C", wt, "diff", "HEAD"])
            subprocess.call(["git", "-C", wt, "reset", "-q", "--hard", "HEAD"])
            open(target, "wb").write(diff)
    print("regenerated reverts for %d fix commits" % len(done))
finally:
    subprocess.call(["git", "-C", "/repo", "worktree", "remove", "--force", wt])
