"""C14 - TLS interception is byte-transparent after the handshake.

Engine X (schedules), merging off: the real `ClientTLSLayer` / `ServerTLSLayer` (and `TunnelLayer` below them) are
driven over a probe child layer; the pyOpenSSL connection comes from the real `TlsConfig` addon (mitmproxy's own CA
for the client side, a verified upstream chain for the server side); the peer is a stdlib-`ssl` endpoint on
MemoryBIOs.  An execution is

    (side, TLS version, who opens the server connection, application writes of the peer and of the inner layer,
     record sizes, first peer write in the same segment as the peer's last handshake flight or not,
     ciphertext segmentation, close variant, schedule)

where the schedule orders three kinds of environment actions: H = complete a pending hook (hooks are asynchronous in
`server_event`), P = deliver the next ciphertext segment from the peer, W = deliver bytes on the *other* (plain)
connection, which the inner layer relays into the TLS connection.  Default is H before P before W; the explorer takes
every alternative at <= k points (deviation-bounded DFS), so "inner layer writes while the handshake is still running",
"data arrives while tls_established is pending" and "both directions interleaved" are all schedules of the same space.
Every execution runs to completion: all segments, all writes, then the close variant.
"""
from __future__ import annotations

import itertools
import logging

from vmc import par
from vmc.explore import _dev_rec
from vmc.peers import tlspeer as tp
from vmc.tally import HarnessError, Tally

META = {
    "level": "model_checking",
    "technique": "deviation-bounded DFS over delivery schedules x exhaustive enumeration of writes, record sizes, ciphertext cut points and close variants on the real "
                 "ClientTLSLayer/ServerTLSLayer with real TlsConfig contexts against stdlib-ssl MemoryBIO peers; merging off (executions are counted, not states)",
    "claim": "within the stated bounds every plaintext byte written by the peer reaches the inner layer exactly once and in order, every byte the inner layer writes is decrypted "
             "by the peer exactly once and in order, and a close_notify / TCP close reaches the inner layer as exactly one ConnectionClosed after all data; model checking because "
             "the property quantifies over schedules and segmentations and every one of them within the bound is executed on the implementation",
    "rule": "an execution is (scenario, cut set, schedule choices); distinct = distinct tuple; non-trivial = the handshake completed on both ends and at least one application byte "
            "was carried in each written direction",
    "assumptions": [
        "OpenSSL is trusted; TLS randoms and keys differ per execution, so states are not merged and coverage is stated in executions",
        "the peer is stdlib ssl (system libssl) on MemoryBIOs; mitmproxy uses pyOpenSSL (the libssl bundled with cryptography): two independent builds",
        "ciphertext from mitmproxy to the peer is handed over whole after every action (its segmentation exercises the peer, not mitmproxy)",
        "bytes the inner layer writes after the peer's close_notify are not part of the statement: the segment carrying a close_notify is delivered only after all inner-layer writes",
        "the inner layer writes by relaying bytes that arrive on the other, plain connection (it can only act on events); during the handshake those events are queued by TunnelLayer / "
        "Layer pause queues, which is the mechanism under test",
        "DTLS is not covered (stdlib ssl has no DTLS)",
    ],
}

SERVER_NAME = "www.example.com"
CONFIGS = [("client", "1.3", None), ("client", "1.2", None), ("server", "1.3", True), ("server", "1.3", False), ("server", "1.2", True), ("server", "1.2", False)]
CLOSES = ["notify+tcp", "same+tcp", "tcp", "notify", "same", "none"]
SIZES = [1, 100, 16384, 16385, 40000]
# (peer writes, inner-layer writes): one write whose ciphertext exceeds one / two / three 65535-byte reads, alone and followed by a small one
BIG_WRITES = [([65535], [65535]), ([65536], [65536]), ([70000], [70000]), ([200000], [200000]), ([1], [131070, 1]), ([131070, 1], [1])]
BIG_WRITES_THOROUGH = [([65514], [65513]), ([65513], [65514]), ([300000, 65535], [300000, 65535]), ([100], [65535, 65535, 65535])]

_PKI: dict = {}
_PEER_CTX: dict = {}


def setup():
    """CA, upstream chain and addon once per process (the parent does it before forking)"""
    if _PKI:
        return _PKI
    logging.disable(logging.CRITICAL)
    env = tp.tls_env("c14")
    d = tp.scratch()
    root = tp.mint(cn="vmc C14 root", key_name="rootA", ca=True)
    leaf = tp.mint(cn=SERVER_NAME, key_name="leaf", issuer=root, issuer_key="rootA", sans=["dns:" + SERVER_NAME])
    _PKI.update(env=env, root=tp.write(d + "/c14/root.pem", tp.cert_pem(root)), chain=tp.write(d + "/c14/leaf.pem", tp.cert_pem(leaf)),
                key=tp.write(d + "/c14/leaf.key", tp.key_pem("leaf")), mitm_ca=env["confdir"] + "/mitmproxy-ca-cert.pem")
    return _PKI


def make_peer(side, tls):
    p = setup()
    k = (side, tls)
    if k not in _PEER_CTX:
        if side == "client":
            _PEER_CTX[k] = tp.std_client_context(p["mitm_ca"], tls, strict=True)
        else:
            _PEER_CTX[k] = tp.std_server_context(p["chain"], p["key"], tls)
    if side == "client":
        return tp.StdPeer(_PEER_CTX[k], False, "example.com")
    return tp.StdPeer(_PEER_CTX[k], True)


def payload(tag, n):
    base = bytes((tag * 53 + j * 7) % 251 for j in range(251))
    return (base * (n // 251 + 1))[:n]


def split_at(data, offsets):
    out, prev = [], 0
    for o in offsets:
        out.append((prev, data[prev:o]))
        prev = o
    out.append((prev, data[prev:]))
    return [(a, b) for a, b in out if b]


def resolve_cuts(cuts, records, total):
    """cuts: "all" (1-byte segments) | "records" (cut at every record boundary) | [[record index, offset in record], ...]"""
    starts, pos = [], 0
    for r in records:
        starts.append(pos)
        pos += len(r)
    if cuts == "all":
        return list(range(1, total))
    if cuts == "records":
        return starts[1:]
    offs = set()
    for ri, off in cuts:
        if ri >= len(records):
            raise HarnessError("cut names record %d but the stream has %d records" % (ri, len(records)))
        o = starts[ri] + min(off, len(records[ri]) - 1)
        if 0 < o < total:
            offs.add(o)
    return sorted(offs)


def features(s, choices):
    cuts = s["cuts"]
    seg = "bytewise" if cuts == "all" else "records" if cuts == "records" else "whole" if not cuts else "cut%d" % len(cuts)
    return {"side": s["side"], "tls": s["tls"], "opens": s["opens"], "close": s["close"], "early": s["early"], "seg": seg, "schedule": "deviated" if any(choices) else "default"}


class Exec:
    def __init__(self, spec):
        self.s = spec

    def run(self, prefix, t: Tally, verbose=False, probe=None):
        s = self.s
        p = setup()
        # one configuration for every execution (the upstream trust root is irrelevant to the client side)
        tp.activate(p["env"], ssl_verify_upstream_trusted_ca=p["root"])
        rig = tp.Rig(s["side"], p["env"], address=(SERVER_NAME, 443), child_opens=bool(s["opens"]), hold_hooks=s["hold"])
        peer = make_peer(s["side"], s["tls"])
        pt = [payload(i + 1, n) for i, n in enumerate(s["pw"])]
        wleft = [payload(101 + i, n) for i, n in enumerate(s["cw"])]
        want_rx, want_tx = b"".join(pt), b"".join(wleft)
        pending: list = []  # [bytes, carries close_notify]
        closers = None  # built together with the stream
        built = False
        layout = None
        choices, widths = [], []
        steps = 0
        order_ok = True

        def build(flight):
            nonlocal closers, layout
            app = b"".join(peer.write(x, s["piece"]) for x in pt)
            close = s["close"]
            cn = peer.close_notify() if close.startswith("same") else b""
            stream = app + cn
            if s["early"]:
                stream = flight + stream
            elif flight:
                pending.append([flight, False])
            recs = tp.tls_records(stream)
            layout = [len(r) for r in recs]
            cn_at = len(stream) - len(cn)
            for start, seg in split_at(stream, resolve_cuts(s["cuts"], recs, len(stream))):
                pending.append([seg, bool(cn) and start + len(seg) > cn_at])
            closers = []
            if close.startswith("notify"):
                closers.append("notify")
            if close.endswith("tcp"):
                closers.append("tcp")

        def settle():
            nonlocal built
            out = rig.take()
            if out:
                peer.feed(out)
            new = peer.step()
            if not built and peer.done:
                built = True
                build(new)
            elif new:
                if built:
                    raise HarnessError("the peer produced %d unexpected bytes after its handshake" % len(new))
                pending.append([new, False])

        rig.start()
        settle()
        while rig.crash is None:
            enabled = []
            if rig.held:
                enabled.append("H")
            if pending and not (pending[0][1] and wleft):
                enabled.append("P")
            if wleft:
                enabled.append("W")
            if not enabled and closers:
                enabled.append("C")
            if not enabled:
                break
            if len(enabled) > 1:
                k = prefix[len(choices)] if len(choices) < len(prefix) else 0
                if k >= len(enabled):
                    raise HarnessError("choice out of range while replaying %r" % (prefix,))
                choices.append(k)
                widths.append(len(enabled))
                act = enabled[k]
            else:
                act = enabled[0]
            if act == "H":
                rig.release_hook(0)
            elif act == "P":
                rig.data(pending.pop(0)[0])
            elif act == "W":
                rig.other_data(wleft.pop(0))
            else:
                c = closers.pop(0)
                if c == "notify":
                    rig.data(peer.close_notify())
                else:
                    rig.peer_closed()
            t.transitions += 1
            steps += 1
            if verbose:
                print("  %s -> child_rx=%d peer_rx=%d hooks=%s" % (act, len(rig.child_rx), len(peer.plain), rig.hook_names()))
            settle()
            if steps <= 400:
                t.state([s["side"], s["tls"], s["opens"], len(rig.hooks), len(rig.held), len(rig.child_rx), len(peer.plain), len(pending), len(wleft), rig.tls_conn.state.value])
            # step invariant: what the inner layer / the peer have so far is a prefix of what was written
            if order_ok and not (want_rx.startswith(bytes(rig.child_rx)) and want_tx.startswith(bytes(peer.plain))):
                order_ok = False
            if steps > 200000:
                raise HarnessError("schedule does not terminate")
        if probe is not None:
            probe.update(layout=layout, rig=rig, peer=peer)
        self.judge(rig, peer, want_rx, want_tx, order_ok, built, choices, t)
        return choices, widths, None

    def judge(self, rig, peer, want_rx, want_tx, order_ok, built, choices, t: Tally):
        s = self.s
        f = features(s, choices)
        case = dict(s, choices=list(choices))
        est = "tls_established_client" if s["side"] == "client" else "tls_established_server"
        hooks = rig.hook_names()
        crashed = rig.crash is not None or bool(rig.addon_errors)
        hs_ok = (peer.error is None and peer.done and built and hooks.count(est) == 1
                 and not any(h.startswith("tls_failed") for h in hooks) and rig.tls_conn.tls_established)
        nontrivial = hs_ok and not crashed and (not want_rx or bool(rig.child_rx)) and (not want_tx or bool(peer.plain))
        t.case(case if (nontrivial and any(choices) and len(t.samples) < 2) else None, nontrivial=nontrivial, key=case)
        if not t.judge("no_exception_from_mitmproxy", not crashed, f, case, "no exception out of the layers or the addon", {"crash": rig.crash, "addon_errors": rig.addon_errors, "hooks": hooks}):
            return
        if not t.judge("handshake_completes", hs_ok, f, case, "established on both ends",
                       {"crash": rig.crash, "addon_errors": rig.addon_errors, "peer_error": repr(peer.error), "peer_done": peer.done, "hooks": hooks, "logs": rig.logs[-3:]}):
            return
        rx = bytes(rig.child_rx)
        if order_ok and rx == want_rx:
            t.ok("child_gets_exact_bytes_once_in_order")
        else:
            t.bad("child_gets_exact_bytes_once_in_order", f, case, _summ(want_rx), dict(_summ(rx, want_rx), prefix_at_every_step=order_ok))
        got = bytes(peer.plain)
        if got == want_tx and bytes(rig.child_tx) == want_tx:
            t.ok("peer_decrypts_exact_bytes")
        else:
            t.bad("peer_decrypts_exact_bytes", f, case, _summ(want_tx), _summ(got, want_tx))
        # close: exactly one ConnectionClosed for the TLS connection, after the last data event; none without a close
        log = rig.child_log
        closes = [i for i, e in enumerate(log) if e == ("closed", "tls")]
        datas = [i for i, e in enumerate(log) if e[0] == "data"]
        want_closes = 0 if s["close"] == "none" else 1
        ok = len(closes) == want_closes and (not closes or not datas or closes[0] > datas[-1]) and (not closes or rx == want_rx)
        t.judge("close_after_all_data", ok, f, case, "%d ConnectionClosed after the last DataReceived" % want_closes,
                {"closes_at": closes, "last_data_at": datas[-1:] or None, "events": len(log), "bytes_before_close": len(rx), "want_bytes": len(want_rx)})
        starts = [e for e in log if e == ("start",)]
        t.judge("child_started_once_before_data", len(starts) == 1 and log[0] == ("start",), f, case, "Start first, once", [e[0] for e in log[:6]])
        t.outcome([s["side"], s["tls"], s["opens"], s["close"], [e[0] if e[0] != "closed" else e for e in log if e[0] in ("start", "open", "closed")], hooks,
                   len(rx), len(got), rig.tls_conn.state.name, rig.closed_by_proxy])
        for lvl, msg in rig.logs:
            if lvl >= logging.WARNING:
                t.note("mitmproxy logged: " + msg[:60])


def _summ(got, want=None):
    if want is None:
        return {"len": len(got)}
    n = 0
    for a, b in zip(got, want):
        if a != b:
            break
        n += 1
    return {"len": len(got), "want_len": len(want), "common_prefix": n, "at_divergence": got[n:n + 12]}


# ---------------------------------------------------------------------------
# spec enumeration


def spec(cfg, pw, cw, piece=0, early=False, cuts=(), close="notify+tcp", hold=False, bound=0, family=None):
    side, tls, opens = cfg
    return {"side": side, "tls": tls, "opens": opens, "pw": list(pw), "cw": list(cw), "piece": piece, "early": early,
            "cuts": cuts if isinstance(cuts, str) else [list(c) for c in cuts], "close": close, "hold": hold, "bound": bound, "family": family}


def early_values(cfg):
    # a TLS 1.2 client finishes its handshake on the proxy's Finished and has no flight left to piggyback on
    return [False] if cfg[:2] == ("client", "1.2") else [False, True]


def seqs(sizes, maxlen):
    for n in range(1, maxlen + 1):
        yield from itertools.product(sizes, repeat=n)


def specs(tier):
    thorough = tier == "thorough"
    out = []
    # A. segmentation: cut families are expanded by the worker once it has measured the record layout
    seg_streams = [([100], 0), ([5], 1), ([100, 100], 0), ([16385], 0), ([40000], 0)]
    for cfg in CONFIGS:
        for early in early_values(cfg):
            for pw, piece in seg_streams:
                small = sum(pw) <= 200
                fams = ["each1"] + (["all"] if (small or thorough) and sum(pw) <= 16385 else [])
                if thorough and pw == [100, 100]:
                    fams.append("each2")
                for fam in fams:
                    out.append(spec(cfg, pw, [100], piece=piece, early=early, close="same+tcp", family=fam))
            out.append(spec(cfg, [100, 1], [100], early=early, close="notify+tcp", family="each1"))
    # B. schedules: hooks held, both directions, every close variant
    b1 = 2 if thorough else 1
    cws = [[], [100], [1, 70000]] + ([[16385, 100, 1]] if thorough else [])
    for cfg in CONFIGS:
        for pw in seqs(SIZES, 2):
            for cw in cws:
                out.append(spec(cfg, pw, cw, cuts="records", hold=True, bound=b1))
        if thorough:
            for pw in seqs(SIZES, 3):
                if len(pw) == 3:
                    for cw in ([100], [1, 70000]):
                        out.append(spec(cfg, pw, cw, cuts="records", hold=True, bound=1))
        # writes around and above the 65535-byte BIO read size, in both directions; with "none"/"tcp" nothing follows the
        # last write that could flush what the layer left behind
        for close in ("none", "tcp", "notify+tcp"):
            for pw, cw in BIG_WRITES + (BIG_WRITES_THOROUGH if thorough else []):
                out.append(spec(cfg, pw, cw, cuts="records" if sum(pw) < 100000 else (), close=close, hold=True, bound=b1))
        for close in CLOSES:
            for early in early_values(cfg):
                for cuts in ("records", ()):
                    for piece in (0, 1):
                        out.append(spec(cfg, [100, 16385] if not piece else [3, 2], [100, 1], piece=piece, early=early, cuts=cuts, close=close, hold=True, bound=b1))
    return out


def family_cuts(fam, layout, tier):
    """concrete cut sets of a family, given the measured record lengths of the stream"""
    if fam == "all":
        return ["all"]

    def offsets(ri):
        n = layout[ri]
        if n <= 300:
            return list(range(n))
        return sorted({0, 1, 4, 5, 6, n // 2, n - 17, n - 1})

    singles = [(ri, o) for ri in range(len(layout)) for o in offsets(ri) if not (ri == 0 and o == 0)]
    if fam == "each1":
        return [[c] for c in singles]
    if fam == "each2":
        # two cuts inside the first two records that carry application data (and the handshake flight before them)
        first = [c for c in singles if c[0] <= min(len(layout) - 1, 3)]
        return [[a, b] for i, a in enumerate(first) for b in first[i + 1::8]]
    raise HarnessError("unknown cut family %r" % fam)


def chunk_fn(chunk):
    t = Tally()
    for tier, s in chunk:
        if s["family"]:
            probe = {}
            base = dict(s, cuts=[], family=None)
            Exec(base).run((), Tally(), probe=probe)
            if probe.get("layout") is None:
                # the handshake did not even complete: let the plain spec report it
                _dev_rec(Exec(base), (), 0, 0, t)
                continue
            for cuts in family_cuts(s["family"], probe["layout"], tier):
                _dev_rec(Exec(dict(s, cuts=cuts, family=None)), (), 0, s["bound"], t)
        else:
            _dev_rec(Exec(s), (), 0, s["bound"], t)
    return t


def run(ctx):
    setup()
    sp = specs(ctx.tier)
    ctx.bounds = {
        "configs": ["%s/TLS%s%s" % (a, b, "" if c is None else "/child-opens" if c else "/already-open") for a, b, c in CONFIGS],
        "write_sizes": SIZES + [70000], "large_writes_both_directions": [65535, 65536, 70000, 131070, 200000] + ([65513, 65514, 300000] if ctx.thorough else []), "peer_writes": ctx.pick("1-2 per execution", "1-3 per execution"), "inner_layer_writes": "0-3 per execution",
        "record_sizes": "one SSL write per application write (records <= 16384) or per byte",
        "cuts": ctx.pick("<=1 cut: every offset of records <= 300 bytes, 8 offsets (header, middle, tag, end) of larger ones; 1-byte segmentation of streams <= 200 plaintext bytes",
                         "as quick + <=2 cuts (second cut every 8th offset) over the first records of a two-write stream + 1-byte segmentation of a 16385-byte write"),
        "early_data": "first peer write in the same segment as the peer's last handshake flight / NewSessionTickets, or separately",
        "close": CLOSES, "schedule_deviations": ctx.pick(1, 2), "specs": len(sp),
    }
    # determinism self-test: the default execution of the first schedule spec twice
    s0 = next(s for s in sp if s["hold"])
    a = Exec(s0).run((), Tally())
    b = Exec(s0).run((), Tally())
    if (list(a[0]), list(a[1])) != (list(b[0]), list(b[1])):
        raise HarnessError("default execution is not deterministic")
    ctx.log("%d specs" % len(sp))
    par.pmap_tally(chunk_fn, [(ctx.tier, s) for s in sp], ctx.tally, nchunks=256)
    ctx.log("done: %d executions" % ctx.tally.executions)


def replay(case, t: Tally, verbose=False):
    setup()
    s = dict(case)
    choices = tuple(s.pop("choices", ()))
    s["cuts"] = s["cuts"] if isinstance(s["cuts"], str) else [list(c) for c in s["cuts"]]
    s["family"] = None
    probe = {}
    Exec(s).run(choices, t, verbose=verbose, probe=probe)
    if verbose and probe.get("rig") is not None:
        rig = probe["rig"]
        print("record layout of the segmented stream:", probe["layout"])
        print("inner layer saw:", [(e[0], len(e[1])) if e[0] == "data" else e for e in rig.child_log][:40])
        print("hooks:", rig.hook_names(), "crash:", rig.crash, "logs:", rig.logs[-3:])
