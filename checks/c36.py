"""C36 - flow files round-trip every flow type; the reader is total.

Part A (state round trip): for every flow type (HTTP, HTTP+WebSocket, TCP, UDP, DNS) every
serialised field in turn takes every value of its small domain on the live flow objects
(`vmc.refs.flowgen.deviations`), then every pair of such deviations (quick: pairs of the
interacting "core" fields; thorough: all pairs); every ordered sequence of 1-3 flows from a
pool of mixed flows; every history of save attempts (same writer, same process) in which some
saves fail on an unserialisable value and others succeed.  Each flow is written with the real FlowWriter and read with the real
FlowReader; `get_state()` before and after are compared with a strictly typed comparison,
and so is an independent attribute-by-attribute observation of the live objects (a defect
on the get_state side cannot cancel itself out).

Part B (reader totality): every truncation and every single-byte substitution of base files,
every byte string up to a length bound over the structural alphabet, every small structural
tnetstring (wrong version / type / top-level shape), every single structural mutation
(delete key, add key, replace by a wrongly typed value) of every node of every base state,
current-shape states relabelled with every historical version number, deep nesting, absurd
length prefixes (BytesIO and real file).  FlowReader.stream must yield flows or raise
FlowReadException; any other exception (caught as BaseException) violates `reader_total`.
"""
from __future__ import annotations

import io
import itertools
import math
import os
import shutil

from mitmproxy import flow as mflow
from mitmproxy import version
from mitmproxy.io import compat

from vmc.refs import flowgen as G
from vmc.tally import Tally

META = {
    "level": "exploration",
    "technique": "bounded-exhaustive enumeration of flow states (<=2 field deviations from a default flow of each type, sequences of <=3 mixed flows) "
                 "through the real FlowWriter/FlowReader, and of malformed inputs (every truncation, every single-byte substitution, every short string over the "
                 "structural alphabet, every single structural mutation of every state node) through the real FlowReader",
    "claim": "within the stated grammar every flow state survives save+load with identical typed state and order, and every enumerated byte string "
             "either loads or raises FlowReadException; exploration (not model checking) because the property quantifies over inputs, not over a state machine",
    "rule": "a case is (flow type, set of <=2 field deviations) | (sequence of <=3 pool flows) | (base file, offset[, byte]) | (byte string) | (base state, node path, mutation); "
            "distinct = distinct case description; non-trivial = round-trip case whose deviation changes the saved bytes, or malformed input that touches a structural byte "
            "(length digit, colon, type tag) / changes the state tree, i.e. reaches the parser's or from_state's decision points",
    "assumptions": [
        "field values are type-correct per the class annotations; str values are valid Unicode (lone surrogates are not encodable by the format and are left out)",
        "tuple and list are the same value (the file format has one sequence type); dict key order is not part of the state",
        "metadata restricted to None/bool/int/float/str/bytes/list/tuple/dict as the property says",
        "byte-level enumeration is around base files of ~1.4-2.3 KB and all strings of length <=3 (thorough 4) over 14 structural symbols; longer arbitrary files only through the listed generators",
        "MemoryError is provoked only through the length prefix (nothing is actually allocated); genuine memory exhaustion is out of scope",
    ],
}

CUR = version.FLOW_FORMAT_VERSION
SUB_QUICK = [b"0", b"1", b"9", b":", b",", b";", b"#", b"^", b"!", b"~", b"]", b"}", b"{", b"\x00"]
SCRATCH = "/dev/shm/vmc-%d-c36" % os.getpid()

# values that are wrong for (almost) every field they replace
WRONG = [None, True, 0, -1, 2 ** 70, 1.5, math.inf, math.nan, b"", b"\xff", "", "x", [], [[]], [0, 0], ["a", math.inf], {}, {"a": 1}]
WRONG_KIND = ["none", "bool", "int", "int", "bigint", "float", "inf", "nan", "bytes", "bytes", "str", "str", "list", "list", "list", "list-inf", "dict", "dict"]

VERSIONS = sorted([v for v in compat.converters if isinstance(v, int)]) + [list(v) + [0] for v in compat.converters if not isinstance(v, int)]
JUNK_VERSIONS = [None, True, "x", "21", 1.5, math.inf, [], {}, [1], [21], [0, 10], -1, 0, 3, CUR + 1, 99, 2 ** 70, [9, 9, 9], b"21"]
TYPES = ["http", "tcp", "udp", "dns", "websocket", "dummy", "", 5, None, b"http", [1], {}]
VERLIST = VERSIONS + JUNK_VERSIONS


# ---------------------------------------------------------------------------
# part A: round trip


def rt_features(ftype, devnames):
    tab = G.dev_table(ftype)
    feats = {"ftype": ftype}
    for i, n in enumerate(devnames):
        d = tab[n]
        feats["field" if i == 0 else "field%d" % (i + 1)] = d.field
        feats["kind" if i == 0 else "kind%d" % (i + 1)] = d.kind
    if not devnames:
        feats["field"] = "(default)"
    return feats


def roundtrip_once(ftype, devnames):
    """-> (clause_that_failed or None, expected, observed, saved_bytes)"""
    f = G.build(ftype, devnames)
    try:
        o0 = G.observe(f)
        s0 = f.get_state()
        data = G.dump_flows([f])
    except KeyboardInterrupt:
        raise
    except BaseException as e:  # noqa: B036
        return "save_succeeds", "flow written", "%s: %s" % (type(e).__name__, str(e)[:200]), b""
    r = G.read_bytes(data)
    if r.end != "clean" or len(r.flows) != 1:
        return "load_yields_the_saved_flows", "1 flow, clean end", [len(r.flows), r.end, r.exc, r.msg[:200]], data
    try:
        s1 = r.flows[0].get_state()
    except KeyboardInterrupt:
        raise
    except BaseException as e:  # noqa: B036
        return "state_roundtrip", "get_state() of the loaded flow", "%s: %s" % (type(e).__name__, str(e)[:200]), data
    if type(r.flows[0]) is not type(f):
        return "state_roundtrip", type(f).__name__, type(r.flows[0]).__name__, data
    if G.canon(s0) != G.canon(s1):
        d = G.diff(s0, s1)
        return "state_roundtrip", [x[1] for x in d], [[x[0], x[2]] for x in d], data
    o1 = G.observe(r.flows[0])
    if G.canon(o0) != G.canon(o1):
        d = G.diff(o0, o1)
        return "loaded_flow_equals_saved_flow", [x[1] for x in d], [[x[0], x[2]] for x in d], data
    return None, None, None, data


_BASELEN: dict[str, bytes] = {}


def rt_case(case, t: Tally):
    ftype, devnames = case["t"], list(case["d"])
    failed, exp, obs, data = roundtrip_once(ftype, devnames)
    if ftype not in _BASELEN:
        _BASELEN[ftype] = G.dump_flows([G.base(ftype)])
    for c in ("save_succeeds", "load_yields_the_saved_flows", "state_roundtrip", "loaded_flow_equals_saved_flow"):
        if c == failed:
            feats = rt_features(ftype, devnames)
            if len(devnames) > 1:
                # minimal trigger: is one of the deviations alone enough?
                for n in devnames:
                    f1 = roundtrip_once(ftype, [n])[0]
                    if f1 == failed:
                        feats = rt_features(ftype, [n])
                        t.note("pair violation explained by a single deviation")
                        break
            t.bad(c, feats, case, exp, obs)
            break
        t.ok(c)
    t.outcome(("rt", failed))
    t.case(case if len(devnames) == 2 else None, nontrivial=bool(devnames) and data != _BASELEN[ftype], key=case)


def seq_pool():
    """flows of all types, default and deviated, used for the sequence cases"""
    return [("http", []), ("ws", []), ("tcp", []), ("udp", []), ("dns", []),
            ("http", ["response=none", "error=typical"]), ("tcp", ["messages=empty"]), ("dns", ["response=none", "metadata=nested"])]


def seq_case(case, t: Tally):
    pool = seq_pool()
    flows = [G.build(pool[i][0], pool[i][1], n=k + 1) for k, i in enumerate(case["s"])]
    feats = {"seq_len": len(flows), "reader": "file" if case.get("real") else "bytesio"}
    want = [f.get_state() for f in flows]
    wanto = [G.observe(f) for f in flows]
    data = G.dump_flows(flows)
    if case.get("real"):
        os.makedirs(SCRATCH, exist_ok=True)
        p = os.path.join(SCRATCH, "seq-%d.mitm" % os.getpid())
        with open(p, "wb") as fo:
            fo.write(data)
        with open(p, "rb") as fo:
            r = G.read(fo)
        os.unlink(p)
    else:
        r = G.read_bytes(data)
    ok = t.judge("load_yields_the_saved_flows", r.end == "clean" and len(r.flows) == len(flows), feats, case,
                 [len(flows), "clean"], [len(r.flows), r.end, r.exc, r.msg[:200]])
    if ok:
        got = [f.get_state() for f in r.flows]
        t.judge("order_kept", [s["id"] for s in got] == [s["id"] for s in want], feats, case, [s["id"] for s in want], [s["id"] for s in got])
        same = all(G.canon(a) == G.canon(b) for a, b in zip(want, got))
        t.judge("state_roundtrip", same, feats, case, None, [G.diff(a, b)[:2] for a, b in zip(want, got) if G.canon(a) != G.canon(b)][:2])
        goto = [G.observe(f) for f in r.flows]
        t.judge("loaded_flow_equals_saved_flow", all(G.canon(a) == G.canon(b) for a, b in zip(wanto, goto)), feats, case, None,
                [G.diff(a, b)[:2] for a, b in zip(wanto, goto) if G.canon(a) != G.canon(b)][:2])
    t.case(case if len(flows) == 3 else None, nontrivial=True, key=case)


# ---------------------------------------------------------------------------
# part A': write histories.  Several save attempts through one FlowWriter into one file, in one process;
# some attempts fail because the flow holds a value the format cannot serialise.  Whatever the history,
# the file must hold exactly the flows whose save succeeded, in order, with identical state.


class Unserialisable:
    def __repr__(self):
        return "<unserialisable>"


def _bad_meta(f, md):
    f.metadata = md


FAILING = {
    # kind -> (flow type, edit that makes saving the flow fail)
    "meta-top": ("http", lambda f: _bad_meta(f, {"bad": Unserialisable()})),
    "meta-first-of-many": ("http", lambda f: _bad_meta(f, {"bad": Unserialisable(), "ok": [1, 2, "x"], "ok2": {"a": b"b"}})),
    "meta-last-of-many": ("ws", lambda f: _bad_meta(f, {"ok": [1, 2, "x"], "ok2": {"a": b"b"}, "bad": Unserialisable()})),
    "meta-deep": ("dns", lambda f: _bad_meta(f, {"a": {"b": [1, "x", {"c": [Unserialisable()]}], "d": "e"}})),
    "meta-set": ("tcp", lambda f: _bad_meta(f, {"s": {1, 2}})),
    "meta-dict-key": ("udp", lambda f: _bad_meta(f, {"k": {Unserialisable(): 1}})),
    "comment": ("http", lambda f: setattr(f, "comment", Unserialisable())),
    "message-content": ("tcp", lambda f: setattr(f.messages[-1], "content", Unserialisable())),
    "ws-message-content": ("ws", lambda f: setattr(f.websocket.messages[0], "content", Unserialisable())),
}
FAIL_KINDS = list(FAILING)


def hist_symbols():
    """alphabet of one save attempt: a pool flow (succeeds) or a failing flow"""
    return [["good", i] for i in range(len(seq_pool()))] + [["bad", k] for k in FAIL_KINDS]


def hist_case(case, t: Tally):
    from mitmproxy.io import FlowWriter

    pool = seq_pool()
    hist = case["h"]
    shape = "".join("g" if a[0] == "good" else "b" for a in hist)
    first_bad = next((a[1] for a in hist if a[0] == "bad"), "-")
    feats = {"history": shape, "fail_kind": first_bad, "writer": "file" if case.get("real") else "bytesio"}
    if case.get("real"):
        os.makedirs(SCRATCH, exist_ok=True)
        p = os.path.join(SCRATCH, "hist-%d.mitm" % os.getpid())
        fo = open(p, "wb")
    else:
        fo = io.BytesIO()
    w = FlowWriter(fo)
    saved = []
    for n, (what, arg) in enumerate(hist):
        if what == "good":
            f = G.build(pool[arg][0], pool[arg][1], n=n + 1)
        else:
            f = G.base(FAILING[arg][0], n=n + 1)
            FAILING[arg][1](f)
        try:
            w.add(f)
            raised = None
        except KeyboardInterrupt:
            raise
        except BaseException as e:  # noqa: B036
            raised = "%s: %s" % (type(e).__name__, str(e)[:120])
        if what == "good":
            if t.judge("save_succeeds", raised is None, feats, case, "flow written", raised):
                saved.append(f)
        elif raised is None:
            t.note("saving a flow with an unserialisable value did not raise")
            saved = None
            break
    if case.get("real"):
        fo.close()
        with open(p, "rb") as fi:
            r = G.read(fi)
        os.unlink(p)
    else:
        r = G.read_bytes(fo.getvalue())
    if saved is not None:
        judge_loaded(r, saved, feats, case, t)
    t.case(case if shape == "bg" and len(t.samples) < 3 else None, nontrivial="bg" in shape, key=case)


def judge_loaded(r, flows, feats, case, t: Tally):
    want = [f.get_state() for f in flows]
    ok = t.judge("load_yields_the_saved_flows", r.end == "clean" and len(r.flows) == len(flows), feats, case,
                 [len(flows), "clean"], [len(r.flows), r.end, r.exc, r.msg[:200]])
    if ok:
        got = [f.get_state() for f in r.flows]
        t.judge("order_kept", [s["id"] for s in got] == [s["id"] for s in want], feats, case, [s["id"] for s in want], [s["id"] for s in got])
        same = all(G.canon(a) == G.canon(b) for a, b in zip(want, got))
        t.judge("state_roundtrip", same, feats, case, None, [G.diff(a, b)[:2] for a, b in zip(want, got) if G.canon(a) != G.canon(b)][:2])


# ---------------------------------------------------------------------------
# part B: reader totality

_BASEFILES: dict[str, bytes] = {}
_STRUCT: dict[str, set] = {}


def basefile(bid: str) -> bytes:
    if bid not in _BASEFILES:
        if bid in G.FTYPES:
            _BASEFILES[bid] = G.dump_flows([G.base(bid)])
        else:
            with open(os.path.join(G.DATA_DIR, bid), "rb") as f:
                _BASEFILES[bid] = f.read()
        _STRUCT[bid] = G.structural_positions(_BASEFILES[bid])
    return _BASEFILES[bid]


def judge_total(r: G.ReadResult, src, case, t: Tally):
    feats = {"exc": r.exc or "-", "stage": r.stage or "-", "src": src}
    if t.judge("reader_terminates", r.end != "nonterminating", feats, case, "the reader returns", r.msg):
        t.judge("reader_total", r.end in ("clean", "flow_read_error"), feats, case,
                "flows or FlowReadException", "%s at stage %s: %s" % (r.exc, r.stage, r.msg))
    t.judge("yields_flow_objects", all(isinstance(f, mflow.Flow) for f in r.flows), {"src": src}, case, "Flow instances", [type(f).__name__ for f in r.flows][:3])
    t.outcome((len(r.flows), r.end, r.exc, r.stage))


def state_get(state, path):
    for k in path:
        state = state[k]
    return state


def node_paths(x, path=()):
    """every node of a state tree (dict values and list items), parents first"""
    out = []
    if isinstance(x, dict):
        for k, v in x.items():
            out.append(path + (k,))
            out.extend(node_paths(v, path + (k,)))
    elif isinstance(x, (list, tuple)):
        for i, v in enumerate(x[:3]):  # lists are homogeneous: the first three items stand for all
            out.append(path + (i,))
            out.extend(node_paths(v, path + (i,)))
    return out


def dict_paths(x, path=()):
    out = []
    if isinstance(x, dict):
        out.append(path)
        for k, v in x.items():
            out.extend(dict_paths(v, path + (k,)))
    elif isinstance(x, (list, tuple)):
        for i, v in enumerate(x[:3]):
            out.extend(dict_paths(v, path + (i,)))
    return out


def to_mutable(x):
    if isinstance(x, dict):
        return {k: to_mutable(v) for k, v in x.items()}
    if isinstance(x, (list, tuple)):
        return [to_mutable(v) for v in x]
    return x


_BASESTATE: dict[str, dict] = {}


def base_state(bid):
    if bid not in _BASESTATE:
        f = G.build(bid, ["error=typical"])
        _BASESTATE[bid] = f.get_state()
    return to_mutable(_BASESTATE[bid])


def apply_mut(state, mut):
    op, path = mut[0], list(mut[1])
    parent = state_get(state, path[:-1]) if op != "add" else state_get(state, path)
    if op == "del":
        del parent[path[-1]]
    elif op == "set":
        parent[path[-1]] = WRONG[mut[2]]
    elif op == "add":
        parent["unknown_key"] = 1
    elif op == "dup":  # list item duplicated / list emptied handled by set
        parent.insert(path[-1], parent[path[-1]])


def total_case(case, t: Tally):
    k = case["k"]
    nontrivial = True
    if k == "trunc":
        data = basefile(case["b"])[: case["o"]]
        r = G.read_bytes(data)
        src = "truncation"
    elif k == "sub":
        base = basefile(case["b"])
        o, v = case["o"], case["v"]
        nontrivial = o in _STRUCT[case["b"]] and base[o] != v
        r = G.read_bytes(base[:o] + bytes([v]) + base[o + 1:])
        src = "substitution"
    elif k == "raw":
        r = G.read_bytes(case["data"])
        src = case["shape"]
    elif k == "tn":
        r = G.read_bytes(G.tn(tn_values()[case["i"]][1]))
        src = case["shape"]
    elif k == "mut":
        st = base_state(case["b"])
        for m in case["m"]:
            apply_mut(st, m)
        r = G.read_bytes(G.tn(st))
        ops = sorted({m[0] for m in case["m"]})
        src = "state-" + "+".join(ops)
    elif k == "ver":
        st = base_state(case["b"])
        st["version"] = VERLIST[case["ver_i"]]
        if case.get("bytes_keys"):
            st = {kk.encode(): vv for kk, vv in st.items()}
        r = G.read_bytes(G.tn(st))
        src = "current-shape-old-version"
    elif k == "nest":
        inner = b"0:" + case["tag"]
        for _ in range(case["depth"]):
            if case["tag"] == b"}":
                inner = b"1:k," + inner
            inner = str(len(inner)).encode() + b":" + inner + case["tag"]
        r = G.read_bytes(inner)
        src = "deep-nesting"
    elif k == "hugelen":
        data = b"9" * case["digits"] + b":" + case.get("tail", b"")
        if case["real"]:
            os.makedirs(SCRATCH, exist_ok=True)
            p = os.path.join(SCRATCH, "huge-%d.mitm" % os.getpid())
            with open(p, "wb") as fo:
                fo.write(data)
            with open(p, "rb") as fo:
                r = G.read(fo)
            os.unlink(p)
        else:
            r = G.read_bytes(data)
        src = "huge-length-prefix" + ("-file" if case["real"] else "")
    else:
        raise ValueError(k)
    judge_total(r, src, case, t)
    t.case(case if k in ("mut", "tn") else None, nontrivial=nontrivial, key=case)


def one(case, t: Tally):
    k = case["k"]
    if k == "rt":
        rt_case(case, t)
    elif k == "seq":
        seq_case(case, t)
    elif k == "hist":
        hist_case(case, t)
    else:
        total_case(case, t)


def chunk(cases):
    t = Tally()
    for c in cases:
        one(c, t)
    return t


# ---------------------------------------------------------------------------
# enumeration


def rt_cases(thorough):
    singles, pairs = [], []
    for ft in G.FTYPES:
        devs = G.deviations(ft)
        singles.append({"k": "rt", "t": ft, "d": []})
        for d in devs:
            singles.append({"k": "rt", "t": ft, "d": [d.name]})
        pool = devs if thorough else [d for d in devs if d.core]
        for a, b in itertools.combinations(pool, 2):
            if not G.conflict(a, b):
                pairs.append({"k": "rt", "t": ft, "d": [a.name, b.name]})
    return singles, pairs


def seq_cases(maxlen):
    n = len(seq_pool())
    out = []
    for ln in range(1, maxlen + 1):
        for s in itertools.product(range(n), repeat=ln):
            out.append({"k": "seq", "s": list(s), "real": ln == maxlen or ln == 1})
    return out


def hist_cases(maxlen):
    """every history of 1..maxlen save attempts that contains at least one failing attempt"""
    syms = hist_symbols()
    out = []
    for ln in range(1, maxlen + 1):
        for h in itertools.product(syms, repeat=ln):
            if any(a[0] == "bad" for a in h):
                out.append({"k": "hist", "h": [list(a) for a in h], "real": h[-1][0] == "good" and ln == maxlen})
    return out


def short_strings(maxlen):
    alpha = [b[0] for b in SUB_QUICK]
    for ln in range(0, maxlen + 1):
        for s in itertools.product(alpha, repeat=ln):
            yield bytes(s)


RAW_EXTRA = [
    ("malformed-frame", b"03:abc,"), ("malformed-frame", b"-1:a,"), ("malformed-frame", b"3:ab,"), ("malformed-frame", b"3:abcd"), ("malformed-frame", b" 0:~"),
    ("malformed-frame", b"0:~ "), ("malformed-frame", b"1: ,"), ("malformed-frame", b"1:a?"), ("malformed-frame", b"2:1e#"), ("malformed-frame", b"3:1_0#"),
    ("malformed-frame", b"3:nan^"), ("malformed-frame", b"4:1e+5#"), ("malformed-frame", b"4:TRUE!"), ("malformed-frame", b"1:a~"), ("malformed-frame", b"2:\xff\xfe;"),
    ("malformed-frame", b"4300:" + b"9" * 4300 + b"#"), ("malformed-frame", b"5000:" + b"9" * 5000 + b"#"), ("malformed-frame", b"\xef\xbb\xbf"),
    ("malformed-frame", b"\xef\xbb\xbf0:~"), ("malformed-frame", b"0000000000000:~"), ("malformed-frame", b"1234567890123:"),
    ("dict-odd-items", b"4:1:a,}"), ("dict-unhashable-key", b"10:0:]1:a,}"), ("dict-unhashable-key", b"8:0:}0:~}"), ("dict-dup-key", b"32:7:version;2:21#7:version;2:22#}"),
    ("dict-nonstr-key", b"8:1:5#0:~}"), ("dict-nonstr-key", b"7:0:~0:~}"), ("dict-nonstr-key", b"21:7:version,2:21#}"),
    ("har", b"{"), ("har", b"{}"), ("har", b'{"log":{"entries":[]}}'), ("har", b'{"log":{"entries":[{}]}}'), ("har", b'{"log":{"entries":{}}}'),
    ("har", b'\xef\xbb\xbf{"log":{"entries":[{"request":{}}]}}'), ("har", b'{"log":{"entries":[5]}}'), ("har", b'{"log":5}'), ("har", b'{"a":' + b"[" * 100000 + b"]" * 100000 + b"}"),
    ("har", b'{"log":{"entries":[{"request":{"method":"GET","url":"http://a/","httpVersion":"HTTP/1.1","headers":[],"cookies":[],"queryString":[],"headersSize":0,"bodySize":0},'
            b'"response":{"status":200,"statusText":"OK","httpVersion":"HTTP/1.1","headers":[],"cookies":[],"content":{"size":0,"mimeType":"x"},"redirectURL":"","headersSize":0,"bodySize":0},'
            b'"startedDateTime":"2020-01-01T00:00:00.000Z","time":1,"timings":{}}]}}'),
    ("har", b"{\xff"),
]

LEAVES = [None, True, False, 0, CUR, 1.5, b"", b"a", "", "http"]


_TN: list = []


def tn_values():
    """(shape, value) of every structural tnetstring case; cases refer to them by index (values are not all JSON-able)"""
    if _TN:
        return _TN
    out = _TN
    for v in LEAVES + [[], [[]], [0], {}, [{}], [{"version": CUR}]]:
        out.append(("toplevel-nondict" if not isinstance(v, dict) else "empty-dict", v))
    allv = VERSIONS + [CUR] + JUNK_VERSIONS
    for v in allv:
        out.append(("version-only", {"version": v}))
        out.append(("version-only", {b"version": v}))
        for ty in TYPES:
            out.append(("version+type", {"version": v, "type": ty}))
    # sparse current-version states: version, type and one more key with any leaf / container
    for ty in ["http", "tcp", "udp", "dns"]:
        keys = list(base_state({"http": "http", "tcp": "tcp", "udp": "udp", "dns": "dns"}[ty]).keys())
        for key in keys:
            if key in ("version", "type"):
                continue
            for w in range(len(WRONG)):
                out.append(("sparse-state", {"version": CUR, "type": ty, key: WRONG[w]}))
    # two-level generic trees: dict with two entries over a small key/leaf alphabet
    keys = ["version", "type", "id", "x"]
    vals = [None, 0, CUR, "http", b"", [], {}]
    for k1, k2 in itertools.permutations(keys, 2):
        for v1 in vals:
            for v2 in vals:
                out.append(("two-entry-dict", {k1: v1, k2: v2}))
    return out


def mut_cases(pairs):
    out = []
    for bid in G.FTYPES:
        st = base_state(bid)
        singles = []
        for p in node_paths(st):
            singles.append(["del", list(p)])
            for w in range(len(WRONG)):
                singles.append(["set", list(p), w])
            if isinstance(p[-1], int):
                singles.append(["dup", list(p)])
        for p in dict_paths(st):
            singles.append(["add", list(p)])
        for m in singles:
            out.append({"k": "mut", "b": bid, "m": [m]})
        if pairs:
            top = [m for m in singles if len(m[1]) == 1 and (m[0] != "set" or m[2] in (0, 2, 6, 8, 12, 16))]
            for a, b in itertools.combinations(top, 2):
                if a[1] != b[1]:
                    out.append({"k": "mut", "b": bid, "m": [a, b]})
    return out


def run(ctx):
    thorough = ctx.thorough
    seqlen = ctx.pick(2, 3)
    strlen = ctx.pick(3, 4)
    alpha = [b[0] for b in SUB_QUICK]
    # quick: http and udp are left to thorough (the ws file contains a complete HTTP flow state, udp has the shape of tcp)
    bases = (list(G.FTYPES) if thorough else ["ws", "tcp", "dns"]) + ["dumpfile-10.mitm"] + (["dumpfile-011.mitm", "dumpfile-018.mitm"] if thorough else [])
    full256 = set(G.FTYPES + ["dumpfile-10.mitm"]) if thorough else set()

    singles, pairs = rt_cases(thorough)
    seqs = seq_cases(seqlen)
    hists = hist_cases(seqlen)
    cases = singles + pairs + seqs + hists
    ctx.log("round trip: %d single-deviation flows, %d two-deviation flows, %d sequences, %d write histories with failing saves" % (len(singles), len(pairs), len(seqs), len(hists)))

    total = []
    for b in bases:
        data = basefile(b)
        for o in range(len(data) + 1):
            total.append({"k": "trunc", "b": b, "o": o})
        for o in range(len(data)):
            # thorough: all 256 values where the byte is structural (length digit, colon, type tag), the alphabet elsewhere
            for v in (range(256) if (b in full256 and o in _STRUCT[b]) else alpha):
                if v != data[o]:
                    total.append({"k": "sub", "b": b, "o": o, "v": v})
    nbyte = len(total)
    for s in short_strings(strlen):
        total.append({"k": "raw", "shape": "short-string", "data": s})
    for shape, s in RAW_EXTRA:
        total.append({"k": "raw", "shape": shape, "data": s})
    tns = [{"k": "tn", "i": i, "shape": sh} for i, (sh, _) in enumerate(tn_values())]
    muts = mut_cases(thorough)
    vers = []
    for b in G.FTYPES:
        for vi, v in enumerate(VERLIST):
            vers.append({"k": "ver", "b": b, "ver_i": vi})
            if isinstance(v, list):
                vers.append({"k": "ver", "b": b, "ver_i": vi, "bytes_keys": True})
    special = []
    for tag in (b"]", b"}"):
        for depth in (50, 200, 5000):
            special.append({"k": "nest", "tag": tag, "depth": depth})
    for real in (False, True):
        for digits in (9, 12, 13):
            special.append({"k": "hugelen", "digits": digits, "real": real})
        special.append({"k": "hugelen", "digits": 12, "real": real, "tail": b"abc,"})
    total += tns + muts + vers + special
    ctx.log("reader totality: %d truncations/substitutions of %d base files, %d short strings + %d hand-written, %d structural tnetstrings, %d state mutations, %d relabelled versions, %d special"
            % (nbyte, len(bases), len(total) - nbyte - len(RAW_EXTRA) - len(tns) - len(muts) - len(vers) - len(special), len(RAW_EXTRA), len(tns), len(muts), len(vers), len(special)))

    ctx.bounds = {
        "flow_types": G.FTYPES,
        "deviations_per_type": {ft: len(G.deviations(ft)) for ft in G.FTYPES},
        "fields_per_type": {ft: len({d.field for d in G.deviations(ft)}) for ft in G.FTYPES},
        "max_deviations": 2, "pair_space": "all pairs on different fields" if thorough else "pairs of core (interacting) fields",
        "sequence_pool": len(seq_pool()), "max_sequence_length": seqlen,
        "write_histories": "every sequence of <=%d save attempts over %d succeeding and %d failing flows (unserialisable value at %s) with >=1 failure" % (
            seqlen, len(seq_pool()), len(FAIL_KINDS), ", ".join(FAIL_KINDS)),
        "base_files": bases, "substitution_values": "all 256 at structural bytes of the 6 small base files, 14-symbol alphabet elsewhere" if thorough else "14-symbol alphabet at every byte", "short_string_alphabet": [s.decode("latin1") for s in SUB_QUICK],
        "short_string_maxlen": strlen, "wrong_values": len(WRONG), "state_mutation_pairs": bool(thorough),
        "versions_relabelled": len(VERSIONS) + len(JUNK_VERSIONS), "nesting_depths": [50, 200, 5000],
    }
    ctx.info["cases_roundtrip"] = len(cases)
    ctx.info["cases_reader_total"] = len(total)
    try:
        G.run_cases(one, cases + total, ctx.tally)
    finally:
        shutil.rmtree(SCRATCH, ignore_errors=True)


def replay(case, t: Tally, verbose=False):
    try:
        one(case, t)
    finally:
        shutil.rmtree(SCRATCH, ignore_errors=True)
    if verbose:
        print("  case:", {k: (v if not isinstance(v, bytes) or len(v) < 80 else v[:80] + b"...") for k, v in case.items()})
