"""C13 - ClientHello parsing is total and independent of segmentation.

Engine E.  Every case is a list of byte segments fed to the real parsing code
(`parse_client_hello` / `dtls_parse_client_hello` directly, or `ClientTLSLayer` up to
the `tls_clienthello` hook) and judged against `vmc.refs.tlsref`, an independent strict
ClientHello reader:

  grammar   every hello of a field grammar (version, session id, ciphers, compression,
            SNI forms, ALPN forms, other/duplicate/empty extensions, order, no/empty
            extension block), TLS and DTLS, plus hellos produced by OpenSSL (stdlib `ssl`
            for TLS, libssl's DTLS client for DTLS)
  frag      every way to cut a hello into <= k+1 handshake records
  prefix    every proper prefix of a (fragmented) valid first flight
  seg       every way to cut the byte stream into <= k+1 TCP segments (and 1-byte segments),
            through the real ClientTLSLayer
  subst     every single-byte substitution, trunc: every re-framed truncation,
  short     every short string over the bytes the record / handshake framing tests for
"""
from __future__ import annotations

import itertools
import ssl

from mitmproxy import connection
from mitmproxy import options as moptions
from mitmproxy.proxy import commands as mcommands
from mitmproxy.proxy import context as mcontext
from mitmproxy.proxy import events as mevents
from mitmproxy.proxy import layer as mlayer
from mitmproxy.proxy.layers import tls as ptls
from mitmproxy.tls import ClientHello

from vmc import par
from vmc.refs import tlsref as R
from vmc.tally import HarnessError, Tally

META = {
    "level": "exploration",
    "technique": "bounded-exhaustive enumeration of ClientHello grammars, record fragmentations, TCP segmentations, "
                 "truncations and single-byte substitutions on the real parser and ClientTLSLayer, judged against an independent strict ClientHello reader",
    "claim": "within the stated grammar and cut bounds every first flight is classified as incomplete / ClientHello / invalid without any other failure, "
             "every hello the independent reader accepts is reported with the same SNI, ALPN, ciphers and extensions, and no split into records or segments changes that; "
             "exploration (not model checking) because the subject is a pure function of its input bytes",
    "rule": "a case is (protocol, list of byte segments, direct call or layer); distinct by its generator coordinates (base hello, cut positions / substituted byte / truncation length); "
            "non-trivial = the bytes get past the 5/13-byte record header test, i.e. reach record reassembly or the kaitai parser",
    "assumptions": [
        "tlsref (vmc/refs/tlsref.py) is the independent reader; it is strict, and agreement is only demanded for inputs it accepts",
        "SNI: a single host_name entry that is a plain LDH host name must be reported verbatim; for every other server_name content (invalid characters, trailing dot, "
        "underscore, IP literal, punycode-looking labels, several names, duplicate extensions) None or a name that is on the wire is accepted",
        "ALPN with duplicate ALPN extensions: any one of the lists is accepted",
        "random, session id and key_share bytes of OpenSSL-produced hellos are overwritten with a fixed pattern so that runs are deterministic",
        "DTLS: mitmproxy's own notion of a hello 'split over records' (TLS-style continuation records) is checked for invariance; RFC 6347 handshake "
        "fragmentation is checked by the separate clause dtls_handshake_fragments_reassembled",
        "ClientHello.raw_bytes() is only called for TLS (it is documented to raise NotImplementedError for DTLS)",
        "the layer is driven only up to the tls_clienthello hook (the hook is never answered)",
    ],
}

# ---------------------------------------------------------------------------
# base hellos

SID32 = bytes(range(0x40, 0x60))
LABEL63 = b"a" * 63

SNI_FORMS = {
    "none": None,
    "valid": [(0, b"example.com")],
    "upper": [(0, b"EXAMPLE.Com")],
    "underscore": [(0, b"a_b.example.com")],
    "dot": [(0, b"example.com.")],
    "puny": [(0, b"xn--bcher-kva.example")],
    "badpuny": [(0, b"xn--a.example")],
    "ip": [(0, b"10.0.0.1")],
    "space": [(0, b"exa mple.com")],
    "nonascii": [(0, b"ex\xe4mple.com")],
    "lf": [(0, b"example.com\n")],
    "nul": [(0, b"exam\x00ple.com")],
    "empty": [(0, b"")],
    "long": [(0, LABEL63 + b".example")],
    "two": [(0, b"a.example"), (0, b"b.example")],
    "type1": [(1, b"example.com")],
}
ALPN_FORMS = {
    "none": None,
    "h2h1": [b"h2", b"http/1.1"],
    "empty": [],
    "h1": [b"http/1.1"],
    "odd": [b"\x00\xff", b"x" * 255],
}
OTHER_FORMS = {
    "none": [],
    "unknown": [R.ext(0xFAFA, b"\x01\x02\x03")],
    "emptyext": [R.ext(23, b"")],
    "dup_unknown": [R.ext(0xFAFA, b"\x01"), R.ext(0xFAFA, b"\x02\x03")],
    "versions": [R.ext(43, b"\x02\x03\x04")],
    "padding": [R.ext(21, bytes(64))],
    "dup_sni": [R.ext_sni([(0, b"other.example")])],
    "dup_alpn": [R.ext_alpn([b"spdy/3"])],
}
ORDERS = ["sni_first", "alpn_first", "other_first"]
VERSIONS = [0x0303, 0x0301]
SIDS = [SID32, b""]
CIPHERS = [(0x1301, 0x1302, 0xC02F, 0x00FF), (0x1301,), tuple(range(0xC001, 0xC029))]
COMPS = [b"\x00", b"\x01\x00"]
BLOCKS = ["block", "noblock", "emptyblock"]

DEFAULT = {"version": 0x0303, "sid": SID32, "ciphers": CIPHERS[0], "comp": b"\x00", "sni": "valid", "alpn": "h2h1",
           "other": "unknown", "order": "sni_first", "block": "block"}


def g_body(f, dtls, cookie=b""):
    exts = None
    if f["block"] == "emptyblock":
        exts = []
    elif f["block"] == "block":
        s = [R.ext_sni(SNI_FORMS[f["sni"]])] if SNI_FORMS[f["sni"]] is not None else []
        a = [R.ext_alpn(ALPN_FORMS[f["alpn"]])] if ALPN_FORMS[f["alpn"]] is not None else []
        o = OTHER_FORMS[f["other"]]
        if f["order"] == "sni_first":
            exts = s + o[:1] + a + o[1:]
        elif f["order"] == "alpn_first":
            exts = a + o[:1] + s + o[1:]
        else:
            exts = list(o) + a + s
    return R.body(f["version"], None, f["sid"], cookie if dtls else None, f["ciphers"], f["comp"], exts)


def g_core():
    """default hello plus every hello that deviates from it in exactly one field"""
    out = [dict(DEFAULT)]

    def dev(k, vals):
        for v in vals:
            if v != DEFAULT[k]:
                d = dict(DEFAULT)
                d[k] = v
                out.append(d)

    dev("sni", SNI_FORMS)
    dev("alpn", ALPN_FORMS)
    dev("other", OTHER_FORMS)
    dev("order", ORDERS)
    dev("version", VERSIONS)
    dev("sid", SIDS)
    dev("ciphers", CIPHERS)
    dev("comp", COMPS)
    dev("block", BLOCKS)
    return out


def g_all(full):
    """the product of all extension-level fields x (one-deviates | full product) of the fixed-part fields"""
    fixed = []
    if full:
        for v, s, c, m in itertools.product(VERSIONS, SIDS, CIPHERS, COMPS):
            fixed.append({"version": v, "sid": s, "ciphers": c, "comp": m})
    else:
        base = {k: DEFAULT[k] for k in ("version", "sid", "ciphers", "comp")}
        fixed.append(base)
        for k, vals in (("version", VERSIONS), ("sid", SIDS), ("ciphers", CIPHERS), ("comp", COMPS)):
            for v in vals:
                if v != base[k]:
                    fixed.append({**base, k: v})
    for fx in fixed:
        for sn, al, ot, od in itertools.product(SNI_FORMS, ALPN_FORMS, OTHER_FORMS, ORDERS):
            yield {**fx, "sni": sn, "alpn": al, "other": ot, "order": od, "block": "block"}
        yield {**fx, "sni": "none", "alpn": "none", "other": "none", "order": "sni_first", "block": "noblock"}
        yield {**fx, "sni": "none", "alpn": "none", "other": "none", "order": "sni_first", "block": "emptyblock"}


PATTERN = bytes((i * 7 + 3) & 255 for i in range(4096))


def _normalise(h: R.Hello, dtls):
    """rebuild an OpenSSL-produced hello with the random material replaced by a fixed pattern"""
    exts = None
    if h.extensions is not None:
        exts = []
        for t, b in h.extensions:
            if t == 0x33 and len(b) >= 2:  # key_share: keep the structure, overwrite the key material
                p = 2
                nb = bytearray(b)
                while p + 4 <= len(b):
                    ln = (b[p + 2] << 8) | b[p + 3]
                    nb[p + 4:p + 4 + ln] = PATTERN[:ln]
                    p += 4 + ln
                b = bytes(nb[:len(b)])
            exts.append(R.ext(t, b))
    return R.body(h.version, PATTERN[100:132], PATTERN[200:200 + len(h.session_id)], h.cookie if dtls else None,
                  h.ciphers, h.compression, exts)


def ssl_hellos():
    """TLS hellos from the stdlib ssl module (OpenSSL client), as handshake bodies"""
    out = []
    for sni in (None, "example.com", "a" * 63 + ".example", "xn--bcher-kva.example", "10.0.0.1"):
        for alpn in (None, ["h2", "http/1.1"], ["http/1.1"]):
            for maxv in (ssl.TLSVersion.TLSv1_3, ssl.TLSVersion.TLSv1_2):
                c = ssl.SSLContext(ssl.PROTOCOL_TLS_CLIENT)
                c.check_hostname = False
                c.verify_mode = ssl.CERT_NONE
                c.maximum_version = maxv
                if alpn:
                    c.set_alpn_protocols(alpn)
                i, o = ssl.MemoryBIO(), ssl.MemoryBIO()
                s = c.wrap_bio(i, o, server_hostname=sni)
                try:
                    s.do_handshake()
                except ssl.SSLWantReadError:
                    pass
                raw = o.read()
                r = R.read_tls(raw)
                if r.status != "hello":
                    raise HarnessError("tlsref cannot read a hello produced by the ssl module: %r" % r)
                b = _normalise(r.hello, False)
                if len(R.tls_records(R.hs_tls(b))) != len(raw):
                    raise HarnessError("normalised ssl hello changed size")
                name = "ssl:%s:%s:%s" % (sni, "+".join(alpn or []), maxv.name)
                out.append((name, b, (raw[1] << 8) | raw[2]))
    return out


def openssl_dtls_hellos():
    """DTLS hellos from libssl's DTLS client (via pyOpenSSL as a byte generator only)"""
    from OpenSSL import SSL

    out = []
    for sni in (None, b"example.com"):
        for alpn in (None, [b"h2", b"http/1.1"]):
            c = SSL.Context(SSL.DTLS_CLIENT_METHOD)
            if alpn:
                c.set_alpn_protos(alpn)
            conn = SSL.Connection(c)
            if sni:
                conn.set_tlsext_host_name(sni)
            conn.set_connect_state()
            try:
                conn.do_handshake()
            except SSL.WantReadError:
                pass
            raw = conn.bio_read(65535)
            r = R.read_dtls(raw)
            if r.status != "hello":
                raise HarnessError("tlsref cannot read a DTLS hello produced by OpenSSL: %r" % r)
            b = _normalise(r.hello, True)
            name = "openssl-dtls:%s:%s" % (sni, b"+".join(alpn or []))
            out.append((name, b, (raw[1] << 8) | raw[2]))
    return out


# bases are built once in the parent and inherited by the forked workers
CORE: list = []  # (name, tls_body, dtls_body)
SSLB: list = []  # (name, tls_body, record_version_seen)
DTLSB: list = []  # (name, dtls_body, record_version_seen)
ALL: list = []  # field dicts


def build_bases(full):
    global CORE, SSLB, DTLSB, ALL
    CORE = []
    for f in g_core():
        name = "g:" + ",".join("%s=%s" % (k, f[k] if isinstance(f[k], (str, int)) else len(f[k])) for k in sorted(f) if f[k] != DEFAULT[k])
        CORE.append((name, g_body(f, False), g_body(f, True, b"")))
    SSLB = ssl_hellos()
    DTLSB = openssl_dtls_hellos()
    ALL = list(g_all(full))


# ---------------------------------------------------------------------------
# running the real code

def _acc(ch, proto):
    vals = []
    for name in ("sni", "alpn_protocols", "cipher_suites", "extensions"):
        try:
            v = getattr(ch, name)
        except KeyboardInterrupt:
            raise
        except BaseException as e:
            return ("crash", name, type(e).__name__)
        vals.append(v)
    try:
        repr(ch)
        if proto == "tls":
            rb = ch.raw_bytes()
            if not isinstance(rb, bytes):
                return ("crash", "raw_bytes", "returned " + type(rb).__name__)
    except KeyboardInterrupt:
        raise
    except BaseException as e:
        return ("crash", "repr/raw_bytes", type(e).__name__)
    sni, alpn, cs, ex = vals
    if not (sni is None or isinstance(sni, str)):
        return ("crash", "sni", "returned " + type(sni).__name__)
    if not (isinstance(alpn, list) and all(isinstance(x, bytes) for x in alpn)):
        return ("crash", "alpn_protocols", "returned non list[bytes]")
    if not (isinstance(cs, list) and all(isinstance(x, int) for x in cs)):
        return ("crash", "cipher_suites", "returned non list[int]")
    try:
        ex = [(int(a), bytes(b)) for a, b in ex]
    except Exception:
        return ("crash", "extensions", "returned non list[(int, bytes)]")
    return ("hello", sni, list(alpn), list(cs), ex)


def direct(proto, data):
    fn = ptls.dtls_parse_client_hello if proto == "dtls" else ptls.parse_client_hello
    try:
        ch = fn(data)
    except ValueError:
        return ("invalid",)
    except KeyboardInterrupt:
        raise
    except BaseException as e:
        return ("crash", "parse", type(e).__name__)
    if ch is None:
        return ("none",)
    if not isinstance(ch, ClientHello):
        return ("crash", "parse", "returned " + type(ch).__name__)
    return _acc(ch, proto)


OPTS = moptions.Options()


def through_layer(proto, segs):
    """-> (outcome, hooks, conn_sni, conn_alpn_offers).  outcome like direct(); 'invalid' = the layer failed the handshake"""
    client = connection.Client(peername=("192.0.2.1", 1234), sockname=("192.0.2.2", 443), timestamp_start=0,
                               transport_protocol="udp" if proto == "dtls" else "tcp",
                               state=connection.ConnectionState.OPEN)
    ctx = mcontext.Context(client, OPTS)
    mlayer.Layer(ctx)  # a parent so that context.layers[-2] exists
    outcome = ("none",)
    hooks = 0
    csni = calpn = None
    try:
        lay = ptls.ClientTLSLayer(ctx)
        list(lay.handle_event(mevents.Start()))
        for s in segs:
            for c in lay.handle_event(mevents.DataReceived(client, s)):
                if isinstance(c, ptls.TlsClienthelloHook):
                    hooks += 1
                    if hooks == 1:
                        outcome = _acc(c.data.client_hello, proto)
                        csni, calpn = client.sni, list(client.alpn_offers)
                elif isinstance(c, (ptls.TlsFailedClientHook, mcommands.CloseConnection)):
                    if outcome == ("none",):
                        outcome = ("invalid",)
    except KeyboardInterrupt:
        raise
    except BaseException as e:
        return ("crash", "layer", type(e).__name__), hooks, None, None
    return outcome, hooks, csni, calpn


def ref_read(proto, data):
    return R.read_dtls(data) if proto == "dtls" else R.read_tls(data)


# ---------------------------------------------------------------------------
# judging

def feats_of(case):
    f = {"proto": case["proto"], "kind": case["kind"], "split": case.get("split", "none")}
    if case["proto"] == "dtls":
        # record-layer version of the first record, read from the bytes themselves
        d = b"".join(case["segs"])[:3]
        f["recver"] = {b"\x16\xfe\xfd": "fefd", b"\x16\xfe\xff": "feff"}.get(d, "other")
    return f


def j_total(t, out, case, f):
    if out[0] == "crash":
        t.bad("total", {**f, "where": out[1], "exc": out[2]}, case, "None | ClientHello | ValueError, accessors never raise", list(out))
        return False
    t.ok("total")
    return True


def j_agree(t, out, h: R.Hello, case, f):
    """tlsref read a ClientHello: mitmproxy must report one with the same values"""
    if not t.judge("valid_hello_is_parsed", out[0] == "hello", f, case, "ClientHello", list(out)):
        return
    _, sni, alpn, cs, ex = out
    must, allowed = R.sni_expectation(h)
    ok = (sni == must) if must is not None else (sni in allowed)
    t.judge("sni_agrees", ok, f, case, must if must is not None else sorted(allowed, key=repr), sni)
    t.judge("alpn_agrees", alpn in R.alpn_expectation(h), f, case, R.alpn_expectation(h), alpn)
    t.judge("ciphers_agree", cs == h.ciphers, f, case, h.ciphers, cs)
    t.judge("extensions_agree", ex == h.ext_list(), f, case, h.ext_list(), ex)


def judge(case, t: Tally, verbose=False):
    """case: {"proto", "kind", "split", "mode": "direct"|"layer", "segs": [bytes], "base": bytes|None, "prefix_of_valid": bool}"""
    proto = case["proto"]
    f = feats_of(case)
    data = b"".join(case["segs"])
    ref = ref_read(proto, data)
    split = case.get("split", "none")
    if case["mode"] == "direct":
        out = direct(proto, data)
        if verbose:
            print("  direct(%d bytes) -> %r ; tlsref -> %r" % (len(data), out, ref))
        t.outcome(_oc(out))
        if not j_total(t, out, case, f):
            return out
        if case.get("prefix_of_valid"):
            # (a TLS-style continuation split of a DTLS hello is outside tlsref's DTLS reader; there the flight is
            # incomplete by construction: the last record completes the hello)
            if ref.status != "incomplete" and split != "dtls-raw":
                raise HarnessError("tlsref does not call a proper prefix of a valid first flight incomplete: %r" % ref)
            t.judge("prefix_is_incomplete", out == ("none",), f, case, ["none"], list(out))
            return out
        if split == "dtls-hsfrag":
            base_out = direct(proto, case["base"])
            t.judge("dtls_handshake_fragments_reassembled", out == base_out, f, case, list(base_out), list(out))
            return out
        if ref.status == "hello":
            j_agree(t, out, ref.hello, case, f)
        elif case.get("foreign") or (ref.status == "invalid" and ref.reason == "record content type"):
            # before the hello is complete the flight contains a record that is not a handshake record of a TLS/DTLS
            # version (application data, alert, CCS, other version, plain garbage): no TLS reader reads a ClientHello
            # out of that, so reporting one (spliced together across the foreign record) disagrees with every reader
            if case.get("foreign") and proto == "tls" and ref.status != "invalid":
                # the inserted bytes happen to look like a handshake record header: not a foreign record after all
                t.note("generated foreign record reads as a handshake record; case not judged")
                return out
            t.judge("foreign_record_not_spliced", out[0] != "hello", f, case, "invalid (or incomplete)", list(out))
        elif out[0] == "hello":
            t.add("lenient_accepts_(tlsref_rejects_mitmproxy_parses)")
        if case.get("base") is not None:
            base_out = direct(proto, case["base"])
            t.judge("record_split_invariant", out == base_out, f, case, list(base_out), list(out))
        return out
    # through the layer
    out, hooks, csni, calpn = through_layer(proto, case["segs"])
    if verbose:
        print("  layer(%s) -> %r hooks=%d conn.sni=%r conn.alpn_offers=%r" % ([len(s) for s in case["segs"]], out, hooks, csni, calpn))
    t.outcome("layer" + _oc(out))
    if not j_total(t, out, case, f):
        return out
    if case.get("valid"):
        whole = direct(proto, case["base"] if case.get("base") is not None else data)
        t.judge("segmentation_invariant", out == whole, f, case, list(whole), list(out))
        t.judge("hook_fires_once", hooks == 1, f, case, 1, hooks)
        if out[0] == "hello":
            t.judge("hook_carries_same_hello", (csni, calpn) == (out[1], out[2]), f, case, [out[1], out[2]], [csni, calpn])
    return out


def _oc(out):
    """outcome class for the distinct-outcome count: kind, and for hellos the reported SNI / ALPN / sizes"""
    if out[0] != "hello":
        return repr(out[:2])
    return repr((out[1], out[2], len(out[3]), [a for a, _ in out[4]]))


def nontrivial_len(proto, data):
    return len(data) > (13 if proto == "dtls" else 5)


# ---------------------------------------------------------------------------
# case generators (work items are expanded inside the workers)

def cuts_upto(n, k, first=None):
    """all sorted tuples of <= k cut points in 1..n-1; with `first` given: those whose smallest cut is `first`"""
    if first is None:
        yield ()
        return
    yield (first,)
    if k >= 2:
        for b in range(first + 1, n):
            yield (first, b)
            if k >= 3:
                for c in range(b + 1, n):
                    yield (first, b, c)


def split_at(data, cuts):
    pts = [0] + list(cuts) + [len(data)]
    return [data[a:b] for a, b in zip(pts, pts[1:])]


def base_of(src, i):
    """-> (name, tls_body or None, dtls_body or None)"""
    if src == "core":
        return CORE[i]
    if src == "ssl":
        return (SSLB[i][0], SSLB[i][1], None)
    return (DTLSB[i][0], None, DTLSB[i][1])


def w_whole(item, t):
    _, lo, hi = item
    for idx in range(lo, hi):
        f = ALL[idx]
        tb = g_body(f, False)
        for recver in (0x0301, 0x0303):
            case = {"proto": "tls", "kind": "grammar", "split": "none", "mode": "direct", "segs": [R.tls_records(R.hs_tls(tb), (), recver)]}
            judge(case, t)
            t.case(case if idx == lo and recver == 0x0301 else None, True, "whole|tls|%d|%x" % (idx, recver))
        # one fixed three-record fragmentation of every grammar hello
        msg = R.hs_tls(tb)
        case = {"proto": "tls", "kind": "grammar", "split": "records", "mode": "direct", "segs": [R.tls_records(msg, (3, len(msg) // 2))],
                "base": R.tls_records(msg)}
        judge(case, t)
        t.case(None, True, "whole3|tls|%d" % idx)
        for cookie in (b"", b"\xc0\x01\xc0\x02\xc0\x03\xc0\x04"):
            db = g_body(f, True, cookie)
            for recver in (0xFEFD, 0xFEFF):
                case = {"proto": "dtls", "kind": "grammar", "split": "none", "mode": "direct",
                        "segs": [R.dtls_single(db, recver)]}
                judge(case, t)
                t.case(None, True, "whole|dtls|%d|%d|%x" % (idx, len(cookie), recver))


def w_asis(item, t):
    """hellos exactly as the OpenSSL clients framed them (record version included), directly and through the layer"""
    for i, (name, b, recver) in enumerate(SSLB):
        s = R.tls_records(R.hs_tls(b), (), recver)
        for mode in ("direct", "layer"):
            case = {"proto": "tls", "kind": "ssl", "split": "none", "mode": mode, "segs": [s], "valid": True}
            judge(case, t)
            t.case(case if i == 1 and mode == "direct" else None, True, "asis|tls|%d|%s" % (i, mode))
    for i, (name, b, recver) in enumerate(DTLSB):
        s = R.dtls_single(b, recver)
        for mode in ("direct", "layer"):
            case = {"proto": "dtls", "kind": "ssl", "split": "none", "mode": mode, "segs": [s], "valid": True}
            if mode == "layer" and recver == 0xFEFF:
                continue  # the direct case already reports the record-version defect; the layer adds nothing
            judge(case, t)
            t.case(None, True, "asis|dtls|%d|%s" % (i, mode))


def frag_streams(src, i, variant, cuts):
    """-> (proto, split, segs(one datagram / one stream), base_stream)"""
    name, tb, db = base_of(src, i)
    if variant == "tls":
        msg = R.hs_tls(tb)
        return "tls", "records", R.tls_records(msg, cuts), R.tls_records(msg)
    if variant == "dtls-raw":
        return "dtls", "dtls-raw", b"".join(R.dtls_raw_split(db, cuts)), R.dtls_single(db)
    return "dtls", "dtls-hsfrag", b"".join(R.dtls_fragments(db, cuts)), R.dtls_single(db)


def frag_len(src, i, variant):
    name, tb, db = base_of(src, i)
    if variant == "tls":
        return len(tb) + 4
    if variant == "dtls-raw":
        return len(db) + 12
    return len(db)


def w_frag(item, t):
    _, src, i, variant, first, k = item
    n = frag_len(src, i, variant)
    for cuts in cuts_upto(n, k, first):
        proto, split, stream, base = frag_streams(src, i, variant, cuts)
        case = {"proto": proto, "kind": "frag", "split": split if cuts else "none", "mode": "direct", "segs": [stream], "base": base if cuts else None}
        judge(case, t)
        t.case(case if (first == 7 and len(cuts) == 1) else None, True, "frag|%s|%d|%s|%r" % (src, i, variant, cuts))


def w_prefix(item, t):
    _, src, i, variant, cuts = item
    proto, split, stream, base = frag_streams(src, i, variant, cuts)
    ref = ref_read(proto, stream)
    if ref.status != "hello" and not (variant == "dtls-raw" and cuts):
        raise HarnessError("prefix base is not a valid first flight: %r" % ref)
    for j in range(len(stream)):
        d = stream[:j]
        case = {"proto": proto, "kind": "prefix", "split": split if cuts else "none", "mode": "direct", "segs": [d], "prefix_of_valid": True}
        judge(case, t)
        t.case(None, nontrivial_len(proto, d), "prefix|%s|%d|%s|%r|%d" % (src, i, variant, cuts, j))
    # and bytes after the complete hello (next record / early data in the same segment) change nothing
    for tail in (b"\x14\x03\x03\x00\x01\x01", b"\x17", b"GET / HTTP/1.1\r\n"):
        case = {"proto": proto, "kind": "trailing", "split": split if cuts else "none", "mode": "direct", "segs": [stream + tail], "base": base}
        out = direct(proto, stream + tail)
        f = feats_of(case)
        if j_total(t, out, case, f):
            t.judge("trailing_bytes_ignored", out == direct(proto, base), f, case, None, list(out))
        t.case(None, True, "trail|%s|%d|%s|%r|%d" % (src, i, variant, cuts, len(tail)))


def w_seg(item, t):
    _, src, i, variant, rcuts, first, k = item
    proto, split, stream, base = frag_streams(src, i, variant, rcuts)
    n = len(stream)
    if first == "bytes":
        seglists = [[stream[j:j + 1] for j in range(n)]]
        keys = ["1byte"]
    else:
        cl = list(cuts_upto(n, k, first))
        seglists = [split_at(stream, c) for c in cl]
        keys = [repr(c) for c in cl]
    for segs, key in zip(seglists, keys):
        case = {"proto": proto, "kind": "seg", "split": "tcp" if proto == "tls" else "datagrams", "mode": "layer", "segs": segs, "base": base, "valid": True}
        judge(case, t)
        t.case(case if key == "(9,)" else None, True, "seg|%s|%d|%s|%r|%s" % (src, i, variant, rcuts, key))


def stream_of(src, i, proto):
    name, tb, db = base_of(src, i)
    if proto == "tls":
        return R.tls_records(R.hs_tls(tb))
    return R.dtls_single(db)


def w_subst(item, t):
    _, src, i, proto, lo, hi, values, layer_too = item
    s = stream_of(src, i, proto)
    for pos in range(lo, min(hi, len(s))):
        for v in values:
            if s[pos] == v:
                continue
            d = s[:pos] + bytes([v]) + s[pos + 1:]
            if not layer_too:
                case = {"proto": proto, "kind": "subst", "split": "none", "mode": "direct", "segs": [d]}
                judge(case, t)
                t.case(None, nontrivial_len(proto, d), "subst|%s|%d|%s|%d|%d" % (src, i, proto, pos, v))
            else:
                case = {"proto": proto, "kind": "subst", "split": "none", "mode": "layer", "segs": [d[:pos + 1], d[pos + 1:]] if pos + 1 < len(d) else [d]}
                judge(case, t)
                t.case(None, nontrivial_len(proto, d), "substL|%s|%d|%s|%d|%d" % (src, i, proto, pos, v))


def _rec(proto, ctype, version, payload, seqno=1):
    if proto == "tls":
        return bytes([ctype]) + R.u16(version) + R.u16(len(payload)) + payload
    return bytes([ctype]) + R.u16(version) + b"\x00\x00" + seqno.to_bytes(6, "big") + R.u16(len(payload)) + payload


# second / third records that are not handshake records of this protocol: (content type, record version) per protocol;
# None stands for bytes that are no record at all
FOREIGN = {
    "tls": [(0x17, 0x0303), (0x15, 0x0303), (0x14, 0x0303), (0x16, 0x0404), (0x16, 0x0200), (0x16, 0xFEFD), None],
    "dtls": [(0x17, 0xFEFD), (0x15, 0xFEFD), (0x14, 0xFEFD), (0x16, 0x0303), (0x16, 0xFE00), None],
}


def w_foreign(item, t):
    """a valid hello whose first handshake record carries only msg[:cut]; then a foreign record - carrying the rest of
    the hello (so that splicing would 'work'), or two bytes followed by a genuine handshake record with the rest"""
    _, src, i, proto, cuts = item
    name, tb, db = base_of(src, i)
    msg = R.hs_tls(tb) if proto == "tls" else R.hs_dtls(db)
    hv = 0x0301 if proto == "tls" else 0xFEFD
    for cut in cuts:
        first = _rec(proto, 0x16, hv, msg[:cut], 0)
        for fi, fr in enumerate(FOREIGN[proto]):
            if fr is None:
                streams = [first + b"GET / HTTP/1.1\r\nHost: example.com\r\n\r\n" + msg[cut:],
                           first + msg[cut:]]
            else:
                ct, ver = fr
                streams = [first + _rec(proto, ct, ver, msg[cut:]),
                           first + _rec(proto, ct, ver, b"\x01\x00") + _rec(proto, 0x16, hv, msg[cut:], 2),
                           first + _rec(proto, ct, ver, msg[cut:cut + 1]) + _rec(proto, 0x16, hv, msg[cut + 1:], 2) if cut + 1 < len(msg) else None]
            for vi, d in enumerate(streams):
                if d is None:
                    continue
                case = {"proto": proto, "kind": "foreign", "split": "records", "mode": "direct", "segs": [d], "foreign": True}
                judge(case, t)
                t.case(case if (cut == 3 and fi == 0 and vi == 0) else None, True, "foreign|%s|%d|%s|%d|%d|%d" % (src, i, proto, cut, fi, vi))


def w_trunc(item, t):
    """every truncation of the hello body, re-framed so that the record and handshake lengths are consistent
    (the truncated body reaches the kaitai parser), and with only the record length re-framed"""
    _, src, i, proto = item
    name, tb, db = base_of(src, i)
    b = tb if proto == "tls" else db
    for j in range(len(b)):
        cut = b[:j]
        if proto == "tls":
            variants = [R.tls_records(R.hs_tls(cut)), R.tls_records(b"\x01" + R.u24(len(b)) + cut) if j else None]
        else:
            variants = [R.dtls_single(cut), R.dtls_record(R.hs_dtls(cut, 0, 0, len(b), len(b))) if j else None]
        for vi, d in enumerate(variants):
            if d is None:
                continue
            case = {"proto": proto, "kind": "trunc", "split": "none", "mode": "direct", "segs": [d]}
            judge(case, t)
            t.case(case if j == 40 and vi == 0 else None, True, "trunc|%s|%d|%s|%d|%d" % (src, i, proto, j, vi))


SHORT_ALPHA = {"tls": [0x16, 0x03, 0x01, 0x00, 0xFF, 0x05], "dtls": [0x16, 0xFE, 0xFD, 0x00, 0x01, 0xFF]}
BODY_ALPHA = [0x00, 0x01, 0x02, 0x03, 0x20, 0xFF]


def w_short(item, t):
    _, proto, head, maxlen = item
    alpha = SHORT_ALPHA[proto]
    head = bytes(head)
    for ln in range(0, maxlen - len(head) + 1):
        for tail in itertools.product(alpha, repeat=ln):
            d = head + bytes(tail)
            case = {"proto": proto, "kind": "short", "split": "none", "mode": "direct", "segs": [d]}
            judge(case, t)
            t.case(None, len(d) >= 5, "short|%s|%s" % (proto, d.hex()))


def w_shortbody(item, t):
    """every short ClientHello body, correctly framed, and the same appended to a valid fixed part (so that the
    enumerated bytes are read as the extension block)"""
    _, proto, head, maxlen = item
    head = bytes(head)
    fixed = R.body(0x0303, None, b"", b"" if proto == "dtls" else None, (0x1301,), b"\x00", None)
    for ln in range(0, maxlen - len(head) + 1):
        for tail in itertools.product(BODY_ALPHA, repeat=ln):
            b = head + bytes(tail)
            for vi, bb in enumerate((b, fixed + b)):
                d = R.tls_records(R.hs_tls(bb)) if proto == "tls" else R.dtls_single(bb)
                case = {"proto": proto, "kind": "shortbody", "split": "none", "mode": "direct", "segs": [d]}
                judge(case, t)
                t.case(None, True, "shortbody|%s|%d|%s" % (proto, vi, b.hex()))


WORKERS = {"whole": w_whole, "asis": w_asis, "frag": w_frag, "prefix": w_prefix, "seg": w_seg, "subst": w_subst,
           "trunc": w_trunc, "short": w_short, "shortbody": w_shortbody}


def chunk(items):
    t = Tally()
    for it in items:
        WORKERS[it[0]](it, t)
    return t


# ---------------------------------------------------------------------------

def plan(ctx):
    q = ctx.tier == "quick"
    items = []
    # grammar, whole
    step = 40
    for lo in range(0, len(ALL), step):
        items.append(("whole", lo, min(lo + step, len(ALL))))
    items.append(("asis",))
    ncore, nssl, ndtls = len(CORE), len(SSLB), len(DTLSB)
    # which OpenSSL-produced hellos get the expensive enumerations: one TLS 1.3 (517 bytes) and one TLS 1.2 hello with SNI+ALPN
    # (index = sni_i*6 + alpn_i*2 + version_i; 8/9 = example.com + [h2, http/1.1] with TLS 1.3 / 1.2)
    ssl_deep = [8, 9] if not q else [9]
    # quick tier: only structurally different OpenSSL hellos take part in the cut enumerations
    ssl_sel = list(range(nssl)) if not q else [0, 8, 9, 15, 21, 27]
    # record fragmentation
    kf = ctx.pick(1, 2)
    for src, idxs, variants in (("core", range(ncore), ("tls", "dtls-raw", "dtls-hsfrag")),
                                ("ssl", ssl_sel, ("tls",)),
                                ("odtls", range(ndtls), ("dtls-raw", "dtls-hsfrag"))):
        for i in idxs:
            for v in variants:
                n = frag_len(src, i, v)
                kk = kf
                if src == "ssl" and i not in ssl_deep:
                    kk = 1
                if v != "tls" and not (src == "core" and i < 6):
                    kk = 1  # DTLS: two cuts only for the default hello and five neighbours
                if q and src == "core" and i < 3 and v == "tls":
                    kk = 2  # quick: two cuts for the default hello and two neighbours
                items.append(("frag", src, i, v, None, kk))
                for first in range(1, n):
                    items.append(("frag", src, i, v, first, kk))
    # prefixes of fragmented valid flights
    for src, idxs, variants in (("core", range(ncore), ("tls", "dtls-raw")), ("ssl", ssl_sel, ("tls",)), ("odtls", range(ndtls), ("dtls-raw",))):
        for i in idxs:
            for v in variants:
                n = frag_len(src, i, v)
                cutsets = [(), (1,), (3,), (4,), (n // 2,), (n - 1,), (2, 5), (4, n // 2, n - 1)]
                if not q and (src != "ssl" or i in ssl_deep):
                    cutsets = [()] + [(c,) for c in range(1, n)] + [(2, 5), (4, n // 2, n - 1)]
                for c in cutsets:
                    items.append(("prefix", src, i, v, c))
    # TCP segmentation / datagram split through the layer
    ks = ctx.pick(1, 2)
    for src, idxs in (("core", range(ncore)), ("ssl", ssl_sel)):
        for i in idxs:
            n0 = frag_len(src, i, "tls")
            for rc in ((), (n0 // 2,), (1, 3, n0 - 1)):
                proto, split, stream, base = frag_streams(src, i, "tls", rc)
                n = len(stream)
                deep = (src == "core" and i < 6 and rc != (1, 3, n0 - 1)) or (src == "ssl" and i == 9 and rc == ())
                kk = ks if deep else 1
                items.append(("seg", src, i, "tls", rc, None, kk))
                items.append(("seg", src, i, "tls", rc, "bytes", kk))
                for first in range(1, n):
                    items.append(("seg", src, i, "tls", rc, first, kk))
    for src, idxs in (("core", range(ncore)), ("odtls", range(ndtls))):
        for i in idxs:
            # DTLS: datagram boundaries coincide with record boundaries
            n0 = frag_len(src, i, "dtls-raw")
            for rc in ((), (n0 // 2,), (12, 40)):
                recs = R.dtls_raw_split(base_of(src, i)[2], rc)
                bounds = list(itertools.accumulate(len(r) for r in recs))[:-1]
                for sub in itertools.chain.from_iterable(itertools.combinations(bounds, r) for r in range(len(bounds) + 1)):
                    items.append(("dseg", src, i, rc, sub))
    # multi-record flights whose second / third record is not a handshake record (other content type, other version,
    # no record at all): every cut for the default hello and two neighbours (thorough: every base), boundary cuts otherwise
    for src, idxs, protos in (("core", range(ncore), ("tls", "dtls")), ("ssl", ssl_sel, ("tls",)), ("odtls", range(ndtls), ("dtls",))):
        for i in idxs:
            for proto in protos:
                n = frag_len(src, i, "tls" if proto == "tls" else "dtls-raw")
                if (src == "core" and i < 3) or not q:
                    cl = list(range(1, n))
                else:
                    cl = sorted({1, 3, 4, 5, 12, 13, n // 2, n - 1})
                for lo in range(0, len(cl), 16):
                    items.append(("foreign", src, i, proto, cl[lo:lo + 16]))
    # totality
    vals_q = [0x00, 0x01, 0x03, 0x10, 0x16, 0x7F, 0x80, 0xFF]
    allv = list(range(256))
    subst_bases = [("core", 0, "tls"), ("core", 0, "dtls"), ("ssl", 9, "tls"), ("core", 5, "tls")]  # default, default DTLS, ssl 1.2 sni+alpn, punycode
    if not q:
        subst_bases += [("ssl", 8, "tls"), ("odtls", 3, "dtls"), ("core", 14, "tls"), ("core", 15, "tls")]
    for bi, (src, i, proto) in enumerate(subst_bases):
        n = len(stream_of(src, i, proto))
        full = (not q) or bi < 2
        for lo in range(0, n, 8):
            items.append(("subst", src, i, proto, lo, lo + 8, allv if full else vals_q, False))
            if bi < 2:  # the same substitutions through the layer, cut right after the substituted byte
                items.append(("subst", src, i, proto, lo, lo + 8, vals_q if q else allv, True))
    for src, rng in (("core", range(ncore)), ("ssl", range(nssl)), ("odtls", range(ndtls))):
        for i in rng:
            if src != "odtls":
                items.append(("trunc", src, i, "tls"))
            if src != "ssl":
                items.append(("trunc", src, i, "dtls"))
    ls = ctx.pick(6, 7)
    lb = ctx.pick(4, 5)
    for proto in ("tls", "dtls"):
        items.append(("short", proto, [], 1))
        for a in SHORT_ALPHA[proto]:
            for b in SHORT_ALPHA[proto]:
                items.append(("short", proto, [a, b], ls))
        for a in BODY_ALPHA:
            items.append(("shortbody", proto, [a], lb))
        items.append(("shortbody", proto, [], 0))
    bounds = {
        "grammar_hellos": len(ALL), "grammar": "sni %d x alpn %d x other %d x order %d x fixed-part (%s)" % (
            len(SNI_FORMS), len(ALPN_FORMS), len(OTHER_FORMS), len(ORDERS), "one-deviates" if q else "full product 2x2x3x2"),
        "core_bases": ncore, "ssl_bases": nssl, "openssl_dtls_bases": ndtls,
        "foreign_records": {p: ["garbage" if x is None else "%02x/%04x" % x for x in v] for p, v in FOREIGN.items()},
        "record_cuts_max": kf, "tcp_cuts_max": ks, "tcp_cuts_deep_bases": "core 0-5 (2 fragmentations) + ssl[9]",
        "ssl_bases_in_cut_enumerations": ssl_sel, "dtls_two_cut_bases": "core 0-5",
        "substitution_values": "256 for %s bases, %d for the others" % ("all %d" % len(subst_bases) if not q else "2", len(vals_q)),
        "substitution_bases": ["%s[%d]/%s" % b for b in subst_bases],
        "short_strings_maxlen": ls, "short_alphabet": {k: bytes(v).hex() for k, v in SHORT_ALPHA.items()},
        "short_bodies_maxlen": lb, "body_alphabet": bytes(BODY_ALPHA).hex(),
    }
    return items, bounds


def w_dseg(item, t):
    _, src, i, rc, sub = item
    db = base_of(src, i)[2]
    recs = R.dtls_raw_split(db, rc)
    stream = b"".join(recs)
    segs = split_at(stream, sub)
    case = {"proto": "dtls", "kind": "seg", "split": "datagrams", "mode": "layer", "segs": segs, "base": R.dtls_single(db), "valid": True}
    judge(case, t)
    t.case(None, True, "dseg|%s|%d|%r|%r" % (src, i, rc, sub))


WORKERS["dseg"] = w_dseg
WORKERS["foreign"] = w_foreign


def run(ctx):
    build_bases(full=ctx.tier == "thorough")
    items, bounds = plan(ctx)
    ctx.bounds = bounds
    ctx.log("bases: %d grammar hellos, %d core, %d ssl, %d openssl-dtls; %d work items" % (len(ALL), len(CORE), len(SSLB), len(DTLSB), len(items)))
    # self-test of the harness: tlsref must read every base it is going to be the judge of
    for src, n in (("core", len(CORE)), ("ssl", len(SSLB)), ("odtls", len(DTLSB))):
        for i in range(n):
            name, tb, db = base_of(src, i)
            if tb is not None and R.read_tls(R.tls_records(R.hs_tls(tb))).status != "hello":
                raise HarnessError("tlsref rejects base %s" % name)
            if db is not None and R.read_dtls(R.dtls_single(db)).status != "hello":
                raise HarnessError("tlsref rejects DTLS base %s" % name)
    par.pmap_tally(chunk, items, ctx.tally, nchunks=par.NPROC * 16)
    ctx.info["parts"] = {k: sum(1 for it in items if it[0] == k) for k in sorted(WORKERS)}


def replay(case, t: Tally, verbose=False):
    judge(case, t, verbose=True)
