#!/bin/bash
# tools/baseline.sh [repo_dir] - run the repository's pinned test suite with the guard OFF and
# report failures that are not in BASELINE.json's always_fail / flaky lists.
repo="${1:-/repo}"
log="/dev/shm/baseline-$$.log"
cd "$repo" && env -u MITMPROXY_VERIF PYTHONPATH="$repo" /venv/bin/python -m pytest -q -p no:cacheprovider --timeout=900 --continue-on-collection-errors -q > "$log" 2>&1
grep -E "^(FAILED|ERROR)" "$log" | sed 's/\x1b\[[0-9;]*m//g' | grep -v -e test_view_urlencoded -e "test_dns_resolver.py::test_name_servers" -e "test_proxyserver.py::test_dns" > "$log.bad"
tail -1 "$log" | sed 's/\x1b\[[0-9;]*m//g'
if [ -s "$log.bad" ]; then echo "UNEXPECTED FAILURES:"; cat "$log.bad"; rc=1; else echo "baseline ok (only known always-fail/flaky tests failed, if any)"; rc=0; fi
rm -f "$log" "$log.bad"
exit $rc
