"""C27 - DNS replies correspond to client queries; TCP framing ignores segmentation.

Engine X.  The real `DNSLayer` is driven by vmc.drivers.dnsdrv (a mirror of server.py's command
handling, not the Playbook).  A state is an action history (layers are generators and cannot be
copied); `vmc.explore.bfs` explores all action sequences up to a depth with fingerprint
de-duplication, once per configuration (UDP / TCP, with / without an upstream address):

  q(id, name, addon policy, connect outcome)   client query; ids {1,2}, question sections a=[a], b=[b,a]; the addon at
                 dns_request passes / sets a response / sets an error; an OpenConnection issued
                 for this query succeeds or fails
  r(id, name)    upstream reply, ids {1,2,3} x names {a,b}: matching, duplicate, for a superseded
                 query, known id with another question, unsolicited id
  cc / sc        client / upstream closes
  badlen(kind)   TCP: a frame with a malformed length prefix from the client

After every transition the commands of that step are judged.  Two further exhaustive families run on
the same driver and count as executions: every segmentation (<= k cuts, and byte by byte) of TCP
streams in both directions compared with the unsplit delivery, and the full flag matrix of the
synthesised SERVFAIL.
"""
from __future__ import annotations

import itertools
import struct

from mitmproxy import flow as mflow

from vmc import explore, par
from vmc.drivers.dnsdrv import DnsDriver
from vmc.refs import dnsref as R
from vmc.tally import Tally

META = {
    "level": "model_checking",
    "technique": "explicit-state BFS over action histories (client queries with addon policy and connect outcome, upstream replies "
    "matching/duplicate/unsolicited/mismatching, closes, malformed TCP frames) on the real DNSLayer behind a sans-io driver, with a "
    "monitor of the queries the client sent; exhaustive TCP segmentations and the SERVFAIL flag matrix on the same driver",
    "claim": "in every reachable state within the depth bound every flow handed to a hook carries the client query it belongs to and every "
    "message sent to the client answers a query of that client (id + question; SERVFAIL keeps opcode and RD); the messages extracted from "
    "a TCP stream do not depend on segmentation and malformed length prefixes close the connection - except for the listed known findings",
    "rule": "a state is the fingerprint (layer state function, flows by id with request/response/error, connection states, TCP buffers, monitor "
    "of sent queries) reached by an action history; non-trivial = at least one hook fired on the way; segmentation/SERVFAIL cases are "
    "distinct (stream, cut set) resp. (flags, cause, transport)",
    "assumptions": [
        "hooks and OpenConnection complete immediately: DNSLayer pauses on one blocking command at a time and buffers events meanwhile, so delayed completions process the same event sequence later",
        "the client never re-uses an id with different flags (id 1: RD=1 opcode 0; id 2: RD=0 opcode 2); the BFS uses two question sections, [a] and [b, a], type/class A/IN; the SERVFAIL matrix uses 0..3 questions of mixed type/class",
        "'answers a query that client sent' is set membership over all queries sent so far on the connection (id and question section), not a one-to-one matching",
        "a dns_response flow 'carries the query it belongs to' iff flow.request exists, was sent by the client, and has the id and question section of flow.response",
        "the driver mirrors server.py: after a failed connect the server connection stays in the transport table, so a second OpenConnection trips server.py's assertion (recorded as a note, judged only through the clauses)",
    ],
}

# the two question sections of the alphabet: "a" = one question (a), "b" = two questions (b, a) - legal, and the
# statement speaks of the question *section*
NAMES = {"a": ((b"a",),), "b": ((b"b",), (b"a",))}
QFLAGS = {1: R.flags_word(rd=1), 2: R.flags_word(opcode=2), 3: R.flags_word(rd=1)}


def query_bytes(ident, name, flags=None):
    return R.simple_message(ident, QFLAGS[ident] if flags is None else flags, [(n, 1, 1) for n in NAMES[name]])


def reply_bytes(ident, name):
    return R.simple_message(ident, R.flags_word(qr=1, rd=1, ra=1), [(n, 1, 1) for n in NAMES[name]],
                            [(NAMES[name][0], 1, 1, 60, bytes([10, 0, ident, ord(name)]))])


def frame(tr, b):
    return struct.pack("!H", len(b)) + b if tr == "tcp" else b


BADLEN = {
    "zero": lambda: b"\x00\x00",
    "short-garbage": lambda: b"\x00\x05hello",
    "shorter-than-message": lambda: struct.pack("!H", len(query_bytes(2, "b")) - 1) + query_bytes(2, "b")[:-1],
}


# ---------------------------------------------------------------------------
# the system: driver + monitor


class Sys:
    def __init__(self, tr, upstream):
        self.tr, self.upstream = tr, upstream
        self.current_policy = "pass"
        self.d = DnsDriver(tr, upstream=("192.0.2.53", 53) if upstream else None, policy=self.policy)
        self.tainted = {}  # id -> an upstream reply with this id arrived that did not match the latest query with this id
        self.sent = []  # client queries in order: (id, name, opcode, rd)
        self.latest = {}  # id -> name of the latest query with that id
        self.answered = {}  # id -> a message with that id went to the client since the latest query with that id
        self.mark = 0  # log position before the last action
        self.client_stream = b""  # TCP: bytes sent to the client not yet cut into frames
        self.step = None  # (action, kind) of the last action
        self.step_msgs = []
        self.hooks_seen = 0

    def policy(self, name, flow, drv):
        """the addon: acts at dns_request as the current query action says"""
        if name == "dns_request" and self.current_policy == "resp":
            flow.response = flow.request.succeed([])
        elif name == "dns_request" and self.current_policy == "err":
            flow.error = mflow.Error("addon says no")

    def kind_of(self, a):
        if a[0] == "q":
            if a[1] not in self.latest:
                return "query-fresh-id"
            return "query-reused-id-answered" if self.answered.get(a[1]) else "query-reused-id-pending"
        if a[0] == "r":
            if a[1] not in self.latest:
                return "reply-unknown-id"
            if self.latest[a[1]] == a[2]:
                return "reply-duplicate" if self.answered.get(a[1]) else "reply-match"
            if any(s[0] == a[1] and s[1] == a[2] for s in self.sent):
                return "reply-for-superseded-query"
            return "reply-known-id-other-question"
        return {"cc": "client-close", "sc": "upstream-close", "badlen": "bad-length-prefix"}[a[0]]


def server_open(s):
    d = s.d
    return d.server in d.transports and d.server not in d.peer_closed and d.server.connected


def client_open(s):
    d = s.d
    return d.client in d.transports and d.client not in d.peer_closed


CONFIGS = [["tcp", True], ["udp", True], ["tcp", False], ["udp", False]]  # (transport, upstream address set), largest first


class Spec:
    def __init__(self, tr, upstream):
        self.tr, self.upstream = tr, upstream

    def build(self):
        return Sys(self.tr, self.upstream)

    def actions(self, s):
        acts = []
        if s.d.crashed:
            return acts
        if client_open(s):
            will_open = s.upstream and not s.d.server.connected
            for ident in (1, 2):
                for name in ("a", "b"):
                    for pol in ("pass", "resp", "err"):
                        acts.append(["q", ident, name, pol, "ok"])
                        if pol == "pass" and will_open:
                            acts.append(["q", ident, name, pol, "fail"])
        if server_open(s):
            for ident in (1, 2, 3):
                for name in ("a", "b"):
                    acts.append(["r", ident, name])
            acts.append(["sc"])
        if client_open(s):
            acts.append(["cc"])
            if s.tr == "tcp":
                for k in BADLEN:
                    acts.append(["badlen", k])
        return acts

    def apply(self, s, a):
        d = s.d
        s.mark = len(d.log)
        s.step = (a, s.kind_of(a))
        if a[0] == "r" and s.step[1] in ("reply-unknown-id", "reply-known-id-other-question", "reply-for-superseded-query"):
            s.tainted[a[1]] = True
        if a[0] == "q":
            s.current_policy = a[3]
            d.connect = None if a[4] == "ok" else "connection refused"
            fl = QFLAGS[a[1]]
            s.sent.append((a[1], a[2], (fl >> 11) & 15, (fl >> 8) & 1))
            s.latest[a[1]] = a[2]
            s.answered[a[1]] = False
            d.client_data(frame(s.tr, query_bytes(a[1], a[2])))
        elif a[0] == "r":
            d.server_data(frame(s.tr, reply_bytes(a[1], a[2])))
        elif a[0] == "cc":
            d.client_close()
        elif a[0] == "sc":
            d.server_close()
        elif a[0] == "badlen":
            d.client_data(BADLEN[a[1]]())
        else:
            raise AssertionError(a)
        # what reached the client in this step, read by the reference decoder (also tells the monitor which ids were answered)
        s.step_msgs = client_messages(s, d.log[s.mark:])
        for m in s.step_msgs:
            if m is not None:
                s.answered[m["id"]] = True

    def fingerprint(self, s):
        d = s.d
        flows = []
        for ident in sorted(d.layer.flows):
            f = d.layer.flows[ident]
            req = getattr(f, "request", None)
            flows.append([ident, None if req is None else [req.id, [q.name for q in req.questions], req.op_code, req.recursion_desired],
                          None if f.response is None else [f.response.id, [q.name for q in f.response.questions], f.response.response_code],
                          None if f.error is None else f.error.msg, f.live])
        return [s.tr, s.upstream, d.layer_state(), d.crashed, str(d.client.state), str(d.server.state), sorted(d.side(c) for c in d.transports),
                sorted(d.side(c) for c in d.peer_closed), flows, bytes(d.layer.req_buf), bytes(d.layer.resp_buf),
                sorted(set((x[0], x[1]) for x in s.sent)), sorted(s.latest.items()), sorted(s.answered.items()), sorted(s.tainted.items()), s.client_stream]

    def check(self, s, hist, t: Tally):
        if s.step is None:
            t.case(None, nontrivial=False, key=self.fingerprint(s))
            return
        a, kind = s.step
        feats = {"action": kind, "transport": s.tr}
        if a[0] == "q":
            feats["tainted"] = bool(s.tainted.get(a[1]))
        judge_step(s, s.d.log[s.mark:], list(hist), feats, t, badlen=(a[0] == "badlen"))
        s.hooks_seen = sum(1 for e in s.d.log if e[0] == "hook")
        for e in s.d.log[s.mark:]:
            if e[0] == "crash":
                t.note("layer crashed (%s): %s" % (e[1], e[2][:80]))
        t.case(None, nontrivial=s.hooks_seen > 0, key=self.fingerprint(s))
        t.outcome([e[:2] if e[0] != "send" else e for e in s.d.log[s.mark:] if e[0] != "log"])
        if len(hist) == 3 and len(t.samples) < 2:
            t.samples.append({"history": list(hist), "log": [list(e[:2]) for e in s.d.log]})


def client_messages(s, entries):
    """reference-decode what went to the client in these log entries -> list of dicts (None = undecodable)"""
    out = []
    stream = s.client_stream
    for e in entries:
        if e[0] == "send" and e[1] == "client":
            if s.tr == "udp":
                out.append(R.try_decode(e[2])[0])
            else:
                stream += e[2]
                frames, stream = R.tcp_frames(stream)
                for f in frames:
                    out.append(R.try_decode(f)[0])
    s.client_stream = stream
    return out


def judge_step(s, entries, case, feats, t: Tally, badlen=False):
    case = {"bfs": case, "cfg": [s.tr, s.upstream]}
    sent_keys = set((q[0], NAMES[q[1]]) for q in s.sent)
    error_hook = False
    for e in entries:
        if e[0] != "hook":
            continue
        name, snap = e[1], e[2]
        ok = snap["has_request"]
        why = "flow has no request"
        if ok:
            rq = snap["request"]
            key = (rq["id"], tuple(tuple(x.encode() for x in q[0].split(".")) for q in rq["questions"]))
            ok = key in sent_keys
            why = "flow.request %r is not a query this client sent" % (rq,)
        if ok and name == "dns_response":
            rs = snap["response"]
            ok = rs is not None and rs["id"] == rq["id"] and rs["questions"] == rq["questions"]
            why = "flow.request is %r but flow.response is %r" % ((rq["id"], rq["questions"]), rs and (rs["id"], rs["questions"]))
        if name == "dns_error":
            error_hook = True
        t.judge("reported_flow_has_its_query", ok, dict(feats, hook=name), case, "a flow carrying the client query its message belongs to", why)
    for m in s.step_msgs:
        if m is None:
            t.bad("reply_answers_a_client_query", dict(feats, problem="undecodable"), case, "a DNS message", "undecodable bytes to the client")
            continue
        key = (m["id"], tuple(q["name"] for q in m["qd"]))
        t.judge("reply_answers_a_client_query", key in sent_keys, feats, case,
                "id + question of one of %s" % sorted(sent_keys), [m["id"], [q["name"] for q in m["qd"]]])
        if error_hook:  # a step is one client query: what goes to the client after its dns_error hook is the synthesised failure
            cands = [q for q in s.sent if q[0] == m["id"] and NAMES[q[1]] == key[1]]
            ok = any(q[2] == m["opcode"] and q[3] == m["rd"] for q in cands)
            t.judge("servfail_keeps_opcode_rd", ok, feats, case, [(q[2], q[3]) for q in cands], [m["opcode"], m["rd"]])
    if badlen:
        closed = any(e[0] == "close" and e[1] == "client" for e in entries)
        t.judge("bad_length_prefix_closes", closed, feats, case, "client connection closed",
                [e[:2] for e in entries if e[0] in ("hook", "close", "crash")])


# ---------------------------------------------------------------------------
# TCP segmentation family


def streams(thorough=False):
    """(label, direction, list of frames, bad_after_good, has_bad, cut bound or None for the tier's bound)"""
    q1, q2, q3 = frame("tcp", query_bytes(1, "a")), frame("tcp", query_bytes(2, "b")), frame("tcp", query_bytes(1, "b"))
    r1, r2 = frame("tcp", reply_bytes(1, "a")), frame("tcp", reply_bytes(2, "b"))
    zero, garbage = BADLEN["zero"](), BADLEN["short-garbage"]()
    short = BADLEN["shorter-than-message"]()
    out = [
        ("good", "client", [q1], False, False),
        ("good+good", "client", [q1, q2], False, False),
        ("good+good+good-reused-id", "client", [q1, q2, q3], False, False),
        ("good+incomplete", "client", [q1, q2[:-3]], False, False),
        ("good+length-larger-than-data", "client", [q1, struct.pack("!H", 300) + query_bytes(2, "b")], False, False),
        ("zero-length", "client", [zero], False, True),
        ("garbage", "client", [garbage], False, True),
        ("zero-length+good", "client", [zero, q1], False, True),
        ("good+zero-length", "client", [q1, zero], True, True),
        ("good+garbage", "client", [q1, garbage], True, True),
        ("good+shorter-than-message", "client", [q1, short], True, True),
        ("good+good+zero-length", "client", [q1, q2, zero], True, True),
        ("good+good", "server", [r1, r2], False, False),
        ("good+unsolicited", "server", [r1, frame("tcp", reply_bytes(3, "a"))], False, False),
        ("good+zero-length", "server", [r1, zero], True, True),
        ("good+garbage", "server", [r2, garbage], True, True),
    ]
    out = [x + (None,) for x in out]
    # every mix of well-framed messages, in both directions: all sequences (quick: <= 2, thorough: <= 3 messages) over
    # upstream replies {matching id 1, matching id 2, unsolicited id 3, id 1 with another question} and over client
    # queries {id 1, id 2, id 1 again with another question}
    replies = {"match1": r1, "match2": r2, "unsolicited": frame("tcp", reply_bytes(3, "a")), "other-question": frame("tcp", reply_bytes(1, "b"))}
    queries = {"q1": q1, "q2": q2, "q1-reused": q3}
    for direction, alphabet in (("server", replies), ("client", queries)):
        for n in ((2, 3) if thorough else (2,)):
            for seq in itertools.product(sorted(alphabet), repeat=n):
                out.append(("mix:" + "+".join(seq), direction, [alphabet[k] for k in seq], False, False, 2 if thorough and n == 2 else 1))
    return out


def cut_sets(n, k):
    """all sets of at most k cut positions in 1..n-1, plus the byte-by-byte segmentation"""
    for r in range(0, k + 1):
        for cs in itertools.combinations(range(1, n), r):
            yield list(cs)
    if n - 1 > k:
        yield list(range(1, n))


def run_stream(direction, frames, cuts):
    d = DnsDriver("tcp")
    if direction == "server":  # two queries outstanding, upstream connected
        d.client_data(frame("tcp", query_bytes(1, "a")) + frame("tcp", query_bytes(2, "b")))
    mark = len(d.log)
    data = b"".join(frames)
    pos = 0
    for c in cuts + [len(data)]:
        seg = data[pos:c]
        pos = c
        if seg:
            (d.client_data if direction == "client" else d.server_data)(seg)
    return d, normalise(d.log[mark:])


def normalise(entries):
    out = []
    for e in entries:
        if e[0] == "hook":
            snap = dict(e[2])
            out.append(["hook", e[1], snap])
        elif e[0] in ("send", "close", "open", "crash", "dropped", "half_close"):
            out.append(list(e))
    return out


def seg_case(case, t: Tally, verbose=False):
    label, direction, frames, cuts = case["stream"], case["dir"], [bytes(f) for f in case["frames"]], case["cuts"]
    bad_after_good, has_bad = case["bad_after_good"], case["has_bad"]
    feats = {"family": "segmentation", "dir": direction, "bad_after_good": bad_after_good}
    _, whole = run_stream(direction, frames, [])
    d, got = run_stream(direction, frames, cuts)
    if verbose:
        print("  unsplit :", whole)
        print("  cuts %s:" % cuts, got)
    t.judge("tcp_messages_segmentation_invariant", got == whole, feats, case, whole, got)
    if has_bad:
        side = direction
        t.judge("bad_length_prefix_closes", ["close", side] in got, dict(feats, stream=label), case, "close of the %s connection" % side,
                [e[:2] for e in got])
    t.executions += 1
    t.case(case if len(cuts) == 1 and len(t.samples) < 1 else None, nontrivial=bool(cuts), key=[label, direction, cuts])
    t.outcome(got)
    t.add("segmentation_cases")


# ---------------------------------------------------------------------------
# SERVFAIL flag matrix


def servfail_cases():
    for tr in ("udp", "tcp"):
        for cause in ("no-upstream", "connect-fails", "addon-error"):
            for opcode in range(16):
                for rd in (0, 1):
                    for rest in (0, 1):  # every other header bit of the query cleared / set
                        for nq in (1, 0, 2, 3):  # questions in the query: the reply must repeat the whole section
                            yield {"servfail": [tr, cause, opcode, rd, rest, nq]}


def servfail_case(case, t: Tally, verbose=False):
    tr, cause, opcode, rd, rest, nq = case["servfail"]
    flags = R.flags_word(opcode=opcode, rd=rd)
    if rest:
        flags |= R.flags_word(aa=1, tc=1, ra=1, z=7, rcode=15)
    qsec = [((b"x", b"y"), 28, 3), ((b"z",), 1, 1), ((b"x", b"y"), 16, 1)][:nq]
    q = R.simple_message(0xBEEF, flags, qsec)
    state = {}

    def policy(name, flow, drv):
        if name == "dns_request" and cause == "addon-error":
            flow.error = mflow.Error("addon says no")
        state.setdefault("hooks", []).append(name)

    d = DnsDriver(tr, upstream=None if cause == "no-upstream" else ("192.0.2.53", 53), policy=policy,
                  connect="connection refused" if cause == "connect-fails" else None)
    d.client_data(frame(tr, q))
    out = d.out["client"]
    msgs = out if tr == "udp" else R.tcp_frames(b"".join(out))[0]
    feats = {"family": "servfail", "cause": cause, "questions": nq}
    if verbose:
        print("  query", q.hex(), "->", [m.hex() for m in msgs], d.log)
    if len(msgs) != 1 or R.try_decode(msgs[0])[0] is None:
        t.bad("servfail_keeps_opcode_rd", dict(feats, problem="no-servfail"), case, "one SERVFAIL", [m.hex() for m in msgs])
    else:
        m = R.decode(msgs[0])
        mq = R.decode(q)
        t.judge("reply_answers_a_client_query", m["id"] == mq["id"] and R.question_meaning(m) == R.question_meaning(mq), feats, case,
                [mq["id"], R.question_meaning(mq)], [m["id"], R.question_meaning(m)])
        t.judge("servfail_keeps_opcode_rd", m["opcode"] == opcode and m["rd"] == rd, feats, case,
                {"opcode": opcode, "rd": rd}, {k: m[k] for k in ("rcode", "opcode", "rd")})
        t.add("servfail_rcode_%d" % m["rcode"])
        for e in d.log:
            if e[0] == "hook":
                t.judge("reported_flow_has_its_query", e[2]["has_request"] and e[2]["request"]["id"] == 0xBEEF and
                        e[2]["request"]["questions"] == [("x.y", 28, 3), ("z", 1, 1), ("x.y", 16, 1)][:nq], dict(feats, hook=e[1]), case,
                        "flow.request = the query", e[2]["request"])
    t.executions += 1
    t.case(None, nontrivial=True, key=case)
    t.add("servfail_cases")


def work(items):
    """one pool task: a whole BFS for one configuration (explored in-process, so the pool is started once per run
    and not once per BFS level), or a batch of segmentation / SERVFAIL executions"""
    t = Tally()
    for kind, payload in items:
        if kind == "bfs":
            (tr, upstream), depth = payload
            states, capped = explore.bfs(Spec(tr, upstream), depth, t, nproc=1)
            t.add("bfs_states_%s_%s" % (tr, "upstream" if upstream else "no-upstream"), states)
            if capped:
                t.add("bfs_capped")
        else:
            for c in payload:
                if "servfail" in c:
                    servfail_case(c, t)
                else:
                    seg_case(c, t)
    return t


# ---------------------------------------------------------------------------


def run(ctx):
    depth = ctx.pick(4, 5)
    cuts = ctx.pick(2, 3)
    ctx.bounds = {"bfs_depth": depth, "bfs_configs": ["udp+upstream", "tcp+upstream", "udp no upstream", "tcp no upstream"],
                  "ids": [1, 2, 3], "names": ["a", "b"], "addon_policies": ["pass", "set response", "set error"], "connect": ["ok", "fail"],
                  "tcp_streams": len(streams(ctx.thorough)), "max_cuts": cuts,
                  "tcp_message_mixes": "all sequences of 2 well-framed messages per direction, <= %d cuts and byte by byte%s" % (
                      (2, "; of 3 messages with <= 1 cut") if ctx.thorough else (1, "")), "question_sections": {"a": "[a]", "b": "[b, a]"},
                  "servfail_matrix": "2 transports x 3 causes x 16 opcodes x RD x other-bits{0,1} x 0..3 questions"}
    cases = list(servfail_cases())
    for label, direction, frames, bag, has_bad, bound in streams(ctx.thorough):
        n = sum(len(f) for f in frames)
        for cs in cut_sets(n, cuts if bound is None else min(cuts, bound)):
            cases.append({"stream": label, "dir": direction, "frames": frames, "cuts": cs, "bad_after_good": bag, "has_bad": has_bad})
    ctx.log("%d configurations to explore to depth %d, %d segmentation/SERVFAIL executions" % (len(CONFIGS), depth, len(cases)))
    nproc = ctx.pick(min(4, par.NPROC), par.NPROC)
    batch = max(500, len(cases) // (nproc * 3) + 1)
    items = [("bfs", (cfg, depth)) for cfg in CONFIGS] + [("family", cases[i:i + batch]) for i in range(0, len(cases), batch)]
    par.pmap_tally(work, items, ctx.tally, nchunks=len(items), nproc=nproc)  # one item per task, BFS tasks first
    ex = ctx.tally.extra
    if ex.pop("bfs_capped", 0):
        ctx.cap("state cap in bfs")
    ctx.log("bfs states: " + ", ".join("%s=%d" % (k[11:], v) for k, v in sorted(ex.items()) if k.startswith("bfs_states_")))


def replay(case, t: Tally, verbose=False):
    if "servfail" in case:
        return servfail_case(case, t, verbose)
    if "stream" in case:
        return seg_case(case, t, verbose)
    spec = Spec(*case["cfg"])
    s = spec.build()
    hist = []
    for a in case["bfs"]:
        spec.apply(s, a)
        hist.append(a)
        if verbose:
            print("  %-40s %s" % (a, s.step[1]))
            for e in s.d.log[s.mark:]:
                print("      ", e)
    spec.check(s, hist, t)
