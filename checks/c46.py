"""C46 - mitmweb requires authentication and blocks cross-site state changes.

Engine E on the real tornado `Application` of a real `WebMaster`, driven in-process
(`vmc/drivers/webdrv.py`: requests enter through `Application.start_request`, the interface
tornado's HTTP1Connection uses; no socket, no tornado IOLoop, handler coroutines run on the
virtual loop).  XSRF protection is ON (the repository's tests switch it off).

Every entry of `app.handlers` (URL instantiated from its regex with the id of a real flow)
x HTTP method x credential form x XSRF form x Sec-Fetch-Site value is sent; before and after
every request the complete observable state (view store and order, every flow's state,
options, event log, live WebSocket connections, replay queue) is snapshotted.
"""
from __future__ import annotations

import atexit
import json
import os
import re
import shutil
import time

from vmc import par
from vmc.tally import HarnessError, Tally

META = {
    "level": "exploration",
    "technique": "bounded-exhaustive enumeration of (route x method x credential form x XSRF form x Sec-Fetch-Site) against the real tornado "
    "Application/WebMaster in-process, with a full state snapshot before/after each request",
    "claim": "for every route of app.handlers (and the /updates WebSocket), every HTTP method and every enumerated way of not presenting a valid "
    "password/token/cookie the answer is 403 (405 for a method the route lacks), nothing changes and no flow data is in the reply; with valid "
    "credentials no non-safe request changes state without a valid XSRF token or when marked cross-site; exploration because each request is "
    "independent of the others (state is rebuilt whenever a request changed it)",
    "rule": "a case is (url, method, credential kind, xsrf kind, Sec-Fetch-Site, password mode), or a password-rotation history (sequence of "
    "web_password settings applied at run time, after each of which the current password logs in and every earlier password is tried again); "
    "distinct = distinct tuple / history; non-trivial = the request reaches a handler the application defines for that method (i.e. with valid "
    "credentials it is not a 405), or it is the WebSocket upgrade, or it is a rotation history",
    "assumptions": [
        "keep-alive histories: two requests share one TCP connection (same stream and context objects, a fresh per-request connection object, as tornado's "
        "HTTP1ServerConnection does); each request is judged by the credentials it carries itself",
        "password rotation histories: random token, two plaintext passwords, argon2 hashes of two passwords and a second hash of the first, up to 2 (quick) / 3 "
        "(thorough) rotations; a session cookie issued before a rotation stays a valid session cookie and is not judged",
        "the static asset route tornado adds for static_path and unknown URLs (404) are outside the claim: they carry no flow data and change no state",
        "a refusal is any status >= 400 with unchanged state; the exact status 403 is only demanded for requests lacking valid credentials (405 accepted)",
        "Sec-Fetch-Site: only 'cross-site' is required to be refused; 'same-site' and unknown values are enumerated and their outcome recorded, not judged",
        "the WebSocket is driven up to the end of the opening handshake (101 + registration in ClientConnection.connections); frames are not exchanged",
        "tornado's own clock only enters through cookie/XSRF timestamps, which are data here: the expired-cookie case is dated 400 days back (limit 31 days)",
    ],
}

SCRATCH = "/dev/shm/vmc-%d-c46" % os.getpid()
FLOW_ID = "aaaa0001-0000-4000-8000-000000000001"
TCP_ID = "aaaa0002-0000-4000-8000-000000000002"
DNS_ID = "aaaa0003-0000-4000-8000-000000000003"
MARK = "s3cr3t"
XSRF_A = "abcdef0123456789abcdef0123456789"
XSRF_B = "0123456789abcdef0123456789abcdef"
PLAIN_PW = "plain-Passw0rd"
ARGON_PW = "argon-Passw0rd"
SAFE = ("GET", "HEAD", "OPTIONS")
METHODS = ["GET", "HEAD", "POST", "PUT", "DELETE", "PATCH", "OPTIONS"]
WS_HEADERS = [("Upgrade", "websocket"), ("Connection", "Upgrade"), ("Sec-WebSocket-Key", "dGhlIHNhbXBsZSBub25jZQ=="), ("Sec-WebSocket-Version", "13")]

CRED_INVALID = ["none", "bearer-wrong", "token-wrong", "bearer-empty", "token-empty", "bearer-truncated", "bearer-extended", "token-truncated",
                "bearer-lowercase-scheme-wrong", "cookie-unsigned", "cookie-bad-signature", "cookie-other-secret", "cookie-other-port",
                "cookie-other-port-name", "cookie-wrong-value", "cookie-expired", "cookie-v1"]
CRED_VALID = ["bearer-valid", "token-valid", "cookie-valid"]
XSRF_KINDS = ["absent", "cookie-only", "header-only", "mismatch", "valid-header", "valid-argument"]
XSRF_VALID = ("valid-header", "valid-argument")
SFS = ["absent", "same-origin", "none", "same-site", "cross-site"]


def _cleanup():
    shutil.rmtree(SCRATCH, ignore_errors=True)


# ---------------------------------------------------------------------------
# routes


def instantiate(pattern, variants):
    """URLs for one route regex of app.handlers; every group the application uses is substituted explicitly"""
    subs = [
        (r"(?P<flow_id>[0-9a-f\-]+)", [FLOW_ID]),
        (r"(?P<message>request|response|messages)", ["request", "response"] if variants else ["request"]),
        (r"(?P<content_view>[0-9a-zA-Z\-\_%]+)", ["auto"]),
        (r"(?P<cmd>[a-z.]+)", ["view.clear"]),
        (r"(?:\.json)?", ["", ".json"] if variants else [""]),
    ]
    urls = [pattern]
    for needle, values in subs:
        nxt = []
        for u in urls:
            if needle in u:
                nxt += [u.replace(needle, v) for v in values]
            else:
                nxt.append(u)
        urls = nxt
    for u in urls:
        if any(c in u for c in "()[]?*+\\") or not re.fullmatch(pattern, u):
            raise HarnessError("cannot instantiate route %r (got %r): teach instantiate() the new group" % (pattern, u))
    return urls


def routes(variants):
    from mitmproxy.tools.web import app

    out = []
    for pattern, handler in app.handlers:
        for u in instantiate(pattern, variants):
            out.append((u, handler.__name__))
    return out


def attack_body(handler_name, method):
    """a body that changes state if the handler processes it: (content type or None, bytes)"""
    if method in SAFE:
        return None, b""
    if handler_name == "FlowHandler":
        return "application/json", json.dumps({"request": {"path": "/pwned"}}).encode()
    if handler_name == "Options":
        return "application/json", json.dumps({"anticache": True}).encode()
    if handler_name == "ExecuteCommand":
        return "application/json", json.dumps({"arguments": []}).encode()
    if handler_name == "FlowContent":
        return "application/octet-stream", b"pwned-content"
    return None, b""


# ---------------------------------------------------------------------------
# the system under test: one driver per (process, password mode), rebuilt whenever a request changed state

_DRIVERS: dict = {}
_ARGON_HASH = None


def argon_hash():
    global _ARGON_HASH
    if _ARGON_HASH is None:
        import argon2

        _ARGON_HASH = argon2.PasswordHasher(time_cost=1, memory_cost=8, parallelism=1).hash(ARGON_PW)
    return _ARGON_HASH


class Sut:
    def __init__(self, pwmode):
        from mitmproxy import log
        from mitmproxy.test import tflow
        from vmc.drivers.webdrv import WebDriver

        os.makedirs(SCRATCH, exist_ok=True)
        self.pwmode = pwmode
        self.wd = WebDriver(SCRATCH)
        m = self.wd.master
        if pwmode != "random":
            # the option is applied the way mitmweb applies its command line / config file: options.update -> WebAuth.configure
            value = PLAIN_PW if pwmode == "plain" else argon_hash()
            self.wd.run(lambda: m.options.update(web_password=value))
        self.password = {"random": self.wd.auth._password, "plain": PLAIN_PW, "argon2": ARGON_PW}[pwmode]

        f = tflow.tflow(resp=True)
        f.id = FLOW_ID
        f.request.host = MARK + "-host.example"
        f.request.path = "/" + MARK + "-path"
        f.request.headers["X-Token"] = MARK + "-hdr"
        f.request.content = (MARK + "-reqbody").encode()
        f.response.content = (MARK + "-respbody").encode()
        f.comment = MARK + "-comment"
        f.backup()
        f.request.method = "POST"  # modified() is true: /revert is a state change
        f.intercept()  # /resume is a state change
        t = tflow.ttcpflow()
        t.id = TCP_ID
        t.messages[0].content = (MARK + "-tcp").encode()
        d = tflow.tdnsflow(resp=True)
        d.id = DNS_ID

        def fill():
            m.view.add([f, t, d])
            m.events._add_log(log.LogEntry(MARK + " log line", "info"))

        self.wd.run(fill)
        self.pristine = self.snapshot()
        if MARK not in json.dumps(self.pristine["flows"]):
            raise HarnessError("marker is not part of the flow state")

    def snapshot(self):
        from mitmproxy.tools.web.app import ClientConnection

        m = self.wd.master
        flows = []
        for f in m.view._store.values():
            st = f.get_state()
            flows.append([f.id, f.intercepted, f.live, f.marked, repr(sorted(st.items(), key=lambda kv: kv[0]))])
        return {
            "flows": flows,
            "order": [f.id for f in m.view],
            "options": {k: repr(getattr(m.options, k)) for k in sorted(m.options.keys())},
            "events": [e.msg for e in m.events.data],
            "ws": len(ClientConnection.connections),
            "replay": m.addons.get("clientplayback").count(),
            "password": self.wd.auth._password,
        }

    def diff(self, snap):
        return [k for k in snap if snap[k] != self.pristine[k]]

    def dispose(self):
        from mitmproxy.tools.web.app import ClientConnection

        try:
            self.wd.cancel_background()
        finally:
            ClientConnection.connections.clear()
            self.wd.dispose()


def sut(pwmode) -> Sut:
    s = _DRIVERS.get(pwmode)
    if s is None:
        s = _DRIVERS[pwmode] = Sut(pwmode)
    return s


def drop(pwmode):
    s = _DRIVERS.pop(pwmode, None)
    if s is not None:
        s.dispose()


# ---------------------------------------------------------------------------
# request construction


def signed(s: Sut, name=None, value=b"y", secret=None, **kw):
    from tornado.web import create_signed_value

    st = s.wd.app.settings
    return create_signed_value(secret or st["cookie_secret"], name or st["auth_cookie_name"](), value, **kw).decode()


def credentials(s: Sut, kind):
    """(headers, query args, cookies) for one credential kind"""
    pw = s.password
    name = s.wd.app.settings["auth_cookie_name"]()
    other_name = name.rsplit("-", 1)[0] + "-9999"
    H, Q, C = [], [], []
    if kind == "none":
        pass
    elif kind == "bearer-wrong":
        H.append(("Authorization", "Bearer wrong-password"))
    elif kind == "token-wrong":
        Q.append(("token", "wrong-password"))
    elif kind == "bearer-empty":
        H.append(("Authorization", "Bearer"))  # what "Bearer " is after an HTTP parser stripped optional whitespace
    elif kind == "token-empty":
        Q.append(("token", ""))
    elif kind == "bearer-truncated":
        H.append(("Authorization", "Bearer " + pw[:-1]))
    elif kind == "bearer-extended":
        H.append(("Authorization", "Bearer " + pw + "x"))
    elif kind == "token-truncated":
        Q.append(("token", pw[:-1]))
    elif kind == "bearer-lowercase-scheme-wrong":
        H.append(("Authorization", "bearer wrong-password"))
    elif kind == "hash-as-password":  # argon2 mode only: presenting the stored hash itself
        H.append(("Authorization", "Bearer " + s.wd.master.options.web_password))
    elif kind == "cookie-unsigned":
        C.append((name, "y"))
    elif kind == "cookie-bad-signature":
        v = signed(s)
        C.append((name, v[:-1] + ("0" if v[-1] != "0" else "1")))
    elif kind == "cookie-other-secret":
        C.append((name, signed(s, secret=b"\x00" * 32)))
    elif kind == "cookie-other-port":  # a cookie minted for another instance's name, presented under ours
        C.append((name, signed(s, name=other_name)))
    elif kind == "cookie-other-port-name":  # ... and presented under its own name
        C.append((other_name, signed(s, name=other_name)))
    elif kind == "cookie-wrong-value":
        C.append((name, signed(s, value=b"n")))
    elif kind == "cookie-expired":
        old = time.time() - 400 * 86400
        C.append((name, signed(s, clock=lambda: old)))
    elif kind == "cookie-v1":
        C.append((name, signed(s, version=1)))
    elif kind == "bearer-valid":
        H.append(("Authorization", "Bearer " + pw))
    elif kind == "token-valid":
        Q.append(("token", pw))
    elif kind == "cookie-valid":
        C.append((name, signed(s)))
    else:
        raise HarnessError("unknown credential kind %r" % kind)
    return H, Q, C


def xsrf(kind):
    H, Q, C = [], [], []
    if kind == "absent":
        pass
    elif kind == "cookie-only":
        C.append(("_mitmproxy_xsrf", XSRF_A))
    elif kind == "header-only":
        H.append(("X-XSRFToken", XSRF_A))
    elif kind == "mismatch":
        C.append(("_mitmproxy_xsrf", XSRF_A))
        H.append(("X-XSRFToken", XSRF_B))
    elif kind == "valid-header":
        C.append(("_mitmproxy_xsrf", XSRF_A))
        H.append(("X-XSRFToken", XSRF_A))
    elif kind == "valid-argument":
        C.append(("_mitmproxy_xsrf", XSRF_A))
        Q.append(("_xsrf", XSRF_A))
    else:
        raise HarnessError("unknown xsrf kind %r" % kind)
    return H, Q, C


def build(s: Sut, case):
    from urllib.parse import urlencode

    h1, q1, c1 = credentials(s, case["cred"])
    h2, q2, c2 = xsrf(case["xsrf"])
    headers = h1 + h2
    if case["sfs"] != "absent":
        headers.append(("Sec-Fetch-Site", case["sfs"]))
    cookies = c1 + c2
    if cookies:
        headers.append(("Cookie", "; ".join("%s=%s" % kv for kv in cookies)))
    if case["handler"] == "ClientConnection" and case["method"] == "GET":
        headers += WS_HEADERS
    ctype, body = attack_body(case["handler"], case["method"])
    if ctype:
        headers.append(("Content-Type", ctype))
    q = q1 + q2
    uri = case["url"] + ("?" + urlencode(q) if q else "")
    return uri, headers, body


# ---------------------------------------------------------------------------


def run_conn_history(hist, t: Tally, verbose=False):
    """several requests on ONE keep-alive TCP connection (same stream and context objects, a fresh per-request
    connection object, as tornado's HTTP1ServerConnection does); every request is judged by its own credentials"""
    reqs = hist["conn_history"]
    s = sut(reqs[0].get("pw", "random"))
    tcp = s.wd.new_tcp_connection()
    label = "fresh"
    for i, case in enumerate(reqs):
        if _DRIVERS.get(case.get("pw", "random")) is not s:
            raise HarnessError("the application was rebuilt in the middle of a connection history: %r" % (hist,))
        run_case(case, t, verbose=verbose, tcp=tcp, conn=label, replay_case=hist)
        label = "reused-after-" + ("valid" if case["cred"] in CRED_VALID else "invalid")


def gen_conn_histories(thorough):
    out = []
    rts = routes(False)
    firsts = [{"url": "/flows", "handler": "Flows", "method": "GET", "cred": c, "xsrf": "absent", "sfs": "absent", "pw": "random"}
              for c in CRED_VALID + ["none"]]
    seconds_cred = ["none", "bearer-wrong", "cookie-bad-signature"] + (["token-wrong", "cookie-wrong-value", "bearer-truncated"] if thorough else [])
    for first in firsts:
        for url, handler in rts:
            for method in (METHODS if thorough else ["GET", "POST", "PUT", "DELETE"]):
                for cred in seconds_cred:
                    second = {"url": url, "handler": handler, "method": method, "cred": cred, "xsrf": "absent" if method in SAFE else "valid-header",
                              "sfs": "absent", "pw": "random"}
                    out.append({"conn_history": [first, second]})
    return out


def run_case(case, t: Tally, verbose=False, tcp=None, conn="fresh", replay_case=None):
    pw = case.get("pw", "random")
    s = sut(pw)
    uri, headers, body = build(s, case)
    crashed = None
    try:
        r = s.wd.request(case["method"], uri, headers, body, tcp=tcp)
    except KeyboardInterrupt:
        raise
    except BaseException as e:
        crashed = repr(e)[:300]
        r = None
    snap = s.snapshot()
    changed = s.diff(snap)
    status = r.status if r is not None else None
    resp_text = (r.body if r is not None else b"") + b"\n" + ("\n".join("%s: %s" % kv for kv in (r.headers if r is not None else []))).encode("utf-8", "replace")
    leaks = [m for m in (MARK, FLOW_ID, TCP_ID, DNS_ID) if m.encode() in resp_text or m.upper().encode() in resp_text]
    obs = {"status": status, "changed": changed, "leaks": leaks, "body": (r.body[:120] if r is not None else None), "crashed": crashed or (r.crashed if r is not None else None),
           "log": [m[:140] for lv, m in (r.log if r is not None else []) if lv in ("ERROR", "WARNING")][:2]}
    if verbose:
        print("  %s %s\n  headers=%r\n  -> %r" % (case["method"], uri, headers, obs))
    valid = case["cred"] in CRED_VALID
    unsafe = case["method"] not in SAFE
    if status is None:
        result = "no-response"
    elif status >= 500:
        result = "refused-5xx" if not changed else "processed"
    elif status >= 400:
        result = "refused-4xx" if not changed else "processed"
    else:
        result = "processed"
    feats = {"route": case["handler"], "method": case["method"], "method_class": "unsafe" if unsafe else "safe", "cred": case["cred"],
             "xsrf": case["xsrf"], "sfs": case["sfs"], "pw": pw, "result": result, "conn": conn}
    rcase = replay_case or case
    is_ws =case["handler"] == "ClientConnection" and case["method"] == "GET"
    t.outcome([case["handler"], case["method"], valid, case["xsrf"] in XSRF_VALID, case["sfs"], status, bool(changed)])

    nontrivial = True
    if not valid:
        ok = status in (403, 405) and obs["crashed"] is None
        t.judge("unauthenticated_is_403", ok, feats, rcase,"status 403 (405 for a method the route does not implement)", obs)
        t.judge("no_state_change", not changed, feats, rcase,"state snapshot unchanged", obs)
        t.judge("no_flow_data_in_body", not leaks, feats, rcase,"no flow data (marker, flow ids) in the reply", obs)
        if is_ws:
            t.judge("websocket_refused", status == 403 and not (r is not None and r.detached) and "ws" not in changed, feats, rcase,"403, no upgrade, not registered", obs)
        nontrivial = status != 405
    else:
        xs_ok = case["xsrf"] in XSRF_VALID
        if unsafe and not xs_ok:
            t.judge("state_changing_needs_valid_xsrf", not changed and status is not None and status >= 400, feats, rcase,"refused (status >= 400), state unchanged", obs)
        elif unsafe and case["sfs"] == "cross-site":
            t.judge("cross_site_refused", not changed and status is not None and status >= 400, feats, rcase,"refused (status >= 400), state unchanged", obs)
        elif unsafe and case["sfs"] in ("same-site",):
            t.note("same-site %s: %s" % (case["method"], "refused" if (status or 0) >= 400 and not changed else "processed"))
        else:
            # baseline: what a fully authorised request does (non-vacuity of the clauses above)
            if changed:
                t.add("authorised_request_changed_state")
            if leaks:
                t.add("authorised_request_returned_flow_data")
            if is_ws and status == 101:
                t.add("authorised_websocket_upgraded")
            if obs["crashed"]:
                t.note("authorised %s %s crashed the delegate: %s" % (case["method"], case["handler"], str(obs["crashed"])[:60]))
        nontrivial = status != 405
    t.case(case if (nontrivial and case["cred"] not in ("none", "bearer-valid") and unsafe) else None, nontrivial=nontrivial, key=[case, conn])
    if changed or (r is not None and r.detached):
        drop(pw)  # rebuild the application and its state for the next case


# ---------------------------------------------------------------------------
# histories: the password is rotated at run time (options.update -> WebAuth.configure, what `set web_password=...`,
# the options editor and config reloads do); every password that was valid earlier must be refused afterwards

ROT_CONFIGS = ["random", "plain1", "plain2", "argonA", "argonB", "argonA2"]
ROT_ROUTES = [("GET", "/flows", "Flows"), ("POST", "/clear", "ClearAll"), ("PUT", "/options", "Options"), ("GET", "/updates", "ClientConnection")]
_ROT_HASHES: dict = {}


def rot_value(name):
    """(web_password option value, the password a user types or None for the generated token)"""
    if name == "random":
        return "", None
    if name.startswith("plain"):
        pw = "plain-Passw0rd-" + name[-1]
        return pw, pw
    pw = {"argonA": "argon-Passw0rd-A", "argonB": "argon-Passw0rd-B", "argonA2": "argon-Passw0rd-A"}[name]
    if name not in _ROT_HASHES:
        import argon2

        # fresh random salt per hash: argonA and argonA2 are different hashes of the same password (the salt is data, not a verdict input)
        _ROT_HASHES[name] = argon2.PasswordHasher(time_cost=1, memory_cost=8, parallelism=1).hash(pw)
    return _ROT_HASHES[name], pw


def rot_mode(name):
    return "random" if name == "random" else ("plain" if name.startswith("plain") else "argon2")


def gen_rotations(maxlen):
    """every sequence of <= maxlen password configurations applied after start-up (which is 'random'); adjacent ones differ"""
    out = []

    def rec(prefix):
        if prefix:
            out.append(list(prefix))
        if len(prefix) >= maxlen:
            return
        for c in ROT_CONFIGS:
            if c != (prefix[-1] if prefix else "random"):
                rec(prefix + [c])

    rec([])
    return out


def rot_request(s: Sut, method, url, handler, form, password):
    from urllib.parse import urlencode

    headers, q = [], []
    if form == "bearer":
        headers.append(("Authorization", "Bearer " + password))
    else:
        q.append(("token", password))
    if method not in SAFE:
        headers += [("Cookie", "_mitmproxy_xsrf=" + XSRF_A), ("X-XSRFToken", XSRF_A)]
    if handler == "ClientConnection":
        headers += WS_HEADERS
    ctype, body = attack_body(handler, method)
    if ctype:
        headers.append(("Content-Type", ctype))
    return s.wd.request(method, url + ("?" + urlencode(q) if q else ""), headers, body)


def run_rotation(case, t: Tally, verbose=False):
    rcase = case
    drop("random")
    s = sut("random")
    try:
        known = [("random", s.wd.auth._password)]  # every password that has been valid so far: (mode, password)
        steps = ["random"] + list(case["rotation"])
        for i, name in enumerate(steps):
            if i > 0:
                value, pw = rot_value(name)
                s.wd.run(lambda: s.wd.master.options.update(web_password=value))
                cur = pw if pw is not None else s.wd.auth._password  # the generated token is what mitmweb prints in its URL
                known.append((rot_mode(name), cur))
                s.pristine = s.snapshot()
            cur_mode, cur = known[-1]
            # the current password works (and is thereby "seen" by whatever the implementation remembers)
            for form in ("bearer", "token"):
                r = rot_request(s, "GET", "/flows", "Flows", form, cur)
                if r.status == 200 and MARK.encode() in r.body:
                    t.add("rotation_current_password_accepted")
                else:
                    t.note("current %s password not accepted via %s" % (cur_mode, form))
            last = i == len(steps) - 1
            if not last and not verbose:
                continue  # the state after a prefix is judged by the shorter history
            olds = []
            for mode, pw in known[:-1]:
                if pw != cur and (mode, pw) not in olds:
                    olds.append((mode, pw))
            for old_mode, old in olds:
                for form in ("bearer", "token"):
                    for method, url, handler in ROT_ROUTES:
                        r = rot_request(s, method, url, handler, form, old)
                        changed = s.diff(s.snapshot())
                        resp_text = r.body + b"\n" + ("\n".join("%s: %s" % kv for kv in r.headers)).encode("utf-8", "replace")
                        leaks = [m for m in (MARK, FLOW_ID, TCP_ID, DNS_ID) if m.encode() in resp_text]
                        st = r.status
                        result = "no-response" if st is None else ("processed" if (st < 400 or changed) else ("refused-5xx" if st >= 500 else "refused-4xx"))
                        feats = {"route": handler, "method": method, "method_class": "safe" if method in SAFE else "unsafe", "cred": "old-password-" + form,
                                 "xsrf": "absent" if method in SAFE else "valid-header", "sfs": "absent", "pw": cur_mode, "result": result,
                                 "rotation": old_mode + ">" + cur_mode}
                        obs = {"status": st, "changed": changed, "leaks": leaks, "body": r.body[:100], "crashed": r.crashed, "history": steps[: i + 1]}
                        if verbose:
                            print("  after %r: old %s password via %s on %s %s -> %s %s" % (steps[: i + 1], old_mode, form, method, url, st, "CHANGED " + str(changed) if changed else ""))
                        t.judge("unauthenticated_is_403", st in (403, 405) and r.crashed is None, feats, rcase,"an earlier password is refused with 403 after the rotation", obs)
                        t.judge("no_state_change", not changed, feats, rcase,"state snapshot unchanged", obs)
                        t.judge("no_flow_data_in_body", not leaks, feats, rcase,"no flow data in the reply", obs)
                        if handler == "ClientConnection":
                            t.judge("websocket_refused", st == 403 and not r.detached, feats, rcase,"403, no upgrade", obs)
                        t.outcome(["rotation", old_mode, cur_mode, form, handler, st, bool(changed)])
                        t.add("rotation_old_password_requests")
                        if changed or r.detached:
                            raise _Dirty()
        t.case(case if len(case["rotation"]) == 2 else None, nontrivial=True, key=case)
    except _Dirty:
        t.case(case, nontrivial=True, key=case)  # an old password got through and changed state: judged above, history ends here
    finally:
        drop("random")


class _Dirty(Exception):
    pass


def chunk_fn(chunk):
    t = Tally()
    try:
        for c in chunk:
            if "rotation" in c:
                run_rotation(c, t)
            elif "conn_history" in c:
                run_conn_history(c, t)
            else:
                run_case(c, t)
    finally:
        for k in list(_DRIVERS):
            drop(k)
    return t


def gen_cases(thorough):
    cases = []

    def add(url, handler, method, cred, xs, sfs, pw="random"):
        cases.append({"url": url, "handler": handler, "method": method, "cred": cred, "xsrf": xs, "sfs": sfs, "pw": pw})

    rts = routes(thorough)
    for url, handler in rts:
        for method in METHODS:
            for cred in CRED_INVALID:
                if thorough:
                    pairs = [(x, s) for x in XSRF_KINDS for s in SFS]
                elif cred in ("none", "cookie-bad-signature", "bearer-wrong"):
                    # credentials x route x method in full; XSRF and fetch-site at their extremes
                    pairs = [("absent", "absent"), ("valid-header", "absent"), ("valid-header", "same-origin"), ("valid-header", "cross-site"), ("absent", "cross-site")]
                else:
                    pairs = [("absent", "absent"), ("valid-header", "absent")]
                for xs, sfs in pairs:
                    add(url, handler, method, cred, xs, sfs)
            for cred in CRED_VALID:
                for xs in XSRF_KINDS:
                    for sfs in SFS:
                        if not thorough:
                            if method in SAFE and (xs, sfs) not in (("absent", "absent"), ("valid-header", "cross-site")):
                                continue
                            # the full xsrf x fetch-site product with one credential form; the other two at the extremes
                            if cred != "bearer-valid" and (xs, sfs) not in (("absent", "absent"), ("mismatch", "absent"), ("valid-header", "absent"),
                                                                             ("valid-header", "cross-site"), ("valid-argument", "same-origin"), ("absent", "cross-site")):
                                continue
                        add(url, handler, method, cred, xs, sfs)
    # password modes: configured plaintext password and argon2 hash (verification is slow: a slice of the product)
    slice_routes = [(u, h) for u, h in rts if h in ("Flows", "ClearAll", "FlowHandler", "ClientConnection", "IndexHandler")]
    for pw, creds in (("plain", CRED_INVALID + CRED_VALID), ("argon2", ["none", "bearer-wrong", "token-wrong", "bearer-truncated", "bearer-extended", "hash-as-password", "cookie-bad-signature"] + (CRED_VALID if thorough else ["bearer-valid"]))):
        for url, handler in slice_routes:
            for method in (METHODS if thorough else ["GET", "POST", "PUT", "DELETE"]):
                for cred in creds:
                    for xs, sfs in [("absent", "absent"), ("valid-header", "absent"), ("valid-header", "cross-site")]:
                        add(url, handler, method, cred, xs, sfs, pw)
    return cases


def run(ctx):
    thorough = ctx.thorough
    os.makedirs(SCRATCH, exist_ok=True)
    atexit.register(_cleanup)
    try:
        from mitmproxy.tools.web import app

        rts = routes(thorough)
        # warm-up in the parent: imports happen once, before the fork; and the harness is sanity-checked
        s = sut("random")
        base = s.wd.request("GET", "/flows?token=" + s.password, [], b"")
        if base.status != 200 or MARK.encode() not in base.body:
            raise HarnessError("authorised GET /flows does not return the flows: %r" % base.brief())
        if s.diff(s.snapshot()):
            raise HarnessError("state snapshot is not stable")
        drop("random")
        cases = gen_cases(thorough)
        ctx.bounds = {
            "routes": len(app.handlers), "urls": len(rts), "methods": METHODS,
            "credentials_invalid": CRED_INVALID + ["hash-as-password (argon2 mode)"], "credentials_valid": CRED_VALID,
            "xsrf": XSRF_KINDS, "sec_fetch_site": SFS, "password_modes": ["random token", "web_password plaintext", "web_password argon2 hash"],
            "product": ("full: credentials x url x method x all xsrf x all fetch-site" if thorough else
                        "invalid credentials x url x method x 2 (xsrf, fetch-site) pairs (5 pairs for none / bad cookie signature / wrong bearer); "
                        "valid bearer x url x unsafe method x all xsrf x all fetch-site; valid token and cookie x url x method x 6 pairs"),
            "cases": len(cases),
        }
        ctx.log("%d cases over %d urls (%d routes)" % (len(cases), len(rts), len(app.handlers)))
        # forked workers: keep the collector from touching (and thereby copying) the parent's heap - page faults
        # are very expensive on this kind of VM; the quick tier is ~15 s of CPU, a small pool suffices
        import gc

        gc.collect()
        gc.freeze()
        nproc = par.NPROC if thorough else min(par.NPROC, 6)
        rots = [{"rotation": r} for r in gen_rotations(ctx.pick(2, 3))]
        for name in ROT_CONFIGS:
            rot_value(name)  # hashes are made once, before the fork
        ctx.bounds["password_rotation_histories"] = {
            "count": len(rots), "max_rotations": ctx.pick(2, 3), "configurations": ROT_CONFIGS,
            "per_step": "current password via bearer+token accepted; every earlier password x {bearer, token} x %r must be refused" % ([m + " " + u for m, u, _ in ROT_ROUTES],),
        }
        ctx.log("%d password rotation histories" % len(rots))
        conns = gen_conn_histories(thorough)
        ctx.bounds["keep_alive_connection_histories"] = {
            "count": len(conns), "shape": "2 requests on one TCP connection (shared stream/context): first an authorised GET /flows (bearer, token, cookie) or an "
            "unauthenticated one, then every url x {GET, POST, PUT, DELETE} x {none, bearer-wrong, cookie-bad-signature} judged by its own credentials"}
        ctx.log("%d keep-alive connection histories" % len(conns))
        par.pmap_tally(chunk_fn, cases + rots + conns, ctx.tally, nchunks=nproc * 2, nproc=nproc)
        t = ctx.tally
        ctx.log("counters: %s" % dict(sorted(t.extra.items())))
        for k in ("authorised_request_changed_state", "authorised_request_returned_flow_data", "authorised_websocket_upgraded",
                  "rotation_current_password_accepted", "rotation_old_password_requests"):
            if not t.extra.get(k):
                raise HarnessError("vacuous: no case with %s" % k)
    finally:
        _cleanup()


def replay(case, t: Tally, verbose=False):
    try:
        if isinstance(case, dict) and "rotation" in case:
            run_rotation(case, t, verbose=verbose)
        elif isinstance(case, dict) and "conn_history" in case:
            run_conn_history(case, t, verbose=verbose)
        else:
            run_case(case, t, verbose=verbose)
    finally:
        for k in list(_DRIVERS):
            drop(k)
        _cleanup()
