"""Independent in-memory TLS endpoints, a throw-away PKI and a sans-io rig for mitmproxy's TLS layers.

Used by C14 / C15 / C16.  The technique is the one of checks/c18.py (real `TlsConfig` addon supplies the
pyOpenSSL connection, a stdlib-`ssl` endpoint on `MemoryBIO`s is the peer), packaged for reuse:

  scratch()            /dev/shm/vmc-<pid>/, removed at exit of the process that created it
  key(name)            RSA-2048 keys, generated once per process and reused across certificates
  mint(...)            certificates made with `cryptography` (never with mitmproxy.certs)
  hashed_dir(...)      an OpenSSL `c_rehash`-style CA directory
  StdPeer              stdlib-ssl client or server endpoint (MemoryBIO): the independent peer.  stdlib ssl links
                       the system libssl, pyOpenSSL the one bundled with `cryptography`
  tls_env(...)         one real TlsConfig addon + Master/options + CA per (process, confdir)
  Rig                  drives a real ClientTLSLayer / ServerTLSLayer under a pass-through top layer and over a
                       probe child (a real `Layer`, so blocking commands and the pause queue are the real ones).
                       It answers commands the way `ConnectionHandler.server_event` does: hooks go to the real
                       TlsConfig addon (completion immediate or held by the caller), `OpenConnection` opens,
                       `CloseConnection` closes and is followed by `ConnectionClosed`, `SendData` is collected.
"""
from __future__ import annotations

import atexit
import datetime
import ipaddress
import os
import shutil
import ssl

from cryptography import x509
from cryptography.hazmat.primitives import hashes
from cryptography.hazmat.primitives import serialization
from cryptography.hazmat.primitives.asymmetric import rsa
from cryptography.x509.oid import ExtendedKeyUsageOID
from cryptography.x509.oid import NameOID
from OpenSSL import crypto

import mitmproxy.ctx
from mitmproxy import addonmanager
from mitmproxy import connection
from mitmproxy.addons import proxyserver as proxyserver_addon
from mitmproxy.addons import tlsconfig
from mitmproxy.connection import ConnectionState
from mitmproxy.net import tls as net_tls
from mitmproxy.proxy import commands
from mitmproxy.proxy import context as mcontext
from mitmproxy.proxy import events
from mitmproxy.proxy import layer
from mitmproxy.proxy.layers import tls as ptls
from mitmproxy.test import taddons

from vmc.tally import HarnessError

# ---------------------------------------------------------------------------
# scratch space

_SCRATCH: dict[int, str] = {}


def scratch() -> str:
    """per-process scratch directory; forked workers keep reading the parent's directory (they inherit
    `_SCRATCH`) and never delete it"""
    if _SCRATCH:
        return next(iter(_SCRATCH.values()))
    pid = os.getpid()
    d = "/dev/shm/vmc-%d" % pid
    os.makedirs(d, exist_ok=True)
    _SCRATCH[pid] = d

    def _rm():
        if os.getpid() == pid:
            shutil.rmtree(d, ignore_errors=True)

    atexit.register(_rm)
    return d


def clear_context_caches():
    """the lru_caches in front of the SSL.Context factories are keyed by *paths*: clear them whenever the files
    behind a path or the configuration may have changed"""
    net_tls.create_proxy_server_context.cache_clear()
    net_tls.create_client_proxy_context.cache_clear()


# ---------------------------------------------------------------------------
# PKI

_KEYS: dict[str, rsa.RSAPrivateKey] = {}
_SERIAL = [1000]
DAY = datetime.timedelta(days=1)


def key(name: str) -> rsa.RSAPrivateKey:
    if name not in _KEYS:
        _KEYS[name] = rsa.generate_private_key(public_exponent=65537, key_size=2048)
    return _KEYS[name]


def key_pem(name: str) -> bytes:
    return key(name).private_bytes(serialization.Encoding.PEM, serialization.PrivateFormat.TraditionalOpenSSL, serialization.NoEncryption())


def cert_pem(cert: x509.Certificate) -> bytes:
    return cert.public_bytes(serialization.Encoding.PEM)


def utcnow() -> datetime.datetime:
    return datetime.datetime.now(datetime.timezone.utc)


def general_names(sans):
    """sans: list of "dns:..." / "ip:..." / "email:..." / "uri:..." strings"""
    out = []
    for s in sans:
        kind, _, val = s.partition(":")
        if kind == "dns":
            out.append(x509.DNSName(val))
        elif kind == "ip":
            out.append(x509.IPAddress(ipaddress.ip_address(val)))
        elif kind == "email":
            out.append(x509.RFC822Name(val))
        elif kind == "uri":
            out.append(x509.UniformResourceIdentifier(val))
        else:
            raise ValueError(s)
    return out


def mint(*, cn=None, o=None, key_name, issuer=None, issuer_key=None, ca=False, sans=None, days=(-30, 365),
         eku=(ExtendedKeyUsageOID.SERVER_AUTH,), crl=None, pathlen=None, basic_constraints=True):
    """issuer=None -> self-signed.  `days` = (not_before, not_after) relative to now, whole days only, so that no
    verdict depends on the clock.  Serial numbers are a per-process counter."""
    attrs = []
    if cn is not None:
        attrs.append(x509.NameAttribute(NameOID.COMMON_NAME, cn, _validate=False))
    if o is not None:
        attrs.append(x509.NameAttribute(NameOID.ORGANIZATION_NAME, o))
    subject = x509.Name(attrs)
    pub = key(key_name).public_key()
    now = utcnow()
    _SERIAL[0] += 1
    b = (x509.CertificateBuilder().subject_name(subject).issuer_name(issuer.subject if issuer is not None else subject)
         .public_key(pub).serial_number(_SERIAL[0]).not_valid_before(now + days[0] * DAY).not_valid_after(now + days[1] * DAY))
    if basic_constraints:
        b = b.add_extension(x509.BasicConstraints(ca=ca, path_length=pathlen if ca else None), critical=True)
    if ca:
        b = b.add_extension(x509.KeyUsage(digital_signature=False, content_commitment=False, key_encipherment=False, data_encipherment=False,
                                          key_agreement=False, key_cert_sign=True, crl_sign=True, encipher_only=False, decipher_only=False), critical=True)
    elif eku:
        b = b.add_extension(x509.ExtendedKeyUsage(list(eku)), critical=False)
    b = b.add_extension(x509.SubjectKeyIdentifier.from_public_key(pub), critical=False)
    if issuer is not None:
        ski = issuer.extensions.get_extension_for_class(x509.SubjectKeyIdentifier).value
        b = b.add_extension(x509.AuthorityKeyIdentifier.from_issuer_subject_key_identifier(ski), critical=False)
    if sans:
        b = b.add_extension(x509.SubjectAlternativeName(general_names(sans)), critical=not attrs)
    if crl:
        b = b.add_extension(x509.CRLDistributionPoints([x509.DistributionPoint([x509.UniformResourceIdentifier(crl)], None, None, None)]), critical=False)
    return b.sign(private_key=key(issuer_key or key_name), algorithm=hashes.SHA256())


def write(path: str, data: bytes) -> str:
    os.makedirs(os.path.dirname(path), exist_ok=True)
    with open(path, "wb") as f:
        f.write(data)
    return path


def hashed_dir(path: str, cas) -> str:
    """what `c_rehash` produces: <subject hash>.<n> files"""
    os.makedirs(path, exist_ok=True)
    seen: dict[str, int] = {}
    for c in cas:
        h = "%08x" % crypto.X509.from_cryptography(c).subject_name_hash()
        n = seen.get(h, 0)
        seen[h] = n + 1
        write(os.path.join(path, "%s.%d" % (h, n)), cert_pem(c))
    return path


# ---------------------------------------------------------------------------
# the independent peer

TLS_VERSIONS = {"1.2": ssl.TLSVersion.TLSv1_2, "1.3": ssl.TLSVersion.TLSv1_3}


def std_server_context(chain_file: str, key_file: str, tls: str | None = None) -> ssl.SSLContext:
    c = ssl.SSLContext(ssl.PROTOCOL_TLS_SERVER)
    c.load_cert_chain(chain_file, key_file)
    if tls:
        c.minimum_version = c.maximum_version = TLS_VERSIONS[tls]
    return c


def std_client_context(cafile: str | None, tls: str | None = None, strict=False) -> ssl.SSLContext:
    """cafile=None: verify nothing; otherwise CERT_REQUIRED + check_hostname against exactly that file"""
    c = ssl.SSLContext(ssl.PROTOCOL_TLS_CLIENT)
    if cafile is None:
        c.check_hostname = False
        c.verify_mode = ssl.CERT_NONE
    else:
        c.verify_mode = ssl.CERT_REQUIRED
        c.check_hostname = True
        c.load_verify_locations(cafile=cafile)
        if strict:
            c.verify_flags |= ssl.VERIFY_X509_STRICT
    if tls:
        c.minimum_version = c.maximum_version = TLS_VERSIONS[tls]
    return c


class StdPeer:
    """one stdlib-ssl endpoint on memory BIOs"""

    def __init__(self, sslctx: ssl.SSLContext, server_side: bool, server_hostname: str | None = None):
        self.inc, self.out = ssl.MemoryBIO(), ssl.MemoryBIO()
        self.obj = sslctx.wrap_bio(self.inc, self.out, server_side=server_side, server_hostname=server_hostname)
        self.done = False
        self.error: Exception | None = None
        self.plain = bytearray()  # everything decrypted so far
        self.got_close_notify = False
        self.fed = 0

    def feed(self, data: bytes):
        if data:
            self.fed += len(data)
            self.inc.write(data)

    def step(self) -> bytes:
        """advance the handshake, decrypt what is there; returns the bytes this endpoint wants to send"""
        if self.error is None and not self.done:
            try:
                self.obj.do_handshake()
                self.done = True
            except ssl.SSLWantReadError:
                pass
            except (ssl.SSLError, OSError) as e:
                self.error = e
        if self.error is None and self.done and not self.got_close_notify:
            while True:
                try:
                    d = self.obj.read(65536)
                except ssl.SSLWantReadError:
                    break
                except ssl.SSLZeroReturnError:
                    self.got_close_notify = True
                    break
                except (ssl.SSLError, OSError) as e:
                    self.error = e
                    break
                if not d:
                    self.got_close_notify = True
                    break
                self.plain += d
        return self.out.read()

    def write(self, data: bytes, piece: int = 0) -> bytes:
        """encrypt `data`; piece > 0: one SSL write (hence at least one record) per `piece` bytes"""
        if not self.done:
            raise HarnessError("peer write before its handshake completed")
        step = piece or len(data) or 1
        for i in range(0, len(data), step):
            n = self.obj.write(data[i:i + step])
            if n != len(data[i:i + step]):
                raise HarnessError("short SSL write")
        return self.out.read()

    def close_notify(self) -> bytes:
        try:
            self.obj.unwrap()
        except (ssl.SSLWantReadError, ssl.SSLSyscallError):
            pass
        return self.out.read()


class StrictSniClient:
    """a strict verifying client that puts an arbitrary string - in particular an IP literal - into the
    server_name extension.  stdlib ssl refuses to do that (it sends no SNI for IP literals), so this one endpoint is
    built on pyOpenSSL: VERIFY_PEER, X509_V_FLAG_X509_STRICT, host / IP check of exactly `identity`, trusting only
    `cafile`.  Same interface as StdPeer."""

    def __init__(self, cafile: str, identity: str, tls: str | None = None):
        from OpenSSL import SSL

        self._SSL = SSL
        c = SSL.Context(SSL.TLS_CLIENT_METHOD)
        if tls:
            v = {"1.2": SSL.TLS1_2_VERSION, "1.3": SSL.TLS1_3_VERSION}[tls]
            c.set_min_proto_version(v)
            c.set_max_proto_version(v)
        c.load_verify_locations(cafile)
        c.set_verify(SSL.VERIFY_PEER, None)
        self.obj = SSL.Connection(c, None)
        param = SSL._lib.SSL_get0_param(self.obj._ssl)
        SSL._lib.X509_VERIFY_PARAM_set_flags(param, SSL._lib.X509_V_FLAG_X509_STRICT)
        SSL._lib.X509_VERIFY_PARAM_set_hostflags(param, SSL._lib.X509_CHECK_FLAG_NO_PARTIAL_WILDCARDS | getattr(SSL._lib, "X509_CHECK_FLAG_NEVER_CHECK_SUBJECT", 0))
        try:
            packed = ipaddress.ip_address(identity).packed
            ok = SSL._lib.X509_VERIFY_PARAM_set1_ip(param, packed, len(packed))
        except ValueError:
            name = identity.encode("idna")
            ok = SSL._lib.X509_VERIFY_PARAM_set1_host(param, name, len(name))
        if ok != 1:
            raise HarnessError("cannot configure the verifier for %r" % identity)
        self.obj.set_tlsext_host_name(identity.encode("idna"))
        self.obj.set_connect_state()
        self.done = False
        self.error: Exception | None = None
        self.plain = bytearray()
        self.got_close_notify = False
        self.fed = 0

    def feed(self, data: bytes):
        if data:
            self.fed += len(data)
            self.obj.bio_write(data)

    def _out(self) -> bytes:
        out = bytearray()
        while True:
            try:
                out += self.obj.bio_read(65535)
            except self._SSL.WantReadError:
                return bytes(out)

    def step(self) -> bytes:
        SSL = self._SSL
        if self.error is None and not self.done:
            try:
                self.obj.do_handshake()
                self.done = True
            except SSL.WantReadError:
                pass
            except SSL.Error as e:
                res = SSL._lib.SSL_get_verify_result(self.obj._ssl)
                txt = SSL._ffi.string(SSL._lib.X509_verify_cert_error_string(res)).decode()
                self.error = RuntimeError("%r (verify result: %s)" % (e, txt))
        if self.error is None and self.done and not self.got_close_notify:
            while True:
                try:
                    self.plain += self.obj.recv(65535)
                except SSL.WantReadError:
                    break
                except SSL.ZeroReturnError:
                    self.got_close_notify = True
                    break
                except SSL.Error as e:
                    self.error = e
                    break
        return self._out()

    def write(self, data: bytes, piece: int = 0) -> bytes:
        if not self.done:
            raise HarnessError("peer write before its handshake completed")
        self.obj.sendall(data)
        return self._out()


def tls_records(stream: bytes):
    """split a ciphertext stream into TLS records (5-byte header + length); raises HarnessError when it is not one"""
    out, i = [], 0
    while i < len(stream):
        if i + 5 > len(stream):
            raise HarnessError("ciphertext stream does not end on a record boundary")
        n = int.from_bytes(stream[i + 3:i + 5], "big")
        out.append(stream[i:i + 5 + n])
        i += 5 + n
    if i != len(stream):
        raise HarnessError("ciphertext stream does not end on a record boundary")
    return out


# ---------------------------------------------------------------------------
# the real TlsConfig addon

_ENVS: dict[str, dict] = {}


class _CapturingLogger:
    """stands in for `mitmproxy.addonmanager.logger`: records what `safecall` reports, then logs it as usual"""

    def __init__(self, orig):
        self.orig = orig
        self.errors: list[str] = []

    def error(self, msg, *args, **kwargs):
        self.errors.append(str(msg))
        if len(self.errors) > 10000:
            del self.errors[:5000]
        self.orig.error(msg, *args, **kwargs)

    def __getattr__(self, name):
        return getattr(self.orig, name)


def tls_env(name: str = "default", prepare=None) -> dict:
    """one TlsConfig addon with its own Master/options and confdir `<scratch>/<name>`.  `prepare(confdir)` may
    pre-populate the directory (custom CA); otherwise mitmproxy generates its CA there, once.  Call `activate(env)`
    before driving a case so that the process-global `mitmproxy.ctx` points at this environment."""
    if name in _ENVS:
        return _ENVS[name]
    if not isinstance(addonmanager.logger, _CapturingLogger):
        addonmanager.logger = _CapturingLogger(addonmanager.logger)
    confdir = os.path.join(scratch(), "conf-" + name)
    os.makedirs(confdir, exist_ok=True)
    if prepare:
        prepare(confdir)
    tc = tlsconfig.TlsConfig()
    # Proxyserver only contributes its option definitions; it is never told that it is running
    tctx = taddons.context(tc, proxyserver_addon.Proxyserver())
    tctx.master._legacy_log_events.uninstall()
    tctx.configure(tc, confdir=confdir)
    e = {"name": name, "tc": tc, "tctx": tctx, "options": tctx.options, "confdir": confdir, "defaults": None}
    _ENVS[name] = e
    return e


def activate(env: dict, **opts):
    """point mitmproxy.ctx at `env`, reset every option except confdir to its default, then apply `opts`"""
    m = env["tctx"].master
    if env.get("active") == opts and mitmproxy.ctx.master is m:
        return  # same configuration as the previous case: contexts may stay cached, exactly as in a running proxy
    env["active"] = dict(opts)
    mitmproxy.ctx.master = m
    mitmproxy.ctx.options = m.options
    mitmproxy.ctx.log = m.log
    o = m.options
    upd = {}
    for k, opt in o._options.items():
        if k == "confdir":
            continue
        want = opts.get(k, opt.default)
        if opt.current() != want:
            upd[k] = want
    for k in opts:
        if k not in o._options:
            raise HarnessError("unknown option %r" % k)
    if upd:
        o.update(**upd)
    clear_context_caches()


# ---------------------------------------------------------------------------
# the rig


class Top(layer.Layer):
    """pass-through top of the stack (what a mode layer is to the TLS layers): events down, commands up"""

    child: layer.Layer

    def _handle_event(self, event):
        yield from self.child.handle_event(event)


class Probe(layer.Layer):
    """the inner protocol layer: records what it is given; relays bytes of the *other* connection into the
    TLS connection (that is how the harness makes 'the inner layer' write at a moment of its choosing)"""

    def __init__(self, ctx, rig):
        super().__init__(ctx)
        self.rig = rig

    def _handle_event(self, event):
        rig = self.rig
        if isinstance(event, events.Start):
            rig.child_log.append(("start",))
            if rig.child_opens:
                err = yield commands.OpenConnection(rig.tls_conn)
                rig.child_log.append(("open", err))
                rig.open_result = ("err", err) if err else ("ok",)
                if not err and rig.greeting:
                    yield commands.SendData(rig.tls_conn, rig.greeting)
            elif rig.greeting and rig.tls_conn.connected:
                yield commands.SendData(rig.tls_conn, rig.greeting)
        elif isinstance(event, events.DataReceived):
            if event.connection is rig.tls_conn:
                rig.child_log.append(("data", bytes(event.data)))
                rig.child_rx += event.data
            else:
                rig.child_log.append(("other", len(event.data)))
                if rig.tls_conn.state & ConnectionState.CAN_WRITE:
                    rig.child_tx += event.data
                    yield commands.SendData(rig.tls_conn, bytes(event.data))
                else:
                    rig.child_log.append(("not-relayed", len(event.data)))
        elif isinstance(event, events.ConnectionClosed):
            rig.child_log.append(("closed", "tls" if event.connection is rig.tls_conn else "other"))
        else:
            rig.child_log.append(("event", type(event).__name__))


class Rig:
    def __init__(self, side: str, env: dict, *, sni=None, address=("upstream.example", 443), child_opens=True, hold_hooks=False,
                 sockname=("192.0.2.2", 8080), peername=("192.0.2.9", 50000), server_sni=None, greeting=b"", server_certs=None, proxy_address=None):
        """side 'client': ClientTLSLayer on context.client (the server connection is plain and open).
        side 'server': ServerTLSLayer on context.server; child_opens=True: the probe opens it with OpenConnection,
        False: it is already open when the stack starts (eager).
        proxy_address (side 'server'): the TLS connection is not context.server but the connection to an upstream
        HTTPS proxy, set up the way HttpUpstreamProxy.make does (`--mode upstream:https://...`)."""
        self.side = side
        self.env = env
        self.tc = env["tc"]
        self.child_opens = child_opens and side == "server"
        self.hold_hooks = hold_hooks
        self.greeting = greeting
        client = connection.Client(peername=peername, sockname=sockname, timestamp_start=0, state=ConnectionState.OPEN)
        self.ctx = mcontext.Context(client, env["options"])
        self.ctx.server = connection.Server(address=address)
        if side == "client":
            if address:
                self.ctx.server.state = ConnectionState.OPEN
            if server_certs:
                self.ctx.server.certificate_list = list(server_certs)
        else:
            client.sni = sni
            self.ctx.server.sni = server_sni
            if not self.child_opens:
                self.ctx.server.state = ConnectionState.OPEN
        self.top = Top(self.ctx)
        proxy = None
        if side == "server" and proxy_address:
            proxy = connection.Server(address=proxy_address)
            proxy.alpn_offers = ptls.HTTP1_ALPNS
            proxy.sni = proxy_address[0]
            if not self.child_opens:
                proxy.state = ConnectionState.OPEN
                self.ctx.server.state = ConnectionState.CLOSED
        if side == "client":
            self.tls = ptls.ClientTLSLayer(self.ctx)
        else:
            self.tls = ptls.ServerTLSLayer(self.ctx, proxy)
        self.top.child = self.tls
        self.tls.child_layer = self.probe = Probe(self.ctx, self)
        self.tls_conn = client if side == "client" else (proxy or self.ctx.server)
        self.other_conn = self.ctx.server if side == "client" else client
        self.q: list = []
        self.held: list = []  # blocking hooks whose completion the caller holds back
        self.hooks: list = []  # (name, snapshot)
        self.sent = {"tls": bytearray(), "other": bytearray()}  # bytes mitmproxy wrote per connection
        self.unread = bytearray()  # bytes written to the TLS connection that the caller has not taken yet
        self.child_log: list = []
        self.child_rx = bytearray()
        self.child_tx = bytearray()
        self.open_result = None
        self.log: list = []
        self.logs: list = []  # (level, message) of commands.Log
        self.crash = None
        self.closed_by_proxy: list = []
        self.presented_cert = None
        self.addon_errors: list = []

    # -- events in ---------------------------------------------------------
    def start(self):
        self.feed(events.Start())

    def data(self, data: bytes, conn=None):
        self.feed(events.DataReceived(conn or self.tls_conn, data))

    def other_data(self, data: bytes):
        self.feed(events.DataReceived(self.other_conn, data))

    def peer_closed(self, conn=None):
        """what handle_connection does when the read side ends"""
        conn = conn or self.tls_conn
        if conn.state is ConnectionState.CLOSED:
            return
        conn.state &= ~ConnectionState.CAN_READ
        self.feed(events.ConnectionClosed(conn))

    def release_hook(self, i=0):
        cmd = self.held.pop(i)
        self.feed(events.HookCompleted(cmd, None))

    def feed(self, ev):
        self.q.append(ev)
        if len(self.q) > 1:
            return
        while self.q:
            if self.crash is None:
                self._handle(self.q[0])
            self.q.pop(0)

    def take(self) -> bytes:
        d = bytes(self.unread)
        self.unread.clear()
        return d

    # -- commands out ------------------------------------------------------
    def _handle(self, ev):
        gen = self.top.handle_event(ev)
        while True:
            try:
                cmd = next(gen)
            except StopIteration:
                return
            except KeyboardInterrupt:
                raise
            except BaseException as e:  # "mitmproxy has crashed!"
                self.crash = "%s: %s" % (type(e).__name__, str(e)[:300])
                self.log.append(("crash", self.crash))
                return
            self._command(cmd)

    def _command(self, cmd):
        if isinstance(cmd, commands.StartHook):
            self._hook(cmd)
        elif isinstance(cmd, commands.OpenConnection):
            c = cmd.connection
            c.state = ConnectionState.OPEN
            c.peername = c.address
            self.log.append(("open", "tls" if c is self.tls_conn else "other"))
            self.q.append(events.OpenConnectionCompleted(cmd, None))
        elif isinstance(cmd, commands.SendData):
            who = "tls" if cmd.connection is self.tls_conn else "other"
            if cmd.connection.state is ConnectionState.CLOSED:
                self.log.append(("send-after-close", who, len(cmd.data)))
                return  # server_event: the connection is no longer in the transport table
            self.sent[who] += cmd.data
            if who == "tls":
                self.unread += cmd.data
            self.log.append(("send", who, len(cmd.data)))
        elif isinstance(cmd, commands.CloseConnection):
            c = cmd.connection
            who = "tls" if c is self.tls_conn else "other"
            if c.state is ConnectionState.CLOSED:
                return
            if isinstance(cmd, commands.CloseTcpConnection) and cmd.half_close:
                c.state &= ~ConnectionState.CAN_WRITE
                self.log.append(("half-close", who))
                if c.state is not ConnectionState.CLOSED:
                    return
            c.state = ConnectionState.CLOSED
            self.closed_by_proxy.append(who)
            self.log.append(("close", who))
            self.q.append(events.ConnectionClosed(c))
        elif isinstance(cmd, commands.Log):
            self.logs.append((cmd.level, str(cmd.message)))
        else:
            raise HarnessError("unexpected command %r" % (cmd,))

    def _hook(self, cmd):
        name = cmd.name
        (data,) = cmd.args()
        # the real AddonManager: every addon of the chain, exceptions caught by `safecall` and only logged
        # ("Addon error: ..."), after which the hook completes like any other
        cap = addonmanager.logger
        n0 = len(cap.errors)
        self.env["tctx"].master.addons.trigger(cmd)
        for msg in cap.errors[n0:]:
            self.addon_errors.append("%s in %s" % (msg[:300], name))
        if isinstance(cmd, ptls.TlsStartClientHook) and data.ssl_conn is not None:
            c = data.ssl_conn.get_certificate()
            self.presented_cert = c.to_cryptography() if c is not None else None
        snap = None
        if isinstance(cmd, (ptls.TlsFailedClientHook, ptls.TlsFailedServerHook, ptls.TlsEstablishedClientHook, ptls.TlsEstablishedServerHook)):
            snap = {"error": data.conn.error, "established": data.conn.tls_established}
        self.hooks.append((name, snap))
        self.log.append(("hook", name))
        if not cmd.blocking:
            return
        if self.hold_hooks:
            self.held.append(cmd)
        else:
            self.q.append(events.HookCompleted(cmd, None))

    def hook_names(self):
        return [n for n, _ in self.hooks]
