"""C30 - raw QUIC stream demultiplexing: pairing, id allocation, routing of data / FIN / reset.

Engine X, BFS over event histories on the real `RawQuicLayer` (with the real per-stream
`QuicStreamLayer` -> `TCPLayer`, or `QuicStreamNextLayer` -> `TCPLayer` chosen at the
k-th ask), driven directly with `QuicStreamDataReceived` / `QuicStreamReset` /
`QuicConnectionClosed` the way the repository's test__raw_layers.py does.

Environment = two QUIC peers.  A peer opens streams of its own kinds (client: bidi
0,4,.. and uni 2,6,..; server: bidi 1,5,.. and uni 3,7,..; the two lowest unused ids
of a kind may be used in either order), sends data / data+FIN / FIN / RESET(code) on
every stream direction it may send on, and - for streams opened by the other peer -
only on ids that mitmproxy has actually shown to it.  Every payload carries a tag
(logical stream, direction, sequence number), so mis-routing is visible.

Oracle, evaluated on the commands of every single transition (reference model = a
table of logical streams with their two ids and the state of each direction).
"""
from __future__ import annotations

import types

from aioquic.quic.connection import stream_is_client_initiated, stream_is_unidirectional

from mitmproxy import connection
from mitmproxy.connection import ConnectionState
from mitmproxy.proxy import commands, context, events, layer
from mitmproxy.proxy.layers.quic._commands import (CloseQuicConnection, ResetQuicStream, SendQuicStreamData,
                                                   StopSendingQuicStream)
from mitmproxy.proxy.layers.quic._events import (QuicConnectionClosed, QuicStreamDataReceived, QuicStreamReset,
                                                 QuicStreamStopSending)
from mitmproxy.proxy.layers.quic._raw_layers import RawQuicLayer
from mitmproxy.proxy.layers.tcp import TCPLayer

from vmc import explore, par
from vmc.tally import HarnessError, Tally, digest

META = {
    "level": "model_checking",
    "technique": "explicit-state BFS over all interleavings of stream events from both QUIC peers on the real RawQuicLayer; per-transition comparison of the emitted SendQuicStreamData/ResetQuicStream/StopSendingQuicStream commands with a logical-stream reference table",
    "claim": "for every history of <= d stream events over <= 3 concurrent streams of all four kinds (plus connection close from either side) every stream is paired with exactly one stream of the same directionality on the other connection, ids allocated by mitmproxy are fresh and carry the right initiator/direction bits, and every data/FIN/reset is relayed exactly once, in order, on the paired id and nowhere else",
    "rule": "a case is one BFS transition; distinct = distinct fingerprint (mode, logical stream table incl. ids and direction states, SUT id maps and connection states); non-trivial = at least one stream is open",
    "assumptions": [
        "events a peer cannot produce are not generated: data after its own FIN/RESET, events on an id of the other peer's kind that mitmproxy never opened towards it (aioquic rejects those before this layer)",
        "hooks complete as soon as the layer is quiescent (held hooks are C04/C29's subject)",
        "with protocol detection (NextLayer children) a stream is only judged from the moment the decision is made; FIN/RESET before the decision is not generated (NextLayer aborts such streams by design)",
        "an incoming QuicStreamStopSending is outside the statement (data, ends, resets); a separate probe records as a harness note that RawQuicLayer raises AssertionError on it",
    ],
}

KINDS = {"cb": (0, "c", False), "cu": (2, "c", True), "sb": (1, "s", False), "su": (3, "s", True)}
WHATS = ["data", "data_fin", "fin", "reset"]
# application error codes are 62-bit integers, 0 is a perfectly good one (e.g. H3_NO_ERROR-like "no error" resets):
# the code depends on (stream kind, sending side, form of the event) so that 0, 1, ordinary and the largest value
# are all exercised without enlarging the state space
_CODES = [0, 1, 0x2A, 0x133, (1 << 62) - 1]


def reset_code(kind, side, what):
    k = sorted(KINDS).index(kind) * 2 + (1 if side == "s" else 0) + (3 if what == "data_reset" else 0)
    return _CODES[k % len(_CODES)]
NEED = {"raw": 0, "ask1": 1, "ask2": 2}  # DataReceived events before the protocol is decided


def _other(side):
    return "s" if side == "c" else "c"


class LS:
    """one logical stream of the reference table"""

    def __init__(self, kind, ident):
        base, ini, uni = KINDS[kind]
        self.kind, self.ini, self.uni = kind, ini, uni
        self.ids = {ini: ident, _other(ini): None}  # id on the client / server connection
        # direction name = sending side; uni streams only have the initiator's direction
        self.dirs = {ini: "open"}
        if not uni:
            self.dirs[_other(ini)] = "open"
        self.sent = {"c": 0, "s": 0}
        self.datas = 0  # DataReceived events fed for this stream (= NextLayer asks)
        self.pending = []  # relays owed once the protocol decision is made
        self.decided = False

    def summary(self):
        return [self.kind, self.ids["c"], self.ids["s"], sorted(self.dirs.items()), self.sent["c"], self.sent["s"], self.datas,
                self.pending, self.decided]


class Sys:
    def __init__(self, mode):
        self.mode = mode  # "raw" | "ask1" | "ask2"
        client = connection.Client(peername=("192.0.2.10", 51000), sockname=("192.0.2.1", 443), state=ConnectionState.OPEN,
                                   transport_protocol="udp")
        self.ctx = context.Context(client, types.SimpleNamespace(proxy_debug=False))
        self.ctx.server.address = ("198.51.100.7", 443)
        self.ctx.server.transport_protocol = "udp"
        self.conn = {"c": self.ctx.client, "s": self.ctx.server}
        self.layer = RawQuicLayer(self.ctx, force_raw=(mode == "raw"))
        self.streams: dict[str, LS] = {}  # key = kind + initiator's id, e.g. "cb0", "su3"
        self.closed = {"c": 0, "s": 0}  # 0 open, 1 closed by mitmproxy (close event not delivered yet), 2 close event delivered
        self.crash = None
        self.asks = {}
        self.used = {"c": set(), "s": set()}  # ids seen on each connection (either initiator)
        self.events = 0
        self.feed(events.Start())

    def side_of(self, conn):
        return "c" if conn is self.ctx.client else ("s" if conn is self.ctx.server else None)

    def feed(self, ev, ev2=None):
        """run one environment event (or two events of one datagram) to quiescence; returns the stream-level commands"""
        out = []
        q = [ev] if ev2 is None else [ev, ev2]
        while q and self.crash is None:
            e = q.pop(0)
            try:
                for c in self.layer.handle_event(e):
                    if isinstance(c, layer.NextLayerHook):
                        nl = c.data
                        n = self.asks.get(id(nl), (0, nl))[0] + 1
                        self.asks[id(nl)] = (n, nl)
                        if n >= max(1, NEED[self.mode]):
                            nl.layer = TCPLayer(nl.context)
                        q.append(events.HookCompleted(c))
                    elif isinstance(c, commands.StartHook):
                        if c.blocking:
                            q.append(events.HookCompleted(c))
                    elif isinstance(c, commands.OpenConnection):
                        c.connection.state = ConnectionState.OPEN
                        c.connection.timestamp_start = 1.0
                        q.append(events.OpenConnectionCompleted(c, None))
                    elif isinstance(c, CloseQuicConnection):
                        out.append(c)
                        c.connection.state = ConnectionState.CLOSED
                    elif isinstance(c, (SendQuicStreamData, ResetQuicStream, StopSendingQuicStream, commands.CloseConnection)):
                        out.append(c)
            except BaseException as e2:  # noqa
                if isinstance(e2, (KeyboardInterrupt, HarnessError)):
                    raise
                self.crash = "%s: %s" % (type(e2).__name__, str(e2)[:200])
        return out


def tag(key, side, seq):
    """payload marker: logical stream (kind + initiator's id), sending side, sequence number"""
    return b"<%s%s%d>" % (key.encode(), side.encode(), seq)


def signals(s, cmds):
    """stream-level commands as flat signals [kind, side, stream id, payload...]"""
    out = []
    for c in cmds:
        sd = s.side_of(c.connection)
        if isinstance(c, SendQuicStreamData):
            if c.data:
                out.append(["data", sd, c.stream_id, bytes(c.data)])
            if c.end_stream:
                out.append(["fin", sd, c.stream_id])
        elif isinstance(c, ResetQuicStream):
            out.append(["reset", sd, c.stream_id, c.error_code])
        elif isinstance(c, StopSendingQuicStream):
            out.append(["stop", sd, c.stream_id, c.error_code])
        elif isinstance(c, CloseQuicConnection):
            out.append(["closeconn", sd, c.error_code, c.reason_phrase])
    return out


def _norm(seq):
    """adjacent data signals on the same stream are joined (the split into commands is not constrained)"""
    out = []
    for x in seq:
        if x[0] == "data" and out and out[-1][0] == "data" and out[-1][1:3] == x[1:3]:
            out[-1] = ["data", x[1], x[2], out[-1][3] + x[3]]
        else:
            out.append(list(x))
    return out


class Spec:
    """explore.bfs protocol; the system is a one-slot box so that the first action can create it"""

    def __init__(self, families):
        self.families = families  # name -> bound set (see FAMILIES)
        self.prefix = ()

    def build(self):
        box = {"s": None, "rec": None}
        for a in self.prefix:
            self.apply(box, a)
        return box

    # ------------------------------------------------------------------ enabled actions
    def actions(self, box):
        s = box["s"]
        if s is None:
            return [["mode", m, fam] for fam in sorted(self.families) for m in self.families[fam]["modes"]]
        F = s.family
        if s.crash is not None or s.events >= F["depth"]:
            return []
        acts = []
        need = NEED[s.mode]
        for li in sorted(s.streams):
            ls = s.streams[li]
            for side in ("c", "s"):
                if s.closed[side] or ls.dirs.get(side) != "open" or ls.ids[side] is None:
                    continue
                for w in F["ev"]:
                    if not ls.decided and not (w == "data" or (w in ("data_fin", "data_reset") and ls.datas + 1 >= need)):
                        continue  # FIN/RESET before the protocol decision: NextLayer aborts (documented), not judged
                    acts.append(["ev", li, side, w])
        if len(s.streams) < F["streams"]:
            for kind in sorted(KINDS):
                base, ini, uni = KINDS[kind]
                if s.closed[ini]:
                    continue
                mine = sorted(ls.ids[ini] for ls in s.streams.values() if ls.kind == kind)
                free = [i for i in range(base, base + 4 * (len(mine) + 2), 4) if i not in mine][: (2 if F["id_variants"] else 1)]
                for ident in free:
                    for w in F["open"]:
                        if need >= 1 and not (w == "data" or (w == "data_fin" and need == 1)):
                            continue
                        acts.append(["open", kind, ident, w])
        if F["close"]:
            for side in ("c", "s"):
                if s.closed[side] < 2:
                    acts.append(["close", side])
        return acts

    # ------------------------------------------------------------------ transition
    def apply(self, box, a):
        if a[0] == "mode":
            box["s"] = Sys(a[1])
            box["s"].family = self.families[a[2]]
            box["s"].family_name = a[2]
            box["rec"] = None
            return
        s = box["s"]
        s.events += 1
        if a[0] == "close":
            side = a[1]
            s.conn[side].state = ConnectionState.CLOSED  # what server.py does for a UDP transport at EOF
            s.closed[side] = 2
            cmds = s.feed(QuicConnectionClosed(s.conn[side], 42, None, "bye"))
            for c in cmds:
                if isinstance(c, CloseQuicConnection):
                    o = s.side_of(c.connection)
                    if o is not None and s.closed[o] == 0:
                        s.closed[o] = 1
            box["rec"] = {"a": a, "li": None, "side": side, "owed": [], "sig": signals(s, cmds), "new": [], "stale": []}
            return
        if a[0] == "open":
            kind, ident, w = a[1], a[2], a[3]
            ls = LS(kind, ident)
            li = "%s%d" % (kind, ident)
            s.streams[li] = ls
            side = ls.ini
            s.used[side].add(ident)
        else:
            li, side, w = a[1], a[2], a[3]
            ls = s.streams[li]
        sid = ls.ids[side]
        conn = s.conn[side]
        exp = []
        ev2 = None
        if w in ("data", "data_fin", "data_reset"):
            t = tag(li, side, ls.sent[side])
            ls.sent[side] += 1
            ls.datas += 1
            exp.append(["data", t])
            if w == "data_fin":
                exp.append(["fin"])
                ls.dirs[side] = "fin"
            ev = QuicStreamDataReceived(conn, sid, t, end_stream=(w == "data_fin"))
            if w == "data_reset":
                # STREAM and RESET_STREAM frames of one datagram: QuicLayer hands both events to this layer
                # back to back, before any hook of the first one can have completed
                code = reset_code(ls.kind, side, w)
                exp.append(["reset", code])
                ls.dirs[side] = "reset"
                ev2 = QuicStreamReset(conn, sid, code)
        elif w == "fin":
            exp.append(["fin"])
            ls.dirs[side] = "fin"
            ev = QuicStreamDataReceived(conn, sid, b"", end_stream=True)
        else:
            code = reset_code(ls.kind, side, w)
            exp.append(["reset", code])
            ls.dirs[side] = "reset"
            ev = QuicStreamReset(conn, sid, code)
        # relays are owed from the moment the protocol is decided
        for e in exp:
            ls.pending.append([side] + e)
        owed = []
        if ls.datas >= NEED[s.mode]:
            ls.decided = True
            owed, ls.pending = ls.pending, []
        cmds = s.feed(ev, ev2)
        sig = signals(s, cmds)
        # learn the id mitmproxy allocated on the other connection: the first id it uses there for this stream
        new, stale = [], []
        for g in sig:
            if g[0] in ("data", "fin", "reset", "stop") and g[1] is not None and ls.ids[g[1]] is None:
                if g[2] in s.used[g[1]]:
                    stale.append([g[1], g[2]])
                else:
                    new.append([g[1], g[2]])
                ls.ids[g[1]] = g[2]
                s.used[g[1]].add(g[2])
        box["rec"] = {"a": a, "li": li, "side": side, "owed": owed, "sig": sig, "new": new, "stale": stale}

    # ------------------------------------------------------------------ step oracle
    def check(self, box, hist, t: Tally):
        s = box["s"]
        if s is None or (self.prefix and not hist):
            return
        fp = self.fingerprint(box)
        t.case(None, nontrivial=bool(s.streams), key=fp)
        t.state(fp)
        t.add("transitions_%s_%s" % (s.family_name, s.mode))
        rec = box["rec"]
        if rec is None:
            return
        a, li, side, owed, sig = rec["a"], rec["li"], rec["side"], rec["owed"], rec["sig"]
        case = {"hist": [list(x) for x in self.prefix] + [list(x) for x in hist]}
        what = a[3] if a[0] != "close" else "close"
        feats = {"mode": s.mode, "action": a[0], "what": what, "kind": (s.streams[li].kind if li is not None else "-"),
                 # a RESET that arrives while the stream's TCPLayer still waits for a hook (tcp_start of a stream the
                 # RESET itself opens, or tcp_message of data in the same datagram)
                 "reset_while_hook_pending": what == "data_reset" or (a[0] == "open" and what == "reset")}
        if li is None:
            # a connection close while some stream has no stream on the closing connection yet
            # (protocol detection still undecided, so mitmproxy has not opened the upstream stream)
            feats["unpaired_stream_at_close"] = any(ls.ids[side] is None for ls in s.streams.values())
        if s.crash is not None:
            t.bad("data_fin_reset_only_on_paired_stream", dict(feats, exception=True), case, "no exception", s.crash)
            return
        if li is None:
            # connection close: no data / reset may be invented for any stream
            inv = [g for g in sig if g[0] in ("data", "reset")]
            t.judge("data_fin_reset_only_on_paired_stream", not inv, feats, case, "no stream data or reset caused by a connection close", inv)
            return
        ls = s.streams[li]
        # ids mitmproxy allocated in this step: fresh, right initiator bit, right direction bit
        badbits = [n for n in rec["new"] if stream_is_client_initiated(n[1]) != (n[0] == "s") or stream_is_unidirectional(n[1]) != ls.uni]
        t.judge("allocated_ids_unique_with_correct_bits", not badbits and not rec["stale"], feats, case,
                "fresh id; towards the server client-initiated, towards the client server-initiated; direction bit of the pair",
                {"wrong_bits": badbits, "already_in_use": rec["stale"]})
        # pairing: bijection, same directionality, established as soon as something is owed
        table = [s.streams[k] for k in sorted(s.streams)]
        ids_c = [o.ids["c"] for o in table if o.ids["c"] is not None]
        ids_s = [o.ids["s"] for o in table if o.ids["s"] is not None]
        bij = len(ids_c) == len(set(ids_c)) and len(ids_s) == len(set(ids_s))
        same_dir = all(stream_is_unidirectional(n[1]) == ls.uni for n in rec["new"] + rec["stale"])
        have = ls.ids["c"] is not None and ls.ids["s"] is not None
        relay_possible = any(not s.closed[_other(o[0])] for o in owed)
        t.judge("paired_one_to_one_same_directionality", bij and same_dir and (have or not relay_possible), feats, case,
                "exactly one paired stream of the same directionality", {"ids": [[o.ids["c"], o.ids["s"]] for o in table], "new": rec["new"]})
        # signals only on the two ids of this logical stream
        foreign = [g for g in sig if g[0] in ("data", "fin", "reset", "stop") and ls.ids.get(g[1]) != g[2]]
        t.judge("data_fin_reset_only_on_paired_stream", not foreign, feats, case, "signals only on the ids of this logical stream",
                {"ids": ls.ids, "foreign": foreign})
        # exactly the owed signals, in order, on the paired id of the other connection
        got = [g for g in sig if g[0] in ("data", "fin", "reset")]
        want = []
        for o in owed:
            dst = _other(o[0])
            if s.closed[dst]:
                continue  # nothing can be relayed to a closed connection
            want.append([o[1], dst, ls.ids[dst]] + o[2:])
        t.judge("relayed_exactly_once_in_order", _norm(got) == _norm(want), feats, case, want, got)

    def final(self, box, hist, t: Tally):
        s = box["s"]
        if s is None:
            return
        t.outcome([s.mode, [s.streams[k].summary() for k in sorted(s.streams)], sorted(s.closed.items())])
        if len(t.samples) < 3 and len(s.streams) >= 2:
            t.samples.append({"hist": [list(x) for x in self.prefix] + [list(x) for x in hist]})

    def fingerprint(self, box):
        s = box["s"]
        if s is None:
            return ["root"]
        L = s.layer
        sl = []
        for cid in sorted(L.client_stream_ids):
            st = L.client_stream_ids[cid]
            sl.append([cid, st.stream_id(False), st.client.state.value, st.server.state.value])
        return [s.mode, s.family_name, [s.streams[k].summary() for k in sorted(s.streams)], sorted(s.closed.items()), s.crash, list(L.next_stream_id),
                sorted(L.server_stream_ids), sl, s.ctx.client.state.value, s.ctx.server.state.value, s.events,
                getattr(L._handle_event, "__name__", "")]


ALL_MODES = ["raw", "ask1", "ask2"]
EV_FULL = ["data", "fin", "reset", "data_fin", "data_reset"]
EV_CORE = ["data", "fin", "reset"]


def fam(depth, streams, id_variants, ev, open_, close, modes=ALL_MODES):
    return {"depth": depth, "streams": streams, "id_variants": id_variants, "ev": ev, "open": open_, "close": close, "modes": modes}


# bound sets explored side by side (a history belongs to exactly one family, chosen by its first action):
#   wide  - every event form incl. data+FIN in one event, data+RESET in one datagram, connection close, 3 streams
#   ids   - like wide, and the two lowest unused ids of a kind may be opened in either order
#   deep  - longer histories over the core alphabet (data / FIN / RESET)
FAMILIES = {
    "quick": {
        "wide": fam(4, 2, False, EV_FULL, WHATS, True),
        "ids": fam(3, 2, True, EV_FULL, WHATS, True, ["raw", "ask1"]),
        "deep": fam(5, 2, False, EV_CORE, EV_CORE, False, ["raw", "ask1"]),
    },
    "thorough": {
        "wide": fam(4, 3, False, EV_FULL, WHATS, True),
        "ids": fam(4, 2, True, EV_FULL, WHATS, True, ["raw", "ask1"]),
        "ids3": fam(3, 3, True, EV_FULL, WHATS, True, ["raw", "ask1"]),
        "deep": fam(7, 2, False, EV_CORE, EV_CORE, False, ["raw", "ask1"]),
    },
    "replay": {
        "wide": fam(99, 9, True, EV_FULL, WHATS, True),
        "ids": fam(99, 9, True, EV_FULL, WHATS, True),
        "ids3": fam(99, 9, True, EV_FULL, WHATS, True),
        "deep": fam(99, 9, True, EV_FULL, WHATS, True),
    },
}


def make_spec(tier):
    return Spec(FAMILIES[tier])


PREFIX_LEN = 3
_TIER = "quick"


def _prefixes(spec, t: Tally):
    """all histories of PREFIX_LEN actions (judged here, in the parent), de-duplicated by fingerprint"""
    out, seen = [], set()

    def rec(hist):
        box = spec.build()
        for a in hist:
            spec.apply(box, a)
        if hist:
            t.transitions += 1
            spec.check(box, hist, t)
        fp = digest(spec.fingerprint(box))
        if fp in seen:
            return
        seen.add(fp)
        acts = spec.actions(box)
        if not acts:
            spec.final(box, hist, t)
            t.executions += 1
            return
        if len(hist) >= PREFIX_LEN:
            out.append(hist)
            return
        for a in acts:
            rec(hist + (a,))

    rec(())
    return out


def _bfs_chunk(chunk):
    t = Tally()
    for prefix in chunk:
        spec = make_spec(_TIER)
        spec.prefix = tuple(prefix)
        explore.bfs(spec, 10 ** 6, t, nproc=1)
    t.states = 0  # distinct states are counted through t.state()
    return t


def stop_sending_probe(t: Tally):
    """outside the statement: what happens when a peer sends STOP_SENDING on a relayed stream"""
    s = Sys("raw")
    s.feed(QuicStreamDataReceived(s.ctx.client, 0, b"x", end_stream=False))
    s.feed(QuicStreamStopSending(s.ctx.server, 0, 7))
    if s.crash:
        t.note("not judged (outside the statement): QuicStreamStopSending from a peer -> RawQuicLayer raises " + s.crash[:60])


def run(ctx):
    global _TIER
    _TIER = ctx.tier
    spec = make_spec(ctx.tier)
    ctx.bounds = {"families": spec.families, "stream_kinds": sorted(KINDS),
                  "id_variants": "the two lowest unused ids of a kind, either first",
                  "modes": "raw = force_raw TCPLayer per stream; askK = QuicStreamNextLayer, TCPLayer chosen at the K-th next_layer ask"}
    stop_sending_probe(ctx.tally)
    pre = _prefixes(spec, ctx.tally)
    ctx.log("%d prefixes of %d actions; one full BFS below each" % (len(pre), PREFIX_LEN))
    par.pmap_tally(_bfs_chunk, pre, ctx.tally, nchunks=min(len(pre), 16 * 8))
    ctx.tally.max_depth += PREFIX_LEN
    ctx.log("done: %d distinct states" % len(ctx.tally.state_set))


def replay(case, t: Tally, verbose=False):
    spec = make_spec("replay")
    box = spec.build()
    hist = []
    for a in case["hist"]:
        spec.apply(box, a)
        hist.append(a)
        if verbose:
            r = box["rec"] or {}
            print("  after", a, "owed", r.get("owed"), "signals", r.get("sig"), "crash", box["s"].crash)
        spec.check(box, hist, t)
