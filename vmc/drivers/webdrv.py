"""webdrv: the real mitmweb tornado Application + a real WebMaster, driven in-process.

No socket, no tornado HTTPServer, no real IOLoop: requests enter the application through the
same interface tornado's HTTP1Connection uses (`Application.start_request(server_conn,
request_conn)` -> HTTPMessageDelegate.headers_received / data_received / finish), the
response leaves through a recording `HTTPConnection` stand-in, and the handler coroutine runs
on the virtual asyncio loop (`vmc/vloop.py`).  Everything from routing on is the real code:
tornado's router, `_HandlerDelegate`, `RequestHandler._execute` (XSRF check, prepare, the
`_require_auth` wrapper, the handler method, error rendering) and mitmproxy's handlers.

    wd = WebDriver(confdir)            # builds WebMaster + Application inside the loop
    r = wd.request("PUT", "/flows/<id>", headers={...}, body=b"...")
    r.status, r.headers (list of pairs), r.body, r.finished, r.log (tornado / mitmproxy log records)
    wd.dispose()
"""
from __future__ import annotations

import asyncio
import logging

import tornado.httputil
import tornado.iostream

from vmc.vloop import VLoop


class _Ctx:
    remote_ip = "127.0.0.1"
    protocol = "http"
    address = ("127.0.0.1", 50000)

    def __str__(self):
        return "127.0.0.1"


class FakeStream:
    """what a WebSocket handshake detaches: never delivers a byte, records writes"""

    def __init__(self, loop):
        self.loop = loop
        self.written = []
        self._closed = False
        self._close_cb = None
        self.reads = []

    def set_close_callback(self, cb):
        self._close_cb = cb

    def set_nodelay(self, v):
        pass

    def closed(self):
        return self._closed

    def close(self, exc_info=False):
        if not self._closed:
            self._closed = True
            for f in self.reads:
                if not f.done():
                    f.set_exception(tornado.iostream.StreamClosedError())
            if self._close_cb is not None:
                cb, self._close_cb = self._close_cb, None
                cb()

    def write(self, data):
        self.written.append(bytes(data))
        f = self.loop.create_future()
        f.set_result(None)
        return f

    def read_bytes(self, n, partial=False):
        f = self.loop.create_future()
        self.reads.append(f)
        return f

    def read_until(self, *a, **k):
        return self.read_bytes(0)


class FakeConnection(tornado.httputil.HTTPConnection):
    def __init__(self, loop, stream=None, context=None):
        # like tornado's HTTP1ServerConnection: one connection object per request, all requests of one
        # keep-alive TCP connection share the same stream and the same context
        self.loop = loop
        self.context = context or _Ctx()
        self.start_line = None
        self.headers = None
        self.chunks = []
        self.finished = False
        self.close_cb = None
        self.stream = stream if stream is not None else FakeStream(loop)
        self.detached = False
        self.no_keep_alive = False

    def _done(self):
        f = self.loop.create_future()
        f.set_result(None)
        return f

    def write_headers(self, start_line, headers, chunk=None):
        self.start_line = start_line
        self.headers = headers
        if chunk:
            self.chunks.append(bytes(chunk))
        return self._done()

    def write(self, chunk):
        self.chunks.append(bytes(chunk))
        return self._done()

    def finish(self):
        self.finished = True

    def set_close_callback(self, cb):
        self.close_cb = cb

    def detach(self):
        self.detached = True
        return self.stream


class Response:
    def __init__(self, conn: FakeConnection, log, crashed):
        self.status = conn.start_line.code if conn.start_line is not None else None
        self.reason = conn.start_line.reason if conn.start_line is not None else None
        self.headers = list(conn.headers.get_all()) if conn.headers is not None else []
        self.body = b"".join(conn.chunks)
        self.finished = conn.finished
        self.detached = conn.detached
        self.ws_written = b"".join(conn.stream.written)
        self.log = log
        self.crashed = crashed  # exception escaping the delegate (not rendered as an HTTP error)

    def header(self, name, default=None):
        for k, v in self.headers:
            if k.lower() == name.lower():
                return v
        return default

    def brief(self):
        return {"status": self.status, "body": self.body[:200], "finished": self.finished, "crashed": self.crashed,
                "log": [m[:160] for _, m in self.log[:3]]}


class _Catch(logging.Handler):
    def __init__(self):
        super().__init__(logging.DEBUG)
        self.records = []

    def emit(self, record):
        try:
            msg = record.getMessage()
        except Exception:
            msg = str(record.msg)
        if record.exc_info and record.exc_info[1] is not None:
            msg += " :: " + repr(record.exc_info[1])[:200]
        self.records.append((record.levelname, msg))


class WebDriver:
    def __init__(self, confdir, opts=None):
        from mitmproxy import options as moptions
        from mitmproxy.tools.web import master as webmaster

        self.loop = VLoop(eager=True)
        self._catch = _Catch()
        self._loggers = [logging.getLogger("tornado"), logging.getLogger("mitmproxy")]
        self._saved = []
        for lg in self._loggers:
            self._saved.append((lg, lg.level, lg.propagate, list(lg.handlers)))
            lg.addHandler(self._catch)
            lg.setLevel(logging.DEBUG)
            lg.propagate = False

        def mk():
            o = moptions.Options(confdir=confdir, **(opts or {}))
            return webmaster.WebMaster(o, with_termlog=False)

        self.master = self.loop.call_in_loop(mk)
        self.master._legacy_log_events.uninstall()
        self.loop.quiesce()
        self.app = self.master.app
        self.auth = self.master.addons.get("webauth")

    # ------------------------------------------------------------------
    def new_tcp_connection(self):
        """(stream, context) of one keep-alive TCP connection; pass as `tcp=` to several request() calls"""
        return FakeStream(self.loop), _Ctx()

    def request(self, method, uri, headers=None, body=b"", version="HTTP/1.1", tcp=None) -> Response:
        """headers: list of (name, value) pairs (order and duplicates preserved);
        tcp: what new_tcp_connection() returned, to send this request on an already used connection"""
        import mitmproxy.ctx as mctx

        mctx.master = self.master
        mctx.options = self.master.options
        conn = FakeConnection(self.loop, *(tcp or ()))
        h = tornado.httputil.HTTPHeaders()
        for k, v in headers or []:
            h.add(k, v)
        if "Host" not in h:
            h.add("Host", "127.0.0.1:8081")
        if body and "Content-Length" not in h:
            h.add("Content-Length", str(len(body)))
        del self._catch.records[:]
        crashed = []

        def go():
            try:
                delegate = self.app.start_request(None, conn)
                r = delegate.headers_received(tornado.httputil.RequestStartLine(method, uri, version), h)
                if body:
                    delegate.data_received(body)
                delegate.finish()
            except BaseException as e:  # noqa - reported to the caller, who decides
                if isinstance(e, KeyboardInterrupt):
                    raise
                crashed.append(repr(e)[:300])

        self.loop.call_in_loop(go)
        self.loop.quiesce()
        for rec in self.loop.exc_log[:]:
            crashed.append("loop exception: %s %s" % (rec.get("message"), rec.get("exception")))
        del self.loop.exc_log[:]
        return Response(conn, list(self._catch.records), crashed[0] if crashed else None)

    def run(self, fn, *a):
        r = self.loop.call_in_loop(fn, *a)
        self.loop.quiesce()
        return r

    def cancel_background(self):
        """cancel tasks left by WebSocket connections (receive loop, send task)"""
        for t in self.loop.pending_tasks():
            t.cancel()
        self.loop.quiesce()
        del self.loop.exc_log[:]

    def dispose(self):
        for lg, level, prop, handlers in self._saved:
            lg.removeHandler(self._catch)
            lg.setLevel(level)
            lg.propagate = prop
        try:
            self.loop.shutdown()
        except Exception:
            pass
