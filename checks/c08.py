"""C08 - upstream connection reuse never sends a request to the wrong destination.

Engine X (schedule DFS of vmc.explore._dev_rec: request choices are free, environment
faults are deviation-bounded) over the real ProxyConnectionHandler /
HttpLayer.get_connection / register_connection / HttpClient / Http1Client
(+ HttpUpstreamProxy tunnel) driven through World, for an HTTP/1 client and an HTTP/2
client (hyper-h2 peer; the "one upstream connection per flow" path), in regular and in
upstream-proxy mode.  (A BFS with fingerprint merging was tried first; because live
systems are rebuilt by replay for every transition it executed three times as many actions
as the plain tree walk, so the tree walk is what is shipped.)

A state is reached by a history of environment actions:
    req(v)        the client sends the next request; v picks destination and addon rewrite
    ok(i)/fail(i) the pending TCP connect number i succeeds / is refused
    ans(i)        upstream socket i answers its oldest unanswered request (200; CONNECT -> tunnel established)
    ansclose(i)   ... with `Connection: close` and then closes
    eof(i)        an idle upstream socket closes (server closes between requests)
The addon (policy) rewrites host / port / scheme / via at `request` (or at `requestheaders`
together with stream=True) and records the destination the flow has *at that moment*: that
is the destination "at the time it is forwarded".  At `response` it tries to assign
server_conn.address and .via on the open connection.

Oracle, evaluated in every state: every request head that appears in the bytes of a mock
upstream socket (read by http1ref, identified by its /r<k> path) must sit on a socket
whose peer address, plaintext/TLS nature and tunnel target equal the recorded destination
of request k; the Server object the flow ended up with must carry the same address / tls /
via / transport; a Server object whose connect failed never carries a request.  After every
action: a request parked in HttpLayer.waiting_for_establishment waits on a connection that
already equals its recorded destination (it will be written there once the connect completes).
"""
from __future__ import annotations

from mitmproxy import http
from mitmproxy.connection import ConnectionState
from mitmproxy.connection import Server
from mitmproxy.proxy.layers.http import HttpLayer

from vmc import explore, par
from vmc.drivers import h1
from vmc.drivers.h2world import H2World
from vmc.drivers.world import World
from vmc.refs import http1ref
from vmc.tally import HarnessError, Tally, digest

META = {
    "level": "model_checking",
    "technique": "exhaustive DFS over histories of client requests (every destination x addon rewrite at every position, cost 0) with deviation-bounded environment faults (connect refusal, close after answer, idle close, HTTP/2 request overtaking a pending connect), executed on the real connection handler and HTTP layer; invariants judged on the bytes of the mock upstream sockets",
    "claim": "within the bound, for every history no request head is ever written to an upstream socket whose address, TLS nature or proxy tunnel differs from the request's destination at forward time, the flow's Server object agrees with that destination, address/via of an open Server cannot be reassigned, and a Server whose connect failed never carries a request",
    "rule": "an execution is a root-to-leaf history (choice list); a state is a distinct fingerprint (request count, client-side transcript, per upstream socket: address/state/bytes/answered, mitmproxy's connection table, recorded destinations) observed after an action; non-trivial = at least two requests; every transition is executed on the implementation",
    "assumptions": [
        "upstream TLS is not completed (no TLS peer, no TlsConfig addon): an https destination fails at the TLS stage right after its TCP connect; the TLS dimension of matching is exercised by http and https requests to the same host:port",
        "hooks complete immediately; the client sends requests whole",
        "HTTP/1 upstream only (an HTTP/2 upstream needs TLS+ALPN)",
        "server closes are EOFs between exchanges or after a `Connection: close` answer (mid-message faults are C03/C09)",
    ],
}

PROXY = ("proxy.test", 8080)
Q = ("q.test", 8080)

# variant -> (scheme, host, port, rewrite)
VARIANTS = {
    "a80": ("http", "a.test", 80, "none"),
    "a8080": ("http", "a.test", 8080, "none"),
    "b80": ("http", "b.test", 80, "none"),
    "a80s": ("https", "a.test", 80, "none"),
    "a80>port": ("http", "a.test", 80, "port"),
    "a80>host": ("http", "a.test", 80, "host"),
    "a80>https": ("http", "a.test", 80, "https"),
    "a80>via": ("http", "a.test", 80, "via"),
    "a80>newconn": ("http", "a.test", 80, "newconn"),
    "b80>a": ("http", "b.test", 80, "host_a"),
    "a80>host/stream": ("http", "a.test", 80, "stream_host"),
}
TUNNEL_VARIANTS = ["a80", "a80>host"]  # inside a CONNECT tunnel: plain request / request whose host the addon rewrites
QUICK_VARIANTS = ["a80", "a80s", "a80>port", "a80>host", "a80>newconn", "a80>host/stream"]

# ---------------------------------------------------------------------------------------------- instrumentation (read-only)
_LAYERS: list = []
_orig_init = HttpLayer.__init__


def _init(self, *a, **k):
    _orig_init(self, *a, **k)
    _LAYERS.append(self)


HttpLayer.__init__ = _init


def _authority(host, port, scheme):
    default = 443 if scheme == "https" else 80
    return host if port == default else "%s:%d" % (host, port)


class Sys:
    def __init__(self, proto, mode, tunnel=None):
        self.proto, self.mode = proto, mode
        # tunnel: None, or the addon's rewrite of the CONNECT destination in the http_connect hook ("none" | "host" | "port");
        # the client then first sends `CONNECT a.test:80` and all requests travel inside the tunnel (origin-form)
        self.tunnel = tunnel
        self.tunnel_dest = None
        del _LAYERS[:]
        mode_str = "regular" if mode == "regular" else "upstream:http://%s:%d" % PROXY
        kw = dict(policy=self.policy, snap=h1.http_snap)
        if proto == "h1":
            self.hw = None
            self.w = World(mode=mode_str, **kw)
            self.w.start()
        else:
            self.hw = H2World(mode, mode=mode_str, **kw)
            self.w = self.hw.w
            self.hw.start()
        self.layer = _LAYERS[0] if _LAYERS else None
        self.nreq = 0
        self.variants: list[str] = []
        self.sids: list[int] = []
        self.intended: dict[int, tuple] = {}
        self.attempts: list = []  # (k, attr, state name, raised)
        self.answered: dict[int, int] = {}
        self.had_fail = False
        self.disposed = False
        self.hist: list = []
        self.overtaking = False
        self.kept_open: set = set()
        if tunnel is not None:
            self.w.client_send(b"CONNECT a.test:80 HTTP/1.1\r\nHost: a.test:80\r\n\r\n")

    # -- the addon -------------------------------------------------------------------------------------------------
    def policy(self, name, data, world):
        if not isinstance(data, http.HTTPFlow):
            return
        if name == "http_connect" and self.tunnel is not None:
            # the CONNECT flow's destination after the addon's rewrite is the destination of everything in the tunnel
            if self.tunnel == "host":
                data.request.host = "b.test"
            elif self.tunnel == "port":
                data.request.port = 8080
            self.tunnel_dest = (data.request.host, data.request.port)
            return
        k = self.k_of(data.request.path)
        if k is None or k >= len(self.variants):
            return
        rewrite = VARIANTS[self.variants[k]][3]
        streamed = rewrite == "stream_host"
        if (name == "requestheaders" and streamed) or (name == "request" and not streamed):
            r = data.request
            if rewrite == "port":
                r.port = 8080
            elif rewrite in ("host", "stream_host"):
                r.host = "b.test"
            elif rewrite == "host_a":
                r.host = "a.test"
            elif rewrite == "https":
                r.scheme = "https"
            elif rewrite == "via":
                data.server_conn.via = ("http", Q)
            elif rewrite == "newconn":
                # the documented way to send one flow through another upstream proxy when the current connection
                # object may already be open (examples/contrib/change_upstream_proxy.py): replace the object
                data.server_conn = Server(address=data.server_conn.address)
                data.server_conn.via = ("http", Q)
            if streamed:
                r.stream = True
            via = data.server_conn.via
            host, port = r.host, r.port
            if self.tunnel_dest is not None:
                # inside a tunnel the destination is the CONNECT flow's (rewritten) destination, unless this request's
                # own rewrite changes a component
                port = self.tunnel_dest[1]
                if rewrite == "none":
                    host = self.tunnel_dest[0]
            self.intended[k] = (r.scheme, host, port, (via[0], tuple(via[1])) if via else None)
        if name == "response":
            sc = data.server_conn
            for attr, val in (("address", ("evil.test", 1)), ("via", ("http", ("evil.test", 1)))):
                old = getattr(sc, attr)
                state = sc.state
                try:
                    setattr(sc, attr, val)
                    raised = False
                    object.__setattr__(sc, attr, old)  # undo, so that the exploration continues from a sane state
                except RuntimeError:
                    raised = True
                self.attempts.append((k, attr, state.name if state.name else str(int(state)), state is ConnectionState.OPEN, raised))

    @staticmethod
    def k_of(path):
        if isinstance(path, bytes):
            path = path.decode("latin-1")
        i = path.rfind("/r")
        if i < 0:
            return None
        digits = ""
        for ch in path[i + 2:]:
            if not ch.isdigit():
                break
            digits += ch
        return int(digits) if digits else None

    # -- environment actions ---------------------------------------------------------------------------------------
    def send_request(self, v):
        scheme, host, port, rewrite = VARIANTS[v]
        k = self.nreq
        self.nreq += 1
        self.variants.append(v)
        auth = _authority(host, port, scheme).encode()
        body = b"hi" if rewrite == "stream_host" else b""
        if self.proto == "h1":
            method = b"POST" if body else b"GET"
            target = (scheme.encode() + b"://" + auth) if self.tunnel is None else b""  # origin-form inside a tunnel
            head = method + b" " + target + b"/r%d HTTP/1.1\r\nHost: " % k + auth + b"\r\n"
            if body:
                head += b"Content-Length: %d\r\n" % len(body)
            self.w.client_send(head + b"\r\n" + body)
        else:
            fields = [(b":method", b"POST" if body else b"GET"), (b":scheme", scheme.encode()), (b":authority", auth), (b":path", b"/r%d" % k)]
            if body:
                fields.append((b"content-length", b"%d" % len(body)))
            sid = self.hw.request(fields, end=not body)
            self.sids.append(sid)
            if body:
                self.hw.data(sid, body, end=True)

    def heads(self, i):
        msgs, verdict = http1ref.parse_requests(self.w.servers[i].w.data)
        return msgs, verdict

    def apply(self, a):
        w = self.w
        a = tuple(a)
        self.hist.append(a)
        kind = a[0]
        if kind == "req":
            self.kept_open = set()
            self.overtaking = False
            self.send_request(a[1])
        elif kind == "skip":
            self.kept_open.add(a[1])
        elif kind == "reqnow":
            self.overtaking = True
        elif kind == "ok":
            w.connect_ok(w.servers[a[1]])
        elif kind == "fail":
            self.had_fail = True
            w.connect_fail(w.servers[a[1]])
        elif kind in ("ans", "ansclose"):
            e = w.servers[a[1]]
            msgs, _ = self.heads(a[1])
            m = msgs[self.answered.get(a[1], 0)]
            self.answered[a[1]] = self.answered.get(a[1], 0) + 1
            if m["start"][0] == b"CONNECT":
                w.server_send(e, b"HTTP/1.1 200 Connection established\r\n\r\n")
            elif kind == "ans":
                w.server_send(e, b"HTTP/1.1 200 OK\r\nContent-Length: 2\r\n\r\nok")
            else:
                w.server_send(e, b"HTTP/1.1 200 OK\r\nConnection: close\r\nContent-Length: 2\r\n\r\nok")
                e.r.eof = True
                w.server_eof(e)
        elif kind == "eof":
            e = w.servers[a[1]]
            e.r.eof = True
            w.server_eof(e)
        else:
            raise HarnessError("unknown action %r" % (a,))
        if self.hw is not None:
            self.hw.sync()

    # -- what the environment can do -------------------------------------------------------------------------------
    def outstanding(self):
        if self.proto == "h1":
            methods = [b"POST" if VARIANTS[v][3] == "stream_host" else b"GET" for v in self.variants]
            extra = 0
            if self.tunnel is not None:
                methods, extra = [b"CONNECT"] + methods, 1
            msgs, _ = http1ref.parse_responses(self.w.client.w.data, methods, eof=False)
            finals = [m for m in msgs if not m["start"][1].startswith(b"1")]
            return self.nreq + extra - len(finals)
        n = 0
        for sid in self.sids:
            st = self.hw.stream(sid)
            if not (st["ended"] or st["reset"] is not None):
                n += 1
        return n

    def client_alive(self):
        if self.w.client.w.closed or self.w.done:
            return False
        if self.hw is not None and (self.hw.peer.terminated or self.hw.peer.conn_error):
            return False
        if self.tunnel is not None and self.w.client.w.data and not self.w.client.w.data.startswith(b"HTTP/1.1 2"):
            return False  # the CONNECT was refused: there is no tunnel to send requests through
        return True

    def point(self, variants, max_req, concurrency):
        """the next scheduling point: (actions, cost of deviating from actions[0]); actions[0] is the fault-free default.
        `("skip",)` = nothing happens here.  Canonical order, simplest first."""
        w = self.w
        can_request = self.client_alive() and self.nreq < max_req and self.outstanding() < concurrency
        overtake = [("reqnow",)] if (can_request and self.nreq > 0 and not self.overtaking) else []
        if self.overtaking:
            # the decision to let the next request overtake has been taken: which request?
            return [("req", v) for v in variants], 0
        for i, e in enumerate(w.servers):
            if e.state == "pending" and e.connect_fut is not None and not e.connect_fut.done():
                return [("ok", i), ("fail", i)] + overtake, 1
        for i, e in enumerate(w.servers):
            if e.state != "open" or e.r.eof or e.w.closed:
                continue
            msgs, verdict = self.heads(i)
            if len(msgs) > self.answered.get(i, 0):
                if msgs[self.answered.get(i, 0)]["start"][0] == b"CONNECT":
                    return [("ans", i)] + overtake, 1
                return [("ans", i), ("ansclose", i)] + overtake, 1
        if not can_request:
            return [], 0
        # everything is quiet and another request can follow: may an idle upstream close first?
        idle = [i for i, e in enumerate(w.servers) if e.state == "open" and not e.r.eof and not e.w.closed and i not in self.kept_open]
        if idle:
            return [("skip", idle[0]), ("eof", idle[0])], 1
        return [("req", v) for v in variants], 0

    # -- fingerprint -----------------------------------------------------------------------------------------------
    def fingerprint(self):
        w = self.w
        socks = [[list(e.address), e.state, bool(e.r.eof), bool(e.w.closed), digest(e.w.data), self.answered.get(i, 0)] for i, e in enumerate(w.servers)]
        if self.proto == "h1":
            client = [digest(w.client.w.data), bool(w.client.w.closed)]
        else:
            client = [[sid, dict(self.hw.stream(sid)["headers"] or []).get(b":status"), self.hw.stream(sid)["ended"], self.hw.stream(sid)["reset"]] for sid in self.sids]
            client.append([bool(w.client.w.closed), bool(self.hw.peer.terminated)])
        conns = []
        if self.layer is not None:
            for c in self.layer.connections:
                if hasattr(c, "via"):
                    conns.append([list(c.address) if c.address else None, bool(c.tls), repr(c.via), c.state.value, c.error, c in self.layer.waiting_for_establishment])
        # the variant of a request only matters until its forwarding hook has fired (then `intended` holds its effect)
        undecided = [[k, v] for k, v in enumerate(self.variants) if k not in self.intended]
        return [self.proto, self.mode, self.tunnel, self.tunnel_dest, self.nreq, undecided, client, socks, conns, sorted(self.intended.items()), len(self.attempts), len(w.errors)]

    def dispose(self):
        if not self.disposed:
            self.disposed = True
            if self.hw is not None:
                self.hw.dispose()
            else:
                self.w.dispose()


# ---------------------------------------------------------------------------------------------- oracle
def judge(s: Sys, hist, t: Tally):
    w = s.w
    base = {"proto": s.proto, "mode": s.mode, "prior_fail": s.had_fail, "tunnel": s.tunnel or "-"}
    case = {"proto": s.proto, "mode": s.mode, "tunnel": s.tunnel, "hist": [list(a) for a in hist]}
    seen_k = {}
    for i, e in enumerate(w.servers):
        msgs, verdict = s.heads(i)
        tunnel = None  # (host, port) of the last CONNECT on this socket
        n_heads = 0
        for m in msgs:
            method, target = m["start"][0], m["start"][1]
            if method == b"CONNECT":
                host, _, port = target.decode("latin-1").rpartition(":")
                tunnel = (host, int(port) if port.isdigit() else -1)
                continue
            k = Sys.k_of(target)
            feats = dict(base, variant=s.variants[k] if k is not None and k < len(s.variants) else "?", reused=n_heads > 0)
            n_heads += 1
            dest = s.intended.get(k)
            problems = []
            if dest is None:
                problems.append("a request head was written although no destination was recorded at the forwarding hook")
            else:
                scheme, host, port, via = dest
                if k in seen_k:
                    problems.append(("request written twice", seen_k[k], i))
                seen_k[k] = i
                if scheme != "http":
                    problems.append(("a request whose destination is TLS was written in clear", scheme))
                if via is None:
                    if tuple(e.address) != (host, port):
                        problems.append(("socket peer", list(e.address), "destination", [host, port]))
                    if tunnel is not None:
                        problems.append(("written into a proxy tunnel although the destination has no proxy", tunnel))
                else:
                    if tuple(e.address) != tuple(via[1]):
                        problems.append(("socket peer", list(e.address), "destination's proxy", list(via[1])))
                    if target.startswith(b"http://"):
                        # absolute-form through a forward proxy: the authority in the target is what the proxy will contact
                        auth = target[len(b"http://"):].split(b"/", 1)[0].decode("latin-1")
                        if auth != _authority(host, port, "http"):
                            problems.append(("absolute-form authority", auth, "destination", [host, port]))
                    elif tunnel is not None:
                        if tunnel != (host, port):
                            problems.append(("tunnel target", tunnel, "destination", [host, port]))
                    else:
                        # origin-form sent to a forward proxy without a tunnel (seen for HTTP/2 clients in upstream mode:
                        # Http1Client drops the authority).  Whether a proxy accepts that is a translation question (C06);
                        # the connection is the right one iff the Host field names the destination.
                        hosts = [v.decode("latin-1") for n, v in m["fields"] if n.lower() == b"host"]
                        if hosts != [_authority(host, port, "http")]:
                            problems.append(("origin-form via proxy, Host field", hosts, "destination", [host, port]))
                        t.note("origin-form request written to an upstream *proxy* (HTTP/2 client, upstream mode); see C06")
            t.judge("head_goes_to_matching_socket", not problems, feats, case, "socket address / TLS nature / tunnel equal the destination at forward time", {"problems": problems, "socket": i, "bytes": e.w.data[:200]})
        if e.state in ("refused",) and e.w.data:
            t.bad("failed_not_reused", dict(base, variant="-", reused=False), case, "no byte on a socket whose connect failed", e.w.data[:100])
    # ---- object level ------------------------------------------------------------------------------------------------
    servers_in_hook_order = [d.server for n, d in w.hook_objs if n == "server_connect"]
    for j, srv in enumerate(servers_in_hook_order):
        if srv.error and j < len(w.servers):
            t.judge("failed_not_reused", not w.servers[j].w.data, dict(base, variant="-", reused=False), case, "a Server with .error never carries bytes", w.servers[j].w.data[:100])
    for name, data in w.hook_objs:
        if name != "response" or not isinstance(data, http.HTTPFlow):
            continue
        k = Sys.k_of(data.request.path)
        dest = s.intended.get(k)
        if dest is None:
            continue
        scheme, host, port, via = dest
        sc = data.server_conn
        got = {"address": list(sc.address) if sc.address else None, "tls": bool(sc.tls), "via": [sc.via[0], list(sc.via[1])] if sc.via else None, "transport": sc.transport_protocol}
        want = {"address": [host, port], "tls": scheme == "https", "via": [via[0], list(via[1])] if via else None, "transport": "tcp"}
        feats = dict(base, variant=s.variants[k], reused=False)
        t.judge("conn_object_matches_destination", got == want, feats, case, want, got)
        t.judge("failed_not_reused", not sc.error, feats, case, "the connection a response came from has no error", sc.error)
    for k, attr, state, is_open, raised in s.attempts:
        if is_open:
            t.judge("address_via_immutable_while_open", raised, dict(base, variant=s.variants[k], reused=False, attr=attr), case, "RuntimeError", "assignment to server_conn.%s accepted in state %s" % (attr, state))
    crashes = [x for x in w.errors if "crashed" in x]  # other ERROR records (e.g. "No TLS context was provided") are ordinary failures
    t.judge("no_internal_error", not crashes, dict(base, variant=s.variants[-1] if s.variants else "-", reused=False), case, "no exception inside the proxy core", crashes[:2])


def judge_waiting(s: Sys, t: Tally):
    """transient invariant, judged after every action: a request that waits for a connection which is still being
    established (HttpLayer.waiting_for_establishment) will be written to it, so that connection must already equal the
    request's destination - compared here with the destination the addon recorded, not with the command's own fields"""
    layer = s.layer
    if layer is None:
        return
    for conn, cmds in list(layer.waiting_for_establishment.items()):
        for cmd in cmds:
            stream = layer.command_sources.get(cmd)
            flow = getattr(stream, "flow", None)
            if flow is None or flow.request is None:
                continue
            k = Sys.k_of(flow.request.path)
            dest = s.intended.get(k)
            if dest is None:
                continue
            scheme, host, port, via = dest
            got = {"address": list(conn.address) if conn.address else None, "tls": bool(conn.tls), "via": [conn.via[0], list(conn.via[1])] if conn.via else None, "transport": conn.transport_protocol}
            want = {"address": [host, port], "tls": scheme == "https", "via": [via[0], list(via[1])] if via else None, "transport": "tcp"}
            feats = {"proto": s.proto, "mode": s.mode, "prior_fail": s.had_fail, "variant": s.variants[k], "reused": len(cmds) > 1}
            case = {"proto": s.proto, "mode": s.mode, "tunnel": s.tunnel, "hist": [list(a) for a in s.hist]}
            t.judge("waits_only_on_matching_conn", got == want, feats, case, want, got)


# ---------------------------------------------------------------------------------------------- executor for vmc.explore._dev_rec
class Exec:
    def __init__(self, proto, mode, variants, max_req, tunnel=None):
        self.proto, self.mode, self.variants, self.max_req, self.tunnel = proto, mode, variants, max_req, tunnel
        self.concurrency = 1 if proto == "h1" else 2

    def run(self, prefix, t: Tally, verbose=False):
        s = Sys(self.proto, self.mode, self.tunnel)
        choices, widths, costs = [], [], []
        try:
            for _ in range(200):
                acts, cost = s.point(self.variants, self.max_req, self.concurrency)
                if not acts:
                    break
                if len(acts) > 1:
                    k = prefix[len(choices)] if len(choices) < len(prefix) else 0
                    if k >= len(acts):
                        raise HarnessError("choice out of range while replaying %r" % (prefix,))
                    choices.append(k)
                    widths.append(len(acts))
                    costs.append(cost)
                    a = acts[k]
                else:
                    a = acts[0]
                s.apply(a)
                t.transitions += 1
                t.state(s.fingerprint())
                judge_waiting(s, t)
                if verbose:
                    print("after", a, "sockets", [(e.address, e.state, e.w.data[:100]) for e in s.w.servers])
            else:
                raise HarnessError("history does not terminate")
            # the sockets' bytes, the recorded destinations and the hook objects only ever grow: judging the last state
            # (before and after the close-out) judges every state of the history
            hist = list(s.hist)
            judge(s, hist, t)
            closed = s.hw.close_out() if s.hw is not None else s.w.close_out()
            judge(s, hist, t)
            case = {"proto": s.proto, "mode": s.mode, "tunnel": s.tunnel, "hist": [list(a) for a in hist]}
            feats = {"proto": s.proto, "mode": s.mode, "prior_fail": s.had_fail, "variant": s.variants[-1] if s.variants else "-", "reused": False}
            t.judge("handler_terminates", closed, feats, case, True, closed)
            nontrivial = s.nreq >= 2
            t.case(case if (nontrivial and len(t.samples) < 2 and s.had_fail) else None, nontrivial=nontrivial, key=[s.proto, s.mode, hist])
            t.outcome([s.proto, s.mode, [[list(e.address), e.state, len(s.heads(i)[0])] for i, e in enumerate(s.w.servers)]])
            if verbose:
                print("intended", s.intended, "\nattempts", s.attempts, "\nerrors", s.w.errors)
        finally:
            s.dispose()
        return choices, widths, costs


CONFIGS = [("h1", "regular"), ("h1", "upstream"), ("h2", "regular"), ("h2", "upstream")]


def pool_size():
    """scheduling only: on the build machine (a VM with very expensive page faults after fork) a small forked pool was
    measured to be faster than a large one, loaded or not"""
    return min(par.NPROC, 6)


def run(ctx):
    allv = list(VARIANTS)
    # plans: (client protocol, request variants, max requests, environment deviation bound); each for both proxy modes
    if ctx.tier == "quick":
        plans = [("h1", QUICK_VARIANTS, 3, 2), ("h2", QUICK_VARIANTS, 2, 2)]
    else:
        plans = [("h1", QUICK_VARIANTS, 4, 2), ("h1", allv, 3, 3), ("h2", QUICK_VARIANTS, 3, 2), ("h2", allv, 2, 3)]
    ctx.bounds = {
        "modes": ["regular", "upstream:http://proxy.test:8080"], "variants": {k: list(v) for k, v in VARIANTS.items()},
        "plans": [{"client": p, "request_variants": v, "max_requests": r, "environment_deviation_bound": b} for p, v, r, b in plans],
        "h2_concurrent_streams": 2,
        "request_choices": "every variant at every position (cost 0)",
        "environment_deviations": ["connect refused", "answer with Connection: close + close", "idle upstream closes before the next request", "HTTP/2: next request overtakes a pending connect/answer"],
    }
    # determinism self-test: the default execution twice
    for proto, mode in CONFIGS:
        ex = Exec(proto, mode, QUICK_VARIANTS, 2)
        if ex.run((), Tally()) != ex.run((), Tally()):
            raise HarnessError("default execution of %s/%s is not deterministic" % (proto, mode))
    # one task per (plan, mode, first request)
    tasks = []
    for proto, variants, max_req, bound in plans:
        for mode in ("regular", "upstream"):
            for i in range(len(variants)):
                tasks.append((proto, mode, variants, max_req, bound, (i,), None))
    # CONNECT tunnels (HTTP/1 client): the addon leaves / rewrites the CONNECT destination in http_connect, the requests
    # then travel inside the tunnel; one task per (mode, rewrite), the whole tree
    tunnel_req, tunnel_bound = ctx.pick(2, 3), ctx.pick(2, 3)
    for mode in ("regular", "upstream"):
        for tunnel in ("none", "host", "port"):
            tasks.append(("h1", mode, TUNNEL_VARIANTS, tunnel_req, tunnel_bound, (), tunnel))
    ctx.bounds["connect_tunnels"] = {"http_connect_rewrite": ["none", "host", "port"], "requests_inside": TUNNEL_VARIANTS, "max_requests": tunnel_req, "environment_deviation_bound": tunnel_bound}
    ctx.log("%d DFS tasks (plan x mode x first request, + CONNECT tunnels)" % len(tasks))
    par.pmap_tally(task_fn, tasks, ctx.tally, nchunks=len(tasks), nproc=pool_size())
    t = ctx.tally
    ctx.log("distinct states %d, transitions %d, executions %d" % (len(t.state_set), t.transitions, t.executions))


def task_fn(chunk):
    t = Tally()
    for proto, mode, variants, max_req, bound, prefix, tunnel in chunk:
        explore._dev_rec(Exec(proto, mode, variants, max_req, tunnel), tuple(prefix), 0, bound, t)
    return t


def replay(case, t, verbose=False):
    s = Sys(case["proto"], case["mode"], case.get("tunnel"))
    try:
        hist = [tuple(a) for a in case["hist"]]
        for a in hist:
            s.apply(a)
            judge_waiting(s, t)
            if verbose:
                print("after", a, "sockets", [(e.address, e.state, e.w.data[:120]) for e in s.w.servers])
        judge(s, hist, t)
        if verbose:
            print("intended", s.intended, "\nattempts", s.attempts, "\nerrors", s.w.errors)
            print("client", s.w.client.w.data[:300] if s.hw is None else {sid: s.hw.stream(sid) for sid in s.sids})
    finally:
        s.dispose()
