"""C20 - proxy authentication is enforced on every entry path.

Engine E on the real stack: the real `ProxyAuth` addon in the real addon chain, behind the
full stacks built by the real mode layers (regular: absolute-form and CONNECT + inner
requests; upstream; reverse; transparent; SOCKS5 with `Socks5AuthHook`), driven through
the real ProxyConnectionHandler on the virtual loop.  A case is a validator, a mode and a
sequence of requests on one client connection, each with one way of presenting
credentials.  Observed: the bytes that reach the mock upstream sockets (read by the
independent HTTP/1 reader) and the answers the client receives.  The reference for
"valid credentials" is RFC 7617 (token68 -> user-pass, split at the first colon) plus a
re-implementation of the validator semantics.
"""
from __future__ import annotations

import atexit
import base64
import hashlib
import itertools
import os
import shutil

from mitmproxy import exceptions
from mitmproxy.addons.proxyauth import ProxyAuth

from vmc import par
from vmc.drivers import h1
from vmc.drivers.stacks import world as World
from vmc.refs import http1ref
from vmc.tally import Tally

META = {
    "level": "exploration",
    "technique": "bounded-exhaustive enumeration of (validator, mode/entry path, credential presentation, request sequence) on the real ProxyAuth addon behind the real mode stacks and ConnectionHandler (virtual loop); oracle = RFC 7617 reference + independent HTTP/1 reader on the upstream bytes",
    "claim": "within the stated grammar no request of a client without valid credentials reaches an upstream socket and such clients get 407/401/SOCKS failure; every credential pair the validator accepts is accepted on every path; the credential header never reaches upstream",
    "rule": "a case is (validator, mode, connection strategy, sequence of (entry path, presentation)); distinct = distinct tuple; non-trivial = at least one request reached the authentication decision",
    "assumptions": [
        "credentials are UTF-8; presentations whose validity HTTP leaves open (two credential headers) are only judged for header removal",
        "the LDAP validator (real proxyauth.Ldap) talks to a stub of the ldap3 module that models a two-user directory and, like ldap3 with auto_bind, raises on a failed bind; the htpasswd file has one entry whose bcrypt check raises",
        "upstream peers answer every complete request at once; hooks complete immediately",
        "Proxy-Authorization sent *inside* an already authenticated CONNECT tunnel is end-to-end data and not judged",
        "option-change histories: the proxyauth option is changed between requests (rotated, validator kind switched, removed and set again); every request is judged by the configuration in force when it is sent; a tunnel authenticated before the change is not judged after it",
        "one Master (and so one ProxyAuth instance) serves all client connections of a worker process, as in production",
    ],
}

# ------------------------------------------------------------------ validators (reference semantics)
HT_USERS = {"bc": "pw", "sha": "p:q", "ü": "pä", "e": ""}
# an entry the htpasswd parser accepts but whose check raises (bcrypt: "Invalid salt"): no password is valid for it
HT_BROKEN = {"bad": "$2y$05$tooshort"}
VALIDATORS = ["single", "any", "htpasswd", "ldap", "single_na", "single_emptypw", "single_colon"]
_HT_DIR = None
LDAP_DIRECTORY = {"lu": "lp", "ü": "pä"}
LDAP_SPEC = "ldap:ldap.test:cn=admin:adminpw:ou=people"


class FakeLdap3:
    """stands in for the `ldap3` module, i.e. for the directory server behind it: the real `proxyauth.Ldap` validator
    runs unchanged.  Like ldap3 with auto_bind=True, a bind with a wrong password *raises*."""

    class BindError(Exception):
        pass

    class Server:
        def __init__(self, url, port=None, use_ssl=False):
            self.url = url

    class Connection:
        def __init__(self, server, user=None, password=None, auto_bind=False):
            self.response = []
            if user == "cn=admin":
                ok = password == "adminpw"
            else:
                name = user[3:].split(",")[0] if user and user.startswith("cn=") else None
                ok = name in LDAP_DIRECTORY and bool(password) and LDAP_DIRECTORY[name] == password
            if auto_bind and not ok:
                raise FakeLdap3.BindError("automatic bind not successful - invalidCredentials")

        def search(self, base, flt):
            name = flt[4:-1] if flt.startswith("(cn=") and flt.endswith(")") else None
            self.response = [{"dn": "cn=%s,%s" % (name, base)}] if name in LDAP_DIRECTORY else []
            return bool(self.response)

    class utils:
        class conv:
            @staticmethod
            def escape_filter_chars(s):
                return "".join("\\%02x" % ord(c) if c in "\\*()\x00" else c for c in s)


def install_fake_ldap():
    from mitmproxy.addons import proxyauth

    proxyauth.ldap3 = FakeLdap3


def htpasswd_path():
    global _HT_DIR
    if _HT_DIR is None:
        import bcrypt

        _HT_DIR = "/dev/shm/vmc-%d-c20" % os.getpid()
        os.makedirs(_HT_DIR, exist_ok=True)
        owner = os.getpid()

        def _rm(d=_HT_DIR):
            if os.getpid() == owner:
                shutil.rmtree(d, ignore_errors=True)

        atexit.register(_rm)
        lines = []
        for u, p in HT_USERS.items():
            if u == "bc":
                lines.append("%s:%s" % (u, bcrypt.hashpw(p.encode(), b"$2b$04$abcdefghijklmnopqrstuu").decode()))
            else:
                lines.append("%s:{SHA}%s" % (u, base64.b64encode(hashlib.sha1(p.encode("utf-8")).digest()).decode()))
        lines += ["%s:%s" % kv for kv in HT_BROKEN.items()]
        with open(os.path.join(_HT_DIR, "htpasswd"), "w", encoding="utf-8") as f:
            f.write("\n".join(lines) + "\n")
    return os.path.join(_HT_DIR, "htpasswd")


def option_value(v):
    return {"single": "u:p", "any": "any", "htpasswd": "@" + htpasswd_path(), "single_na": "ü:pä",
            "single_emptypw": "u:", "single_colon": "u:p:q", "single2": "u:p2", "off": None, "ldap": LDAP_SPEC}[v]


def ref_valid(v, user, pw):
    """does the configured validator accept (user, pw)?  (option syntax: user ':' password, first colon separates)"""
    if v == "any":
        return True
    if v == "ldap":
        return bool(user) and bool(pw) and LDAP_DIRECTORY.get(user) == pw
    if v == "htpasswd":
        return HT_USERS.get(user) == pw
    u, p = option_value(v).split(":", 1)
    return (user, pw) == (u, p)


def pairs(v):
    """credential pairs by role for validator v: role -> (user, pw) or None when the role does not exist"""
    good = {"single": ("u", "p"), "any": ("x", "y"), "htpasswd": ("bc", "pw"), "single_na": ("ü", "pä"),
            "single_emptypw": ("u", ""), "single_colon": ("u", "p:q"), "single2": ("u", "p2"), "ldap": ("lu", "lp")}[v]
    return {
        "valid": good,
        "wrongpw": (good[0], good[1] + "x"),  # (ldap: the bind raises)
        "wronguser": (good[0] + "x", good[1]),
        # credentials for which the validator's check *raises* instead of returning False
        "validator_raises": {"htpasswd": ("bad", "x"), "ldap": ("lu", "nope")}.get(v),
        "colon": {"any": ("u", "p:q"), "htpasswd": ("sha", "p:q"), "single_colon": ("u", "p:q")}.get(v),
        "colon2": {"any": ("u", ":p::q:")}.get(v),
        "nonascii": {"any": ("ü", "pä"), "htpasswd": ("ü", "pä"), "single_na": ("ü", "pä"), "ldap": ("ü", "pä")}.get(v),
        "emptypw": {"any": ("u", ""), "htpasswd": ("e", ""), "single_emptypw": ("u", "")}.get(v),
        "emptyuser": {"any": ("", "p")}.get(v),
    }


def b64(user, pw):
    return base64.b64encode(("%s:%s" % (user, pw)).encode("utf-8")).decode("ascii")


# presentation token -> (role of the pair used, template with {H} header name, {O} other header name, {T} token68)
PRES = {
    "none": (None, ""),
    "valid": ("valid", "{H}: Basic {T}\r\n"),
    "wrongpw": ("wrongpw", "{H}: Basic {T}\r\n"),
    "wronguser": ("wronguser", "{H}: Basic {T}\r\n"),
    "colon": ("colon", "{H}: Basic {T}\r\n"),
    "colon2": ("colon2", "{H}: Basic {T}\r\n"),
    "nonascii": ("nonascii", "{H}: Basic {T}\r\n"),
    "emptypw": ("emptypw", "{H}: Basic {T}\r\n"),
    "emptyuser": ("emptyuser", "{H}: Basic {T}\r\n"),
    "validator_raises": ("validator_raises", "{H}: Basic {T}\r\n"),
    "scheme_lower": ("valid", "{H}: basic {T}\r\n"),
    "scheme_upper": ("valid", "{H}: BASIC {T}\r\n"),
    "name_lower": ("valid", "{h}: Basic {T}\r\n"),
    "two_spaces": ("valid", "{H}: Basic  {T}\r\n"),
    "no_ows": ("valid", "{H}:Basic {T}\r\n"),
    "after_other_header": ("valid", "X-First: 1\r\n{H}: Basic {T}\r\nX-Last: 2\r\n"),
    # never valid
    "bearer": ("invalid", "{H}: Bearer {T}\r\n"),
    "bad_padding": ("invalid", "{H}: Basic {Tcut}\r\n"),
    "scheme_only": ("invalid", "{H}: Basic\r\n"),
    "no_colon": ("invalid", "{H}: Basic {Tnocolon}\r\n"),
    "empty_value": ("invalid", "{H}:\r\n"),
    "wrong_header": ("invalid", "{O}: Basic {T}\r\n"),
    # HTTP leaves these open
    "two_headers_wrong_valid": ("ambiguous", "{H}: Basic {Twrong}\r\n{H}: Basic {T}\r\n"),
    "two_headers_valid_wrong": ("ambiguous", "{H}: Basic {T}\r\n{H}: Basic {Twrong}\r\n"),
}
P_SEQ = ["none", "valid", "wrongpw"]
SOCKS_OFFERS = {"noauth_only": b"\x05\x01\x00", "userpass": b"\x05\x01\x02", "both": b"\x05\x02\x00\x02", "both_rev": b"\x05\x02\x02\x00"}
SOCKS_CREDS = ["valid", "wrongpw", "wronguser", "validator_raises", "colon", "nonascii", "emptypw"]

MODES = {
    "regular": "regular",
    "upstream": "upstream:http://proxy.test:3128",
    "reverse": "reverse:http://origin.test:80/",
    "transparent": "transparent",
    "socks5": "socks5",
}


def presentation(v, pres, proxy_hdr):
    """-> (header bytes, status) with status in valid | invalid | ambiguous | None(role absent for this validator).
    `pres` may be "token@validator": the pair is taken from that validator's roles (credentials that were good
    under an earlier configuration) while validity is judged under the current validator `v`."""
    src = v
    if "@" in pres:
        pres, src = pres.split("@")
    role, tmpl = PRES[pres]
    if role is None:
        return b"", "invalid"
    pp = pairs(src)
    if role in ("invalid", "ambiguous"):
        user, pw = pp["valid"]
        status = role
    else:
        if pp.get(role) is None:
            return None, None
        user, pw = pp[role]
        status = "valid" if ref_valid(v, user, pw) else "invalid"
    H = "Proxy-Authorization" if proxy_hdr else "Authorization"
    O = "Authorization" if proxy_hdr else "Proxy-Authorization"
    T = b64(user, pw)
    wrong = pp["wrongpw"]
    raw = T.rstrip("=")
    tcut = raw[:max(1, ((len(raw) - 1) // 4) * 4 + 1)]  # length = 1 mod 4: not base64 under any padding rule
    text = tmpl.format(H=H, h=H.lower(), O=O, T=T, Tcut=tcut,
                       Tnocolon=base64.b64encode((user + pw).encode("utf-8")).decode(), Twrong=b64(*wrong))
    return text.encode("ascii"), status


# ------------------------------------------------------------------ cases
def cases(maxlen, thorough):
    out = []
    strategies = ["eager", "lazy"]
    for v in VALIDATORS:
        main = v in ("single", "any", "htpasswd")
        # 1. every presentation on every HTTP entry path (single request, CONNECT followed by an inner request)
        for mode in ("regular", "upstream", "reverse", "transparent"):
            kinds = ("abs", "connect") if mode in ("regular", "upstream") else ("origin",)
            for kind in kinds:
                for pres in PRES:
                    if presentation(v, pres, True)[1] is None:
                        continue  # this validator has no pair of that kind
                    steps = [[kind, pres]]
                    if kind == "connect":
                        steps.append(["inner", "none"])
                    out.append({"v": v, "mode": mode, "strategy": "eager", "steps": steps})
        # 2. SOCKS5: method offers x credentials x number of tunnelled requests
        for offer in SOCKS_OFFERS:
            for cred in SOCKS_CREDS:
                if pairs(v).get(cred) is None:
                    continue
                for n_inner in ((1, 2) if main else (1,)):
                    for st in strategies:
                        for delivery in ("split", "whole"):  # one segment per message / the whole handshake pipelined
                            out.append({"v": v, "mode": "socks5", "strategy": st,
                                        "steps": [["socks", offer + "/" + cred + "/" + delivery]] + [["origin", "none"]] * n_inner})
        # 3. sequences on one connection
        if not main:
            continue
        for mode in ("regular", "upstream"):
            alphabet = [[k, p] for k in ("abs", "connect") for p in P_SEQ]
            for n in range(2, maxlen + 1):
                for seq in itertools.product(alphabet, repeat=n):
                    steps, tunnelled = [], False
                    for k, p in seq:
                        if tunnelled:
                            steps.append(["inner", "none"])
                        else:
                            steps.append([k, p])
                            if k == "connect" and presentation(v, p, True)[1] == "valid":
                                tunnelled = True  # (under `any` a "wrong" password is valid too)
                    for st in (strategies if (mode == "regular" and (thorough or n <= 2)) else ["eager"]):
                        c = {"v": v, "mode": mode, "strategy": st, "steps": steps}
                        out.append(c)
        for mode in ("reverse", "transparent"):
            for n in range(2, maxlen + 1):
                for seq in itertools.product(P_SEQ, repeat=n):
                    out.append({"v": v, "mode": mode, "strategy": "eager", "steps": [["origin", p] for p in seq]})
    out += history_cases(thorough)
    # de-duplicate (tunnelled suffixes collapse)
    seen, uniq = set(), []
    for c in out:
        k = repr(c)
        if k not in seen:
            seen.add(k)
            uniq.append(c)
    return uniq


TRANSITIONS = [["single", "single2"], ["single2", "single"], ["single", "any"], ["any", "single"], ["single", "htpasswd"], ["htpasswd", "single"],
               ["htpasswd", "any"], ["ldap", "single"], ["single", "ldap"], ["single", "off", "single2"], ["htpasswd", "off", "single"]]


def history_cases(thorough):
    """the proxyauth option changes while the proxy runs (password rotated, validator kind switched, option removed and
    set again): credentials that were accepted before the change are presented again - on the same client connection and
    on a new one - and must now be judged by the new configuration; then the new configuration's credentials are used."""
    out = []
    for tr in TRANSITIONS:
        v1, v2 = tr[0], tr[-1]
        reconf = [["reconf", x] for x in tr[1:]]
        for mode in MODES:
            kinds = ("abs", "connect") if mode in ("regular", "upstream") else ("socks",) if mode == "socks5" else ("origin",)
            for kind in kinds:
                for newconn in ((True,) if kind in ("connect", "socks") else (False, True)):
                    for strategy in (("eager", "lazy") if thorough else ("eager",)):
                        def req(owner, first=False):
                            if kind == "socks":
                                r = [["socks", "userpass/valid@%s/whole" % owner], ["origin", "none"]]
                            elif kind == "connect":
                                r = [["connect", "valid@" + owner], ["inner", "none"]]
                            else:
                                r = [[kind, "valid@" + owner]]
                            return r if first or not newconn else [["newconn", ""]] + r

                        steps = req(v1, first=True) + reconf + req(v1) + req(v2)
                        if thorough:
                            steps += req(v1)
                        out.append({"v": v1, "mode": mode, "strategy": strategy, "steps": steps, "history": ">".join(tr)})
    return out


# ------------------------------------------------------------------ running one case
def responder(k, msg, end):
    if msg["start"][0] == b"CONNECT":
        return b"HTTP/1.1 200 OK\r\n\r\n"
    return h1.OK_RESPONSE


def step_bytes(v, mode, k, kind, pres):
    proxy_hdr = mode in ("regular", "upstream")
    if kind == "socks":
        offer, cred, delivery = pres.split("/")
        pr = pairs(cred.split("@")[1]).get(cred.split("@")[0]) if "@" in cred else pairs(v).get(cred)
        if pr is None:
            return None, None
        u, p = pr[0].encode("utf-8"), pr[1].encode("utf-8")
        status = "valid" if (ref_valid(v, *pr) and 2 in SOCKS_OFFERS[offer][2:]) else "invalid"
        if len(u) == 0 or len(p) == 0:
            # RFC 1929 requires lengths 1..255: an empty field is not a well-formed sub-negotiation -> left open
            status = "ambiguous" if status == "valid" else status
        hello = SOCKS_OFFERS[offer]
        auth = b"\x01" + bytes([len(u)]) + u + bytes([len(p)]) + p
        request = b"\x05\x01\x00\x03\x0borigin.test\x00\x50"
        return ([hello, auth, request] if delivery == "split" else [hello + auth + request]), status
    hdr, status = presentation(v, pres, proxy_hdr)
    if hdr is None:
        return None, None
    if kind == "abs":
        head = b"GET http://origin.test/r%d HTTP/1.1\r\nHost: origin.test\r\n" % k
    elif kind == "connect":
        head = b"CONNECT c%d.origin.test:80 HTTP/1.1\r\nHost: c%d.origin.test:80\r\n" % (k, k)
    else:  # inner / origin: origin-form
        head = b"GET /r%d HTTP/1.1\r\nHost: origin.test\r\n" % k
    return [head + hdr + b"\r\n"], status


def execute(case):
    """steps are requests, or ["reconf", validator] (the proxyauth option is changed at run time, "off" removes it), or
    ["newconn", ""] (the client connection ends and a new one is accepted by the same Master / same addon instances)"""
    v, mode = case["v"], case["mode"]

    def connect(vcur):
        install_fake_ldap()
        return World(mode=MODES[mode], opts={"proxyauth": option_value(vcur), "connection_strategy": case["strategy"]},
                     addons=[ProxyAuth()], master_key="c20-proxyauth", auto_connect=True, snap=h1.http_snap)

    try:
        w = connect(v)
    except exceptions.OptionsError as e:
        return {"configure_error": str(e)}
    obs = {"steps": [], "crash": None, "upstream": [], "hooks": [], "errors": [], "finished": True}
    answered = {}

    ci = [0]  # index of the current client connection

    def finish(w):
        obs["upstream"] += [[list(e.address), e.state, e.w.data, ci[0]] for e in w.servers]
        obs["hooks"] += [n for n, _ in w.hooks]
        obs["finished"] = w.close_out() and obs["finished"]
        obs["errors"] += list(w.errors)

    try:
        try:
            w.start()
            for k, (kind, pres) in enumerate(case["steps"]):
                if kind == "reconf":
                    v = pres
                    w.options.update(proxyauth=option_value(v))
                    w.quiesce()
                    obs["steps"].append({"reconf": v})
                    continue
                if kind == "newconn":
                    finish(w)
                    w.dispose()
                    ci[0] += 1
                    w = connect(v)
                    answered = {}
                    w.start()
                    obs["steps"].append({"newconn": True})
                    continue
                segs, status = step_bytes(v, mode, k, kind, pres)
                if segs is None:
                    obs["steps"].append({"skipped": "role absent"})
                    continue
                if w.client.w.closed or w.done:
                    obs["steps"].append({"skipped": "connection closed by mitmproxy"})
                    continue
                before = len(w.client.w.data)
                for s in segs:
                    if w.client.w.closed:
                        break
                    w.client_send(s)
                    h1.pump(w, responder, answered)
                obs["steps"].append({"status": status, "client": w.client.w.data[before:], "closed": bool(w.client.w.closed), "ci": ci[0]})
            finish(w)
        except KeyboardInterrupt:
            raise
        except BaseException as e:
            obs["crash"] = repr(e)[:300]
    finally:
        w.dispose()
    return obs


def upstream_requests(obs):
    """every request an upstream socket received: (connection address, tunnelled?, message)"""
    out = []
    for addr, state, data, _ci in obs["upstream"]:
        msgs, verdict = http1ref.parse_requests(data)
        tunnelled = False
        for m in msgs:
            out.append((tuple(addr), tunnelled, m))
            if m["start"][0] == b"CONNECT":
                tunnelled = True
    return out


def feats(case, kind, pres, vcur=None):
    vcur = vcur or case["v"]
    transport = "socks5" if kind == "socks" else "http-basic"
    p = pres.split("/")[1] if kind == "socks" else pres
    src = vcur
    if "@" in p:
        p, src = p.split("@")
    role = p if kind == "socks" else PRES[p][0]
    pair = pairs(src).get(role if role not in (None, "invalid", "ambiguous") else "valid")
    f = {"mode": case["mode"], "path": kind, "pres": p, "validator": vcur, "transport": transport,
         "pw_colon": bool(pair and role is not None and ":" in pair[1]),
         # credentials of the current configuration, or of an earlier one (option changed at run time)
         "creds_of": "current" if src == vcur else "earlier-config", "history": case.get("history", "-")}
    if kind == "socks":
        f["offer"] = pres.split("/")[0]
        f["delivery"] = pres.split("/")[2]
    return f


def judge(case, obs, t: Tally, verbose=False):
    v, mode = case["v"], case["mode"]
    proxy = mode in ("regular", "upstream")
    cred_header = b"proxy-authorization" if proxy else b"authorization"
    if "configure_error" in obs:
        t.case(case, nontrivial=True, key=repr(case))
        t.bad("accepted_iff_validator_accepts", {"path": "configure", "pw_colon": ":" in option_value(v).split(":", 1)[-1], "validator": v, "transport": "option"},
              case, "proxyauth=%r configures a validator" % option_value(v), obs["configure_error"])
        return
    if obs.get("crash") or not obs.get("finished") or any("crashed" in e for e in obs.get("errors", [])):
        t.case(case, nontrivial=True, key=repr(case))
        t.bad("unauth_gets_407_or_401_or_socks_fail", dict(feats(case, *case["steps"][0]), internal_error=True), case,
              "no internal error", {k: obs.get(k) for k in ("crash", "errors", "finished")})
        return
    for e in obs.get("errors", []):
        # an addon hook that raised (e.g. the validator's check raising inside socks5_auth) is logged by the addon manager;
        # the property is judged on what the client gets and what is forwarded, below
        t.note("logged: " + e[:60])
    ups = upstream_requests(obs)
    reached = any(s.get("status") for s in obs["steps"])
    t.case(case if len(case["steps"]) == 3 else None, nontrivial=reached, key=repr(case))
    t.outcome([[s.get("status"), s.get("client", b"")[:12], s.get("closed")] for s in obs["steps"]] + [len(ups)])

    conn_authed = False  # authenticated for the rest of the connection (valid CONNECT / SOCKS5 credentials)
    dead = False  # nothing more can be judged on this client connection
    vcur = v
    allowed_paths = set()
    for k, (kind, pres) in enumerate(case["steps"]):
        if k >= len(obs["steps"]):
            break
        s = obs["steps"][k]
        if "reconf" in s:
            vcur = s["reconf"]
            if conn_authed:
                dead = True  # a tunnel authenticated under the old configuration: the statement does not say what happens to it
            continue
        if "newconn" in s:
            conn_authed, dead = False, False
            continue
        if "skipped" in s or dead or vcur == "off":
            continue
        f = feats(case, kind, pres, vcur)
        status = s["status"]
        my_upstream = [u for u in obs["upstream"] if u[3] == s["ci"]]
        marker = b"/r%d" % k
        chost = "c%d.origin.test" % k
        if kind == "connect":
            # forwarded = a CONNECT for it went to the upstream proxy, or bytes were written on a connection to its target
            # (an eager TCP connect that carries nothing is not "forwarding a request")
            fwd = any(m["start"][0] == b"CONNECT" and m["start"][1].startswith(chost.encode()) for _, _, m in ups) \
                or any(u[0][0] == chost and u[2] for u in obs["upstream"])
        elif kind == "socks":
            fwd = bool(my_upstream) and not s["closed"]
        else:
            fwd = any(m["start"][1].endswith(marker) for _, _, m in ups)
        authed = conn_authed or status == "valid"
        if status == "ambiguous" and not conn_authed:
            # only the header-removal clause applies
            for _, _, m in ups:
                if m["start"][1].endswith(marker):
                    t.judge("cred_header_removed", not any(n.lower() == cred_header for n, _ in m["fields"]), f, case,
                            "no %s header upstream" % cred_header.decode(), m["fields"])
            if kind in ("connect", "socks"):
                dead = True  # connection state unknown from here on
            continue

        if kind == "socks":
            out = s["client"]
            if authed:
                ok = out.startswith(b"\x05\x02\x01\x00\x05\x00") and not s["closed"]
                t.judge("accepted_iff_validator_accepts", ok, f, case, "method 02, auth status 00, success reply", {"client": out, "closed": s["closed"]})
                conn_authed = ok
                if not ok:
                    dead = True
            else:
                refused = (out[:2] == b"\x05\xff") or (out[:2] == b"\x05\x02" and len(out) >= 4 and out[2] == 1 and out[3] != 0)
                t.judge("unauth_gets_407_or_401_or_socks_fail", refused and s["closed"], f, case,
                        "05 FF, or 05 02 then 01 <non-zero>, then close", {"client": out, "closed": s["closed"]})
                t.judge("unauth_never_forwarded", not my_upstream and b"\x05\x00\x00" not in out, f, case,
                        "no upstream connection, no success reply", {"upstream": [u[:2] for u in my_upstream], "client": out})
                dead = True
            continue

        # ---- HTTP paths
        methods = [b"CONNECT" if kind == "connect" else b"GET"]
        resp, verdict = http1ref.parse_responses(s["client"], methods)
        code = int(resp[0]["start"][1]) if resp else None
        names = [n.lower() for n, _ in resp[0]["fields"]] if resp else []
        if authed:
            allowed_paths.add(marker)
            if kind == "connect":
                ok = code is not None and 200 <= code < 300
                t.judge("accepted_iff_validator_accepts", ok, f, case, "2xx to CONNECT", {"client": s["client"][:200]})
                if ok:
                    conn_authed = True
                else:
                    dead = True
            else:
                ok = code == 200 and fwd
                t.judge("accepted_iff_validator_accepts", ok, f, case, "request forwarded and 200 relayed",
                        {"client": s["client"][:200], "forwarded": fwd})
            for _, tunnelled, m in ups:
                mine = m["start"][1].endswith(marker) or (kind == "connect" and m["start"][0] == b"CONNECT" and m["start"][1].startswith(chost.encode()))
                if mine and status == "valid":
                    t.judge("cred_header_removed", not any(n.lower() == cred_header for n, _ in m["fields"]), f, case,
                            "no %s header upstream" % cred_header.decode(), m["fields"])
        else:
            t.judge("unauth_never_forwarded", not fwd, f, case, "nothing of step %d reaches an upstream socket" % k,
                    {"upstream": [(a, m["start"]) for a, _, m in ups], "connections": [u[:2] for u in obs["upstream"]]})
            # the statement asks for "an authentication-required answer": either challenge qualifies on any path
            good = (code == 407 and b"proxy-authenticate" in names) or (code == 401 and b"www-authenticate" in names)
            t.judge("unauth_gets_407_or_401_or_socks_fail", good, f, case, "407 + Proxy-Authenticate or 401 + WWW-Authenticate",
                    {"client": s["client"][:200]})
        if s["closed"]:
            dead = True

    # nothing else was forwarded: every upstream GET belongs to an authenticated step
    stray = [m["start"] for _, _, m in ups if m["start"][0] != b"CONNECT" and not any(m["start"][1].endswith(p) for p in allowed_paths)]
    if case["mode"] != "socks5" or conn_authed:
        f0 = feats(case, *case["steps"][0])
        if case["mode"] == "socks5":
            stray = []  # tunnelled requests are covered by conn_authed
        t.judge("unauth_never_forwarded", not stray, dict(f0, stray=True), case, "only requests of authenticated steps upstream", stray)


def run_case(case, t: Tally, verbose=False):
    obs = execute(case)
    if verbose:
        for k, v in obs.items():
            print(k, v)
    judge(case, obs, t, verbose)


def chunk_fn(chunk):
    t = Tally()
    for case in chunk:
        run_case(case, t)
    return t


def run(ctx):
    maxlen = ctx.pick(3, 4)
    htpasswd_path()  # written once by the parent, inherited by the workers
    cs = cases(maxlen, ctx.thorough)
    ctx.bounds = {"validators": VALIDATORS, "modes": list(MODES), "presentations": list(PRES), "socks_offers": list(SOCKS_OFFERS),
                  "socks_credentials": SOCKS_CREDS, "sequence_alphabet": "{abs,connect} x " + str(P_SEQ) + " (regular, upstream); origin x " + str(P_SEQ) + " (reverse, transparent)",
                  "max_sequence_length": maxlen, "option_histories": [">".join(x) for x in TRANSITIONS],
                  "history_shape": "valid creds of config A; change option; [new connection]; creds of A again; creds of B" + ("; creds of A" if ctx.thorough else ""),
                  "cases": len(cs)}
    ctx.log("%d cases" % len(cs))
    par.pmap_tally(chunk_fn, cs, ctx.tally, nchunks=64)


def replay(case, t, verbose=False):
    run_case(case, t, verbose=verbose)
