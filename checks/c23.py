"""C23 - mitmproxy never proxies a connection back to its own listening sockets.

Engine E on the real `Proxyserver.server_connect`: the addon's real `Servers` container is
populated with *real* `ServerInstance` objects (made by `ServerInstance.make` for real
`ProxyMode`s) whose listening sockets are fakes that only answer `getsockname()`, so the
real `listen_addrs` property and the real `mode.transport_protocol` are what the guard
consults.  Every combination of destination spelling x listen configuration x port x
mode (transport tcp/udp/both) x connection transport x server arrangement is evaluated;
a representative slice is additionally sent as a real HTTP request through the whole proxy
core (World driver) to confirm that no upstream connection is opened.

The oracle is one-sided: a destination that denotes an own listener must get
`server.error`; nothing is ever required to be allowed.
"""
from __future__ import annotations

import itertools

from mitmproxy import connection
from mitmproxy.addons.proxyserver import Proxyserver
from mitmproxy.proxy import mode_servers
from mitmproxy.proxy import mode_specs
from mitmproxy.proxy import server_hooks

from vmc import par
from vmc.refs import ianaref
from vmc.tally import HarnessError, Tally

META = {
    "level": "exploration",
    "technique": "bounded-exhaustive enumeration of (destination spelling x listen configuration x port x mode transport x connection transport x "
    "server arrangement) on the real Proxyserver.server_connect with real ServerInstance objects over fake listening sockets; one-sided reference predicate",
    "claim": "for every enumerated destination that denotes an own listener (same port, same transport, explicit listen address / loopback address or name "
    "for loopback and all-interface listeners) server_connect sets server.error, and through the full proxy core no upstream connection is opened; "
    "exploration because the property is a stateless classification of (destination, configuration)",
    "rule": "a case is (destination host text, destination port, connection transport, list of (mode spec, listen address list)), or a reconfiguration "
    "history (sequence over {set mode/server option, pending binds complete, probe battery of server_connect calls}) on a running Proxyserver; "
    "distinct = distinct tuple / history; non-trivial = the reference says the destination denotes an own listener (the guard must fire), "
    "or the history contains a runtime option change",
    "assumptions": [
        "a listener on a link-local address reports its zone in the host text (fe80::5%eth0); a destination denotes it with the same zone, with the zone written "
        "as interface index, or without zone (the zone is not part of the address); zoned destinations are judged on the guard only, not through an HTTP request",
        "reconfiguration histories run the real Master/options/Proxyserver.configure/Servers.update/ServerInstance.start+stop on the virtual loop; only the two "
        "socket-binding calls (asyncio.start_server, mitmproxy_rs.udp.start_udp_server) are replaced by fakes that complete when the environment says so; "
        "the reference is evaluated on the listeners open at the moment of each connect; depth 4 (quick) / 5 (thorough) over 7 option updates",
        "listen_addrs are what getsockname() reports: numeric addresses, 2-tuples for IPv4 and 4-tuples for IPv6; listen host '' is the dual-stack pair 0.0.0.0 + ::",
        "loopback names are 'localhost' in any letter case with at most one trailing dot; other names that may resolve to loopback (/etc/hosts, *.localhost) are outside the claim",
        "a wildcard destination (0.0.0.0 / ::) is only required to fail when it is literally one of the listen addresses; "
        "the IPv4-mapped spelling of a non-loopback listen address is enumerated but not judged",
        "nothing is required to be allowed: over-blocking (e.g. localhost:port while listening on 192.0.2.5 only) is not judged",
    ],
}

P = 8080
P_OTHER = 8081

# listen configurations: what getsockname() reports for `listen_host`
LISTEN = {
    "dual-wildcard": [("0.0.0.0", P), ("::", P, 0, 0)],  # listen_host "" (default)
    "wildcard-v4": [("0.0.0.0", P)],
    "wildcard-v6": [("::", P, 0, 0)],
    "loopback-v4": [("127.0.0.1", P)],
    "loopback-v6": [("::1", P, 0, 0)],
    "dual-loopback": [("127.0.0.1", P), ("::1", P, 0, 0)],  # listen_host "localhost"
    "specific-v4": [("192.0.2.5", P)],
    "specific-v6": [("2001:db8::5", P, 0, 0)],
    # a listener on a link-local address: getsockname() reports the zone in the host text and the scope id
    "specific-v6-zoned": [("fe80::5%eth0", P, 0, 3)],
}
LISTEN_THOROUGH = dict(LISTEN, **{
    "loopback-v4-other": [("127.0.0.2", P)],
    "specific-v6-scoped": [("fe80::5", P, 0, 3)],
    "specific-dual": [("192.0.2.5", P), ("2001:db8::5", P, 0, 0)],
})

MODES = {  # spec -> expected transport (cross-checked against the real ProxyMode in self_test)
    "regular": "tcp",
    "socks5": "tcp",
    "reverse:http://192.0.2.80:80/": "tcp",
    "reverse:udp://192.0.2.9:9": "udp",
    "reverse:quic://192.0.2.9:9": "udp",
    "dns": "both",
    "reverse:dns://192.0.2.53": "both",
}
MODES_QUICK = ["regular", "reverse:udp://192.0.2.9:9", "dns", "reverse:dns://192.0.2.53"]
MODES_THOROUGH = list(MODES) + ["transparent", "upstream:http://192.0.2.8:3128", "reverse:tcp://192.0.2.9:9", "reverse:dtls://192.0.2.9:9", "reverse:http3://192.0.2.9:9"]


def localhost_case_variants(all_of_them):
    if not all_of_them:
        return ["LOCALHOST", "Localhost", "localHost"]
    out = []
    for bits in itertools.product((0, 1), repeat=9):
        s = "".join(c.upper() if b else c for c, b in zip("localhost", bits))
        if s != "localhost":
            out.append(s)
    return out


def destinations(thorough):
    """[(dest_kind, host text)] - the kinds are the trigger classes used as features"""
    d = [("localhost", "localhost")]
    d += [("localhost-case", s) for s in localhost_case_variants(thorough)]
    d += [("localhost-dot", "localhost."), ("localhost-dot", "LOCALHOST.")]
    d += [("127.0.0.1", "127.0.0.1")]
    other = ["127.0.0.2", "127.255.255.254", "127.1.2.3"]
    if thorough:
        other += ["127.0.0.0", "127.0.0.255", "127.0.1.1", "127.128.0.1", "127.255.255.255"]
    d += [("loopback-v4-other", s) for s in other]
    d += [("::1", "::1")]
    d += [("::1-respelled", "0:0:0:0:0:0:0:1")]
    if thorough:
        d += [("::1-respelled", "0000:0000:0000:0000:0000:0000:0000:0001"), ("::1-respelled", "::0:1"), ("::1-respelled", "::0.0.0.1")]
    d += [("mapped-loopback", "::ffff:127.0.0.1"), ("mapped-loopback", "::ffff:7f00:1")]
    if thorough:
        d += [("mapped-loopback", "::ffff:127.0.0.2"), ("mapped-loopback", "::FFFF:127.0.0.1"), ("mapped-loopback", "0:0:0:0:0:ffff:7f00:1")]
    d += [("wildcard", "0.0.0.0"), ("wildcard", "::")]
    d += [("listen-ip", "192.0.2.5"), ("listen-ip", "2001:db8::5")]
    d += [("listen-ip-respelled", "2001:db8:0:0:0:0:0:5"), ("listen-ip-respelled", "2001:DB8::5")]
    # zone identifiers: the listen address with its zone as reported, with the zone spelled as interface index, and without zone
    d += [("listen-ip", "fe80::5%eth0"), ("listen-ip-zone-variant", "fe80::5%3"), ("listen-ip-zone-variant", "fe80::5"),
          ("listen-ip-zone-variant", "FE80:0:0:0:0:0:0:5%eth0")]
    d += [("loopback-zoned", "::1%lo")]
    if thorough:
        d += [("listen-ip", "fe80::5"), ("listen-ip-respelled", "2001:0db8::0005"), ("listen-ip-respelled", "FE80::5")]
    d += [("listen-ip-mapped", "::ffff:192.0.2.5")]
    d += [("other-host", "192.0.2.99"), ("other-host", "2001:db8::99"), ("other-host", "128.0.0.1"), ("public-name", "example.com"),
          ("public-name", "localhost.example.com"), ("public-name", "notlocalhost")]
    return d


# ---------------------------------------------------------------------------
# reference predicate (one-sided)


def parse_host(text):
    """('name', lowercase-without-one-trailing-dot) or ('ip', family, int) with IPv4-mapped unwrapped; mapped flag"""
    host = text.split("%", 1)[0]
    try:
        if ":" in host:
            n = ianaref.parse6(host)
            if (n >> 32) == 0xFFFF:
                return ("ip", 4, n & 0xFFFFFFFF, True)
            return ("ip", 6, n, False)
        return ("ip", 4, ianaref.parse4(host), False)
    except ValueError:
        name = text.lower()
        if name.endswith("."):
            name = name[:-1]
        return ("name", name, None, False)


def is_loopback(h):
    if h[0] == "name":
        return h[1] == "localhost"
    cls, _ = ianaref.classify(h[1], h[2])
    return cls == "loopback"


def is_wildcard(h):
    return h[0] == "ip" and h[2] == 0


def denotes(dest_text, listen_host_text):
    """why the destination host denotes the listener's address, or None.  'unjudged:...' = enumerated, not required"""
    d, l = parse_host(dest_text), parse_host(listen_host_text)
    if l[0] != "ip":
        raise HarnessError("listen address is not numeric: %r" % listen_host_text)
    if d[0] == "ip" and d[1:3] == l[1:3]:
        if d[3] and not is_loopback(d):
            return "unjudged:mapped-spelling-of-listen-address"
        return "explicit-listen-address"
    if is_loopback(d) and (is_loopback(l) or is_wildcard(l)):
        return "loopback-destination-for-loopback-or-all-interfaces-listener"
    if is_wildcard(d) and (is_wildcard(l) or is_loopback(l)):
        return "unjudged:wildcard-destination"
    return None


def transport_covers(mode_transport, conn_transport):
    return mode_transport == conn_transport or mode_transport == "both"


def reference(case):
    """(required_reason or None, unjudged_reason or None, transport of the denoted listener's mode or None)"""
    req = unj = req_mt = None
    for spec, addrs in case["servers"]:
        mt = mode_specs.ProxyMode.parse(spec).transport_protocol
        for a in addrs:
            if a[1] != case["port"] or not transport_covers(mt, case["transport"]):
                continue
            why = denotes(case["host"], a[0])
            if why is None:
                continue
            if why.startswith("unjudged:"):
                unj = unj or why
            elif req is None:
                req, req_mt = why, mt
    return req, unj, req_mt


# ---------------------------------------------------------------------------
# the real code


class FakeSock:
    def __init__(self, addr):
        self.addr = tuple(addr)

    def getsockname(self):
        return self.addr


class FakeListener:
    """stands in for asyncio.Server: only `.sockets[i].getsockname()` is consulted by listen_addrs"""

    def __init__(self, addrs):
        self.sockets = [FakeSock(a) for a in addrs]


def populate(ps: Proxyserver, servers):
    inst = {}
    for spec, addrs in servers:
        mode = mode_specs.ProxyMode.parse(spec)
        si = mode_servers.ServerInstance.make(mode, ps)
        si._servers = [FakeListener(addrs)]
        got = tuple(tuple(a) for a in si.listen_addrs)
        if got != tuple(tuple(a) for a in addrs):
            raise HarnessError("real listen_addrs does not report the fake sockets: %r" % (got,))
        inst[mode] = si
    ps.servers._instances = inst


def call_guard(case):
    ps = Proxyserver()
    populate(ps, case["servers"])
    srv = connection.Server(address=(case["host"], case["port"]), transport_protocol=case["transport"])
    cl = connection.Client(peername=("192.0.2.10", 51000), sockname=("192.0.2.1", P), timestamp_start=0)
    exc = None
    try:
        ps.server_connect(server_hooks.ServerConnectionHookData(server=srv, client=cl))
    except KeyboardInterrupt:
        raise
    except BaseException as e:
        exc = repr(e)[:200]
    return {"error": srv.error, "exception": exc}


def call_world(case):
    """the same destination as an HTTP request through the whole proxy core; an upstream connect attempt is the loop"""
    from vmc.drivers.world import World

    host = case["host"]
    authority = ("[%s]" % host if ":" in host else host) + ":%d" % case["port"]
    w = World(mode="regular", auto_connect=True)
    ps = w.master.addons.get("proxyserver")
    saved = ps.servers._instances
    try:
        populate(ps, case["servers"])
        w.start()
        w.client_send(b"GET http://" + authority.encode() + b"/ HTTP/1.1\r\nHost: " + authority.encode() + b"\r\n\r\n")
        errs = [getattr(o.server, "error", None) for n, o in w.hook_objs if n == "server_connect"]
        obs = {"connect_attempts": [list(e.address) for e in w.servers], "server_connect_hooks": len(errs), "error": errs[0] if errs else None,
               "to_client": w.client.w.data[:40], "exception": w.errors[0][:160] if w.errors else None}
        w.close_out()
        return obs
    finally:
        ps.servers._instances = saved
        w.dispose()


def features(case, req_mt):
    """coarse trigger classes: how the destination is spelled, what kind of address the listener sits on,
    the transport of the mode whose listener is denoted, and where that listener sits among the servers"""
    listener = case["listen"].split("-")[0]
    if listener == "dual":
        listener = case["listen"].split("-")[1]
    return {"dest_kind": case["kind"], "listener": listener, "mode_transport": req_mt or "-", "arrangement": case["arr"]}


def run_case(case, t: Tally, verbose=False):
    req, unj, req_mt = reference(case)
    feats = features(case, req_mt)
    world = case.get("via") == "world"
    obs = call_world(case) if world else call_guard(case)
    if verbose:
        print("  reference: required=%r unjudged=%r\n  observed: %r" % (req, unj, obs))
    blocked = bool(obs["error"])
    t.case(case if (req and case["kind"] not in ("localhost", "127.0.0.1")) else None, nontrivial=bool(req), key=case)
    t.outcome([case["kind"], case["listen"], feats["mode_transport"], case["transport"], case["port"] == P, blocked, bool(obs["exception"])])
    if obs["exception"]:
        t.bad("guard_does_not_crash", feats, case, "no exception", obs)
    else:
        t.ok("guard_does_not_crash")
    if req:
        ok = blocked and "destination unknown" in str(obs["error"]).lower()
        if world:
            ok = ok and not obs["connect_attempts"]
        t.judge("self_connect_gets_error", ok, feats, case, "server.error = 'Request destination unknown...' (%s)" % req, obs)
        if world and not obs["connect_attempts"]:
            t.add("world_no_upstream_connect")
    elif unj:
        t.note("%s: %s" % (unj, "blocked" if blocked else "passes"))
    else:
        t.add("not_own_listener_blocked" if blocked else "not_own_listener_allowed")
        if world and not blocked and not obs["connect_attempts"]:
            raise HarnessError("World did not attempt an upstream connection for an allowed destination: %r %r" % (case, obs))


# ---------------------------------------------------------------------------
# histories: runtime reconfiguration interleaved with upstream connects
#
# A real Master (Core + Proxyserver + NextLayer) runs on the virtual loop with `is_running` set.  The only
# seams replaced are the two functions that bind sockets (`asyncio.start_server`, `mitmproxy_rs.udp.start_udp_server`):
# they hand out fake listeners and complete only when the environment says so ("settle"), so an upstream connect
# can fall between an option change and the end of the asynchronous server restart.  Everything else - options,
# `Proxyserver.configure`, `Servers.update` (lock, stop-before-start, signals), `ServerInstance.start/stop`,
# `listen_addrs`, `server_connect` - is the real code.  The reference is evaluated on the listeners that are
# *open at the moment of the connect* (the environment's own registry, not mitmproxy's view of it).

HIST_PORT0 = 8080
HIST_MODE_SETS = {  # name -> option update (applied through the real options object)
    "m0": {"mode": ["regular"]},  # listens on listen_port (8080)
    "m1": {"mode": ["regular@8081"]},
    "m2": {"mode": ["regular@127.0.0.1:8082"]},
    "m3": {"mode": ["socks5@8081", "dns@8053"]},
    "m4": {"mode": ["reverse:udp://192.0.2.9:9@8081"]},
    "off": {"server": False},
    "on": {"server": True},
}
HIST_PROBE_HOSTS = [("localhost", "localhost"), ("127.0.0.1", "127.0.0.1"), ("::1", "::1"), ("listen-ip", "192.0.2.5"), ("other-host", "192.0.2.99")]
HIST_PROBE_PORTS = [8080, 8081, 8082, 8053, 443]


class HistListener:
    """stands in for asyncio.Server and mitmproxy_rs.udp.UdpServer"""

    def __init__(self, env, owner, host, port, transport):
        self.env, self.owner, self.transport = env, owner, transport
        if host in ("", None):
            addrs = [("0.0.0.0", port), ("::", port, 0, 0)] if transport == "tcp" else [("0.0.0.0", port)]
        elif host == "localhost":
            addrs = [("127.0.0.1", port), ("::1", port, 0, 0)]
        elif ":" in host:
            addrs = [(host, port, 0, 0)]
        else:
            addrs = [(host, port)]
        self.sockets = [FakeSock(a) for a in addrs]
        self.is_open = False

    def getsockname(self):
        return self.sockets[0].addr

    def close(self):
        self.is_open = False
        if self in self.env.open:
            self.env.open.remove(self)

    async def wait_closed(self):
        return

    def is_serving(self):
        return self.is_open


class HistEnv:
    def __init__(self):
        import asyncio

        import mitmproxy.ctx as mctx
        import mitmproxy_rs
        from mitmproxy import master as mmaster
        from mitmproxy import options as moptions
        from mitmproxy.addons import core as core_addon
        from mitmproxy.addons import next_layer as next_layer_addon
        from vmc.vloop import VLoop

        self.loop = VLoop(eager=True)
        self.open: list[HistListener] = []
        self.pending: list = []  # (listener, future)
        self._asyncio, self._rs = asyncio, mitmproxy_rs
        self._saved = (asyncio.start_server, mitmproxy_rs.udp.start_udp_server)
        env = self

        async def start(lst):
            for o in env.open:
                if o.transport == lst.transport and any(a.addr[:2] == b.addr[:2] for a in o.sockets for b in lst.sockets):
                    raise OSError(98, "Address already in use")
            fut = env.loop.create_future()
            env.pending.append((lst, fut))
            await fut
            lst.is_open = True
            env.open.append(lst)
            return lst

        async def fake_start_server(cb, host=None, port=None, **kw):
            return await start(HistListener(env, cb.__self__, host, port, "tcp"))

        async def fake_start_udp_server(host, port, cb, *a, **kw):
            return await start(HistListener(env, cb.__self__, host, port, "udp"))

        asyncio.start_server = fake_start_server
        mitmproxy_rs.udp.start_udp_server = fake_start_udp_server
        try:
            self.master = mmaster.Master(moptions.Options(), event_loop=self.loop)
            self.master._legacy_log_events.uninstall()
            self.ps = Proxyserver()
            self.loop.call_in_loop(lambda: self.master.addons.add(core_addon.Core(), self.ps, next_layer_addon.NextLayer()))
            mctx.master, mctx.options = self.master, self.master.options
            self.do(lambda: self.master.options.update(listen_host="", listen_port=HIST_PORT0, mode=["regular"]))
            self.do(lambda: self.loop.create_task(self.ps.setup_servers()))
            self.settle()
            self.ps.running()
        except BaseException:
            self.dispose()
            raise

    def do(self, fn):
        import mitmproxy.ctx as mctx

        mctx.master, mctx.options = self.master, self.master.options
        r = self.loop.call_in_loop(fn)
        self.loop.quiesce()
        return r

    def settle(self):
        """let every pending bind complete (and whatever restart was queued behind it)"""
        n = 0
        while self.pending:
            lst, fut = self.pending.pop(0)
            self.do(lambda: (not fut.done()) and fut.set_result(None))
            n += 1
        return n

    def listeners(self):
        """[[mode spec, [addr, ...]]] of what is open right now, per owning server instance"""
        out = []
        for lst in self.open:
            out.append([lst.owner.mode.full_spec, [list(s.addr) for s in lst.sockets], lst.transport])
        return out

    def dispose(self):
        self._asyncio.start_server, self._rs.udp.start_udp_server = self._saved
        try:
            self.loop.shutdown()
        except Exception:
            pass


def hist_reference(listeners, host, port, transport):
    """same predicate as `reference`, on the currently open listeners; a fake listener speaks exactly one transport"""
    req = req_mt = None
    for spec, addrs, lt in listeners:
        if lt != transport:
            continue
        for a in addrs:
            if a[1] != port:
                continue
            why = denotes(host, a[0])
            if why and not why.startswith("unjudged:") and req is None:
                req, req_mt = why, mode_specs.ProxyMode.parse(spec).transport_protocol
    return req, req_mt


def hist_actions_enabled(env_pending, last):
    acts = ["set:" + k for k in HIST_MODE_SETS]
    if env_pending:
        acts.append("settle")
    if last != "probe":
        acts.append("probe")
    return acts


def gen_histories(depth):
    """every action sequence up to `depth` over {set:<mode set>, settle, probe} that ends in a probe;
    'settle' is only meaningful after a set, 'probe' is never repeated back to back"""
    out = []

    def rec(prefix, may_settle):
        if prefix and prefix[-1] == "probe":
            out.append(list(prefix))
        if len(prefix) >= depth:
            return
        last = prefix[-1] if prefix else None
        for a in hist_actions_enabled(may_settle, last):
            rec(prefix + [a], True if a.startswith("set:") else (False if a == "settle" else may_settle))

    rec([], False)
    return out


def run_history(case, t: Tally, verbose=False):
    env = HistEnv()
    try:
        phase = "initial"
        for i, act in enumerate(case["actions"]):
            if act.startswith("set:"):
                upd = HIST_MODE_SETS[act[4:]]
                try:
                    env.do(lambda: env.master.options.update(**upd))
                except KeyboardInterrupt:
                    raise
                except BaseException as e:
                    t.note("option update rejected: %s" % type(e).__name__)
                phase = "during-restart" if env.pending else "after-reconfigure"
            elif act == "settle":
                env.settle()
                phase = "after-reconfigure"
            elif act == "probe":
                last = i == len(case["actions"]) - 1
                listeners = env.listeners()
                for kind, host in HIST_PROBE_HOSTS:
                    for port in HIST_PROBE_PORTS:
                        for tr in ("tcp", "udp"):
                            srv = connection.Server(address=(host, port), transport_protocol=tr)
                            cl = connection.Client(peername=("192.0.2.10", 51000), sockname=("192.0.2.1", HIST_PORT0), timestamp_start=0)
                            exc = None
                            try:
                                env.do(lambda: env.ps.server_connect(server_hooks.ServerConnectionHookData(server=srv, client=cl)))
                            except KeyboardInterrupt:
                                raise
                            except BaseException as e:
                                exc = repr(e)[:200]
                            if not last and not verbose:
                                continue  # earlier probes of this history are judged as the last probe of a shorter history
                            req, req_mt = hist_reference(listeners, host, port, tr)
                            feats = {"dest_kind": kind, "listener": "history", "mode_transport": req_mt or "-", "arrangement": "history", "phase": phase}
                            obs = {"error": srv.error, "exception": exc, "open_listeners": listeners, "probe": [host, port, tr]}
                            if exc:
                                t.bad("guard_does_not_crash", feats, case, "no exception", obs)
                            else:
                                t.ok("guard_does_not_crash")
                            if req:
                                ok = bool(srv.error) and "destination unknown" in str(srv.error).lower()
                                t.judge("self_connect_gets_error", ok, feats, case, "server.error = 'Request destination unknown...' (%s)" % req, obs)
                                t.add("history_probe_required")
                                if verbose and not ok:
                                    print("  probe %s:%d/%s passes although %s; open listeners: %r" % (host, port, tr, req, listeners))
                            else:
                                t.add("history_probe_blocked" if srv.error else "history_probe_allowed")
                            t.outcome(["history", phase, kind, port, tr, bool(req), bool(srv.error)])
            else:
                raise HarnessError("unknown history action %r" % act)
            if verbose:
                print("  after %-8s open=%r pending=%d" % (act, [(l[0], l[1][0][:2], l[2]) for l in env.listeners()], len(env.pending)))
        t.case(case if len(case["actions"]) == 4 else None, nontrivial=any(a.startswith("set:") for a in case["actions"]), key=case)
    finally:
        env.dispose()


def chunk_fn(chunk):
    t = Tally()
    for c in chunk:
        if c.get("via") == "history":
            run_history(c, t)
        else:
            run_case(c, t)
    return t


# ---------------------------------------------------------------------------


def arrangements(spec, addrs, thorough):
    """[(name, servers)]: the listener alone, behind / before an unrelated server, and split over two instances"""
    unrelated = ("socks5" if spec != "socks5" else "regular", [("0.0.0.0", 1080), ("::", 1080, 0, 0)])
    arr = [("single", [(spec, addrs)])]
    arr.append(("second-server", [unrelated, (spec, addrs)]))
    if thorough:
        arr.append(("first-server", [(spec, addrs), unrelated]))
        if len(addrs) > 1:
            arr.append(("reversed-addrs", [(spec, list(reversed(addrs)))]))
    return arr


def gen_cases(thorough):
    listen = LISTEN_THOROUGH if thorough else LISTEN
    modes = MODES_THOROUGH if thorough else MODES_QUICK
    cases = []
    for lname, addrs in listen.items():
        for spec in modes:
            for arr, servers in arrangements(spec, addrs, thorough):
                for kind, host in destinations(thorough):
                    if kind == "localhost-case" and thorough and arr != "single":
                        continue  # all 511 case variants only against the single-server arrangement
                    for port in (P, P_OTHER):
                        for tr in ("tcp", "udp"):
                            cases.append({"kind": kind, "host": host, "port": port, "transport": tr, "listen": lname, "arr": arr,
                                          "servers": [[s, [list(a) for a in al]] for s, al in servers]})
    return cases


def gen_world_cases(thorough):
    listen = LISTEN_THOROUGH if thorough else LISTEN
    cases = []
    for lname, addrs in listen.items():
        for kind, host in destinations(False):
            if "%" in host:
                continue  # a zone identifier cannot be written into an HTTP request target portably; judged on the guard only
            for port in (P, P_OTHER):
                cases.append({"via": "world", "kind": kind, "host": host, "port": port, "transport": "tcp", "listen": lname, "arr": "single",
                              "servers": [["regular", [list(a) for a in addrs]]]})
    return cases


def self_test():
    for spec, want in MODES.items():
        got = mode_specs.ProxyMode.parse(spec).transport_protocol
        if got != want:
            raise HarnessError("mode %s has transport %r, the enumeration assumes %r" % (spec, got, want))
    # the reference itself: the one spelling the repository tests must be required, a foreign host must not
    base = {"port": P, "transport": "tcp", "servers": [["regular", [["127.0.0.1", P]]]]}
    if not reference(dict(base, host="localhost"))[0] or reference(dict(base, host="192.0.2.99"))[0] or reference(dict(base, host="localhost", port=P_OTHER))[0]:
        raise HarnessError("reference predicate is broken")
    if reference(dict(base, host="localhost", transport="udp"))[0]:
        raise HarnessError("reference predicate ignores the transport")
    for kind, host in destinations(True):
        h = parse_host(host)
        if kind in ("public-name",) and h[0] != "name":
            raise HarnessError("destination %r should be a name" % host)
        if kind not in ("public-name", "localhost", "localhost-case", "localhost-dot") and h[0] != "ip":
            raise HarnessError("destination %r should parse as an address" % host)
        want_lb = kind in ("localhost", "localhost-case", "localhost-dot", "127.0.0.1", "loopback-v4-other", "::1", "::1-respelled", "mapped-loopback", "loopback-zoned")
        if is_loopback(h) != want_lb:
            raise HarnessError("reference classifies %r (%s) loopback=%r" % (host, kind, is_loopback(h)))


def run(ctx):
    self_test()
    thorough = ctx.thorough
    cases = gen_cases(thorough)
    wcases = gen_world_cases(thorough)
    dests = destinations(thorough)
    ctx.bounds = {
        "destinations": len(dests), "destination_kinds": sorted({k for k, _ in dests}),
        "listen_configurations": {k: [a[0] for a in v] for k, v in (LISTEN_THOROUGH if thorough else LISTEN).items()},
        "ports": [P, P_OTHER], "modes": MODES_THOROUGH if thorough else MODES_QUICK, "connection_transports": ["tcp", "udp"],
        "arrangements": ["single", "second-server"] + (["first-server", "reversed-addrs"] if thorough else []),
        "guard_cases": len(cases), "full_core_cases": len(wcases),
    }
    hdepth = ctx.pick(4, 5)
    hcases = [{"via": "history", "actions": a} for a in gen_histories(hdepth)]
    ctx.bounds["histories"] = {
        "count": len(hcases), "depth": hdepth, "actions": ["set:" + k for k in HIST_MODE_SETS] + ["settle (pending binds complete)", "probe"],
        "mode_sets": HIST_MODE_SETS, "probe": "%d hosts x ports %r x tcp/udp server_connect calls, judged on the listeners open at that moment" % (
            len(HIST_PROBE_HOSTS), HIST_PROBE_PORTS),
    }
    wcases = wcases + hcases
    ctx.log("%d guard cases, %d full-core cases + %d reconfiguration histories, %d destination spellings" % (
        len(cases), len(wcases) - len(hcases), len(hcases), len(dests)))
    # a guard case costs ~0.1 ms and a full-core case ~4 ms: one chunk per worker, a single pool
    # (the quick tier is ~3 s of CPU: forking a pool costs more than it saves, so it runs in-process)
    nproc = par.NPROC if len(cases) > 50000 else 1
    if nproc > 1:
        import gc

        gc.collect()
        gc.freeze()  # forked workers must not copy the parent's heap when their collector runs
    par.pmap_tally(chunk_fn, cases + wcases, ctx.tally, nchunks=par.NPROC, nproc=nproc)
    t = ctx.tally
    ctx.log("counters: %s" % dict(sorted(t.extra.items())))
    if not t.nontrivial:
        raise HarnessError("no case required the guard to fire")
    if not t.extra.get("history_probe_required") or not t.extra.get("history_probe_allowed"):
        raise HarnessError("vacuous history layer: %r" % t.extra)


def replay(case, t: Tally, verbose=False):
    if isinstance(case, dict) and case.get("via") == "history":
        run_history(case, t, verbose=verbose)
    else:
        run_case(case, t, verbose=verbose)
