"""RFC 6265 reference functions for C54 - boring on purpose, only what the property names.

§5.1.3 domain-match, §5.2.3 Domain attribute canonicalisation, §5.1.4 path-match and the
request-path of a request target.  Nothing here imports mitmproxy or http.cookiejar.
"""
from __future__ import annotations

import ipaddress


def is_ip(host: str) -> bool:
    try:
        ipaddress.ip_address(host.strip("[]"))
        return True
    except ValueError:
        return False


def cookie_domain(attr: str) -> str:
    """§5.2.3: one leading '.' is ignored, the rest is lower-cased"""
    if attr.startswith("."):
        attr = attr[1:]
    return attr.lower()


def domain_match(host: str, domain: str) -> bool:
    """§5.1.3: identical, or `domain` is a suffix of `host` preceded by '.', and host is a name"""
    host = host.lower()
    domain = domain.lower()
    if host == domain:
        return True
    if not domain or len(host) <= len(domain):
        return False
    return host.endswith(domain) and host[-len(domain) - 1] == "." and not is_ip(host)


def request_path(target: str) -> str:
    """the path portion of a request target (origin form), '/' when empty"""
    p = target.split("?", 1)[0].split("#", 1)[0]
    if not p.startswith("/"):
        return "/"
    return p


def path_match(req_path: str, cookie_path: str) -> bool:
    """§5.1.4"""
    if req_path == cookie_path:
        return True
    if req_path.startswith(cookie_path):
        if cookie_path.endswith("/"):
            return True
        if req_path[len(cookie_path)] == "/":
            return True
    return False


# -- coarse relations, used only to name the trigger class of a violation ------------------


def domain_relation(host: str, domain: str) -> str:
    """how `host` relates to a cookie domain it does NOT have to match"""
    host = host.lower()
    domain = domain.lower()
    if host == domain:
        return "equal"
    if domain_match(host, domain):
        return "subdomain"
    hl = host.split(".")
    dl = domain.split(".")
    n = len(dl)
    if domain_match(domain, host):
        return "parent_of_cookie_domain"
    for i in range(0, len(hl) - n + 1):
        if hl[i:i + n] == dl:
            # whole labels of the cookie domain occur inside the host, but not as its suffix
            return "labels_at_start_not_suffix" if i == 0 else "labels_inside_not_suffix"
    if host.endswith(domain):
        return "suffix_without_label_boundary"
    if domain in host:
        return "substring"
    return "unrelated"


def path_relation(req_path: str, cookie_path: str) -> str:
    if path_match(req_path, cookie_path):
        return "match"
    if req_path.startswith(cookie_path):
        return "prefix_without_segment_boundary"
    if cookie_path.startswith(req_path):
        return "request_above_cookie_path"
    return "unrelated"
