#!/bin/bash
# tools/matrix.sh [pattern] - run every mutants/<ID>-*.diff (matching pattern) against its check (quick tier) in a
# scratch worktree and append "<patch> <ID> exit=<rc>" lines to DETECTION.raw; tools/gen_detection.py renders DETECTION.md.
cd "$(dirname "$0")/.."
pat="${1:-}"
for f in mutants/*${pat}*.diff; do
  id=$(basename "$f" | cut -d- -f1)
  [ -f "checks/$(echo $id | tr A-Z a-z).py" ] || continue
  rc=$(tools/mutant.sh "$f" "$id" quick 2>/dev/null | grep -o "exit=[0-9]*" | tail -1)
  echo "$(basename $f) $id $rc $(date +%s)" | tee -a DETECTION.raw
done
